#!/bin/sh
# usage: tools/withpatch.sh <patch-file | -R:commit> <command...>
# applies the patch to /repo's working tree, runs the command, always restores the tree
p="$1"; shift
case "$p" in
  -R:*) git -C /repo show "${p#-R:}" -- . ':!*.md' > /tmp/_rev.diff && git -C /repo apply -R /tmp/_rev.diff || exit 3 ;;
  *) case "$p" in /*) ;; *) p="$(pwd)/$p" ;; esac
     git -C /repo apply "$p" || exit 3 ;;
esac
"$@"; rc=$?
git -C /repo checkout -- . >/dev/null 2>&1
exit $rc
