#!/usr/bin/env python3
"""Prints the brief given to an independent sub-agent that seeds a property-breaking change.
usage: mutation_prompt.py <property id> <n> [hint]"""
import json, sys
pid, n = sys.argv[1], sys.argv[2]
hint = sys.argv[3] if len(sys.argv) > 3 else ""
p = {json.loads(l)["id"]: json.loads(l) for l in open("/verif/properties.jsonl")}[pid]
wt = "/tmp/mut-%s-%s" % (pid, n)
print(f"""You are a software engineer asked to write a REALISTIC BUG: a small change to an open-source project that breaks one stated property of it while still compiling and passing the project's existing test suite. This is for evaluating a verification tool, which you know nothing about and must not look for: do not read anything under /verif or /root, use only the project itself.

PROJECT: Quiver, a statically-typed functional language (Rust workspace: nom parser, type checker + bytecode compiler in quiver-compiler, stack VM with Erlang-style processes in quiver-core/src/executor.rs, workers/environment/REPL in quiver-environment, CLI in quiver-cli, standard library in std/*.qv, language reference docs/spec.md, tests in quiver-tests/tests/*.rs).
Never use `git stash` (the stash is shared between worktrees and other engineers are working in sibling worktrees); to compare with the unmodified code use `git diff > /tmp/my.diff && git checkout -- <files>` and `git apply /tmp/my.diff` to restore. The machine is heavily loaded: the test `iter test_filter_long_skip_run_is_tail_recursive` has a 5 s limit and may time out under load even at HEAD - re-run it alone if it is the only failure. WORK ONLY IN YOUR OWN SCRATCH WORKTREE: create it with `git -C /repo worktree add {wt} HEAD` and work in {wt} (never edit /repo itself). Build/test there: `cargo build --offline -p quiver-cli` (gives {wt}/target/debug/quiv; `quiv run -e '<program>'` evaluates a program whose value must be a function: wrap as `#{{ ... }}`; the REPL test harness in quiver-tests/tests/common.rs evaluates plain programs), `cargo nextest run --workspace --no-fail-fast --offline` runs the whole suite (975 tests, all pass at HEAD; a few minutes including the build).

PROPERTY TO BREAK ({pid}: {p['title']}):
{p['statement']}
It is meant to hold {p['quantifier']['text']}.
Code that is meant to make it hold: {', '.join(p['anchors']['files'])}.

WHAT TO PRODUCE: one change (a few lines; it should look like an honest mistake, a plausible refactoring slip or a mis-handled corner — not sabotage, not a commented-out feature) such that
 (a) the workspace still compiles and the ENTIRE existing test suite still passes (run it and report the summary line);
 (b) the property is violated, but only when something SPECIFIC happens — a particular interleaving of worker/environment steps, a particular timing, a multi-step sequence of operations, an unusual input, or two sites that each look fine alone — NOT in ordinary use that any test or a first manual try would expose at once; {hint}
 (c) you have a DEMONSTRATION: a test (a new file in quiver-tests/tests/, or a small Rust test that drives the real `Environment`/`Worker`/`Executor` types directly in a chosen order if a schedule is needed — `Worker` is generic over `CommandReceiver`/`EventSender` and `Environment` takes `Box<dyn WorkerHandle>`, see quiver-environment/src/transport.rs and quiver-cli/src/native_transport.rs, so a single-threaded driver with in-memory queues can call `Environment::step()` / `Worker::step(now)` in any order) or a small Quiver program with its expected output, which FAILS with your change and PASSES without it. Run it both ways and report both results.
DELIVER (all inside {wt}/DELIVERY/): `patch.diff` = `git diff` of the CHANGE ONLY (source files of the project, not the demonstration), created against HEAD so that `git -C /repo apply patch.diff` works; the demonstration file(s) plus `demo.md` saying exactly how to run it and what passes/fails; `notes.md` with: which clause of the property breaks, what exactly is needed for it to manifest, why the existing tests do not notice. Finally delete your build output (`rm -rf {wt}/target`) but leave the worktree in place. Final answer ≤ 250 words: the change in one sentence, what triggers it, test-suite summary line, demo result with/without.""")
