#!/bin/sh
# usage: tools/verify_seeded.sh <worktree> <property> <n> <demo-test-file.rs> [more demo files...]
# Confirms a seeded change: (1) the whole suite passes with the change, (2) the demonstration fails
# with it, (3) passes without it.  Then stores it under /verif/seeded/<property>-<n>/ and removes the
# worktree's build output.
wt="$1"; prop="$2"; n="$3"; shift 3
out=/verif/seeded/$prop-$n; mkdir -p "$out"
cd "$wt" || exit 2
git checkout -- . ; git apply DELIVERY/patch.diff
names=""
for f in "$@"; do cp "DELIVERY/$f" quiver-tests/tests/ && names="$names $(basename "$f" .rs)"; done
echo "== suite WITH the change (demo excluded)"
filter=""; for t in $names; do filter="$filter and not binary(=$t)"; done
cargo nextest run --workspace --no-fail-fast --offline --test-threads 6 -E "all()$filter" 2>&1 | tail -3 | tee "$out/suite_with_change.txt"
echo "== demo WITH the change (expected: fails)"
for t in $names; do cargo nextest run --offline -p quiver-tests --test "$t" 2>&1 | tail -4; done | tee "$out/demo_with_change.txt"
git checkout -- $(git diff --name-only)
echo "== demo WITHOUT the change (expected: passes)"
for t in $names; do cargo nextest run --offline -p quiver-tests --test "$t" 2>&1 | tail -4; done | tee "$out/demo_without_change.txt"
cp DELIVERY/patch.diff DELIVERY/*.md "$out"/ 2>/dev/null
for f in "$@"; do cp "DELIVERY/$f" "$out"/; done
rm -rf "$wt/target"
