#!/usr/bin/env python3
"""Regenerates /verif/MANIFEST.json from the tables below (single source of truth)."""
import json, os

VERIF = os.path.dirname(os.path.dirname(os.path.abspath(__file__)))
ALL = ["C%02d" % i for i in range(1, 21)]

RT_NOTE = ("Trusted: the atomicity argument (one Worker::step / one Environment event = one atomic action), the rendering of "
           "scenario scripts to Quiver (checked by the monitor's ScriptFollowed rule and by L2 validation), the add-only hooks. "
           "Exhaustive only inside the scenario families and bounds listed in the evidence; the real code is explored by seeded "
           "schedules, not exhaustively.")
RT_TECH = ("TLA+ mechanism model checked exhaustively with TLC; trace validation of recorded real executions against it; "
           "TLA+ property monitor over the traces")

CHECKS = {
    "C03": ("runtime", "model_checking",
            "TLC explores every interleaving (all prefix visibilities, all slice lengths, clock ticks) of the mechanism model for each "
            "confluent scenario family and checks that all quiescent states have the same canonical results, none hangs and none ends "
            "in an internal error; the real Environment/Workers run the same scenarios under hundreds of seeded schedules (1-4 workers, "
            "quanta 1..1000) and the TLA+ monitor compares canonical per-process results across schedules; every judged execution is "
            "also validated step by step against the model (zero drift on the unchanged tree).", RT_NOTE, RT_TECH),
    "C04": ("runtime", "model_checking",
            "Same engine; invariants ExactlyOnce / SenderFIFO / Settled / NoLostWakeup / SpawnerGetsPid / SpawnExactlyOnce on every model "
            "state and on every recorded execution of the real code (mailboxes, arrivals and parked sets are read after every atomic step).",
            RT_NOTE, RT_TECH),
    "C05": ("runtime", "model_checking",
            "Same engine on select scenarios (source lists over await finished/unfinished/failing, type-only and filter receives, "
            "timeouts; pre-loaded mailboxes; arrivals during filter evaluation): SelectPriority, EarliestAccepted, MailboxPreserved, "
            "TimeoutNotEarly, AwaitYieldsResult, FilterIsVerdict, AwaitResultNotDropped judged by TLC on the model and on every select "
            "completion of the real executor (hook event carries source index and value).", RT_NOTE, RT_TECH),
    "C06": ("runtime", "model_checking",
            "spec/Heap.tla (retain/release/overwrite/deferred reclamation) is checked exhaustively at small scope for Counted, "
            "NoUseAfterFree, FreeList, NoOrphan, ContentStable; the same invariants are evaluated by the TLA+ monitor on the heap "
            "snapshot (refcounts, freed, free, pending_free, independently recomputed reachable set, per-slot content hash) taken after "
            "EVERY Worker::step of the real code on binary-carrying scenarios (captures, messages, filters, double awaits, failures) "
            "and REPL sessions (replace_locals / release_orphan_locals), down to quantum 1; results are compared with the value the "
            "mechanism model assigns (ContentPreserved); refcount assertion panics are recorded as data.",
            RT_NOTE + " Reachability is recomputed by the harness from Process fields, not by reachable_heap_indices.", RT_TECH),
    "C01": ("soundness", "model_checking",
            "spec/Soundness.tla states NotStuck (an accepted program never ends in TypeMismatch / FieldAccessInvalid / CallInvalid / "
            "ArityMismatch / stack or frame errors / undefined variable, function, constant, builtin) and Inhabits (the membership relation "
            "of the type semantics: kinds, tuple names, labels, field-wise, partials, unions) and TLC judges one record per accepted "
            "program: the outcome, the value with names and labels, and the result type the compiler inferred, exported as a graph from "
            "the session's own type registry (harness typerun). Programs: a seeded sample of the cross product (union parameter of 2-3 "
            "variants out of 11) x (1-3 ordered branch patterns out of 14) x (fallback or not) x (one argument per variant) - the "
            "narrowing-by-pattern-order carve-outs; tail calls with arguments of other types, generics at union arguments, recursive "
            "aliases, declared return types; the test-suite and spec.md corpus; typed spawn/send/select systems (runtime families, "
            "seeded random process systems, the select cross product); an exhaustive family of 480 spread literals (explicit field "
            "before / after / between spreads, colliding and fresh labels, four value types); a fixed corpus of generated programs.",
            "Trusted: the export of the type graph and of the value; Cycle back-references and type variables inside the inferred type "
            "are not judged. In the generated and process families a nil is accepted at any position (InhabitsUpToNil), because the "
            "pinned defect bound-variable-loses-nil strikes there in a large share of programs; the strict relation is used everywhere "
            "else. The generated corpus has a fixed generator seed so that the open typing defects it meets can be pinned one by one.",
            "TLA+ statement of type soundness (membership relation of the type semantics); recorded runs of accepted programs validated by TLC"),
    "C02": ("seqlang", "model_checking",
            "spec/SeqLang.tla is a big-step evaluator of the documented sequential core written in TLA+ (value flow, nil short-circuit, "
            "blocks/branches/condition-consequence, every pattern form, tuples/spreads/field access, functions, references, closures, "
            "tail calls, strings); programs are produced as abstract syntax by a seeded feature-crossing generator, by an exhaustive "
            "tiny-scope enumeration (every program up to 5-7 nodes) and from the test-suite / spec.md sources parsed by the REAL parser "
            "(harness astdump); each is compiled and run by the real compiler + VM and TLC (spec/SeqLangTrace.tla) judges "
            "`observed outcome \\in Eval(ast)`. Disagreements explained by an open entry of known_findings.json (syntactic trigger, or "
            "TLC/real re-run of the defect's variant program) print KNOWN-FINDING; anything else is a VIOLATION.",
            "Trusted: the TLA+ evaluator as the reading of docs/spec.md (self-tested by seeding errors on the specification side); the "
            "renderer is cross-checked by re-parsing with the real parser. Bounded by generator size and tiny-scope depth.",
            "TLA+ reference semantics evaluated by TLC; real executions of generated/enumerated programs validated against it"),
    "C08": ("types", "model_checking",
            "spec/Types.tla gives types their semantics as bounded value sets; TLC (MC_Types, Emit8) enumerates every (pattern type T, "
            "value v of depth <= 2) with the verdicts must/may and the static containment; each case is rendered for the pattern forms "
            "`='t`, `=('t)x`, typed tuple and partial patterns and run on the real code directly, tree-shaken (the quiv compile + run "
            "path) and as the last line of a session that merged 1-2 other generated programs; TLC (spec/TypesValTrace.tla) judges "
            "SAME (one verdict in all configurations), ACC (accepted => v inhabits T), MEM (statically contained => accepted). Process "
            "values are rendered three ways (spawn result, `&.` in the entry function, `&.` in a helper); resource handles are tested "
            "against \\File / \\Dir in one program and in sessions that mention other resource names before / after the handle is opened.",
            "Trusted: rendering of types/values to Quiver source and the projection of outcomes. Bounded: type graphs <= 3 nodes, values "
            "of depth <= 2, 2 tuple names / 2 labels.",
            "TLA+ type semantics; TLC-enumerated cases replayed into the implementation; verdicts validated by TLC"),
    "C09": ("types", "model_checking",
            "TLC (spec/MC_Types.tla) enumerates every closed contractive type graph with <= 3 nodes (plus seeded larger recursive shapes "
            "and mutants) with the specification's Contained/Overlap verdicts and witnesses; harness typesreplay builds each graph in a "
            "fresh quiver_core Program and records is_compatible, types_overlap, intersect_types and compute_complement of the REAL code; "
            "TLC (spec/TypesTrace.tla) judges reflexivity, soundness of is_compatible against value-set containment, transitivity, "
            "overlap completeness, intersection and complement coverage; findings are confirmed end to end by a rendered program.",
            "Trusted: the value-set semantics at depth 3 as the meaning of types; graphs are registered through the public registry API.",
            "TLA+ type semantics enumerated by TLC; answers of the real type relations validated against it by TLC"),
    "C07": ("vmstack", "model_checking",
            "spec/VMSem.tla transcribes the stack/locals effect of every instruction from execute_hot/execute_cold; spec/VMStack.tla "
            "runs the abstract machine (height, defined-locals and nil class of the top operand per pc, work-list fixpoint) over EVERY path of every function and "
            "checks no underflow, jumps in range, table indices in range, Load defined on all paths, a unique height at joins, exit "
            "height 1, TailCall heights; corpus = std library, every source string of the test suite, spec.md examples, examples/, "
            "generated programs, each in four forms (as compiled, tree-shaken, CLI-style tree-shaken, merged into an environment); "
            "spec/VMTrace.tla validates per-instruction traces of the REAL VM against the same stack effects (zero drift).",
            "Trusted: the bytecode dumper (harness bcdump) and the transcription of handler effects, itself validated by VMTrace on "
            "~700k real instruction steps. Exhaustive per function; the quantifier over programs is the corpus + generator.",
            "TLA+ abstract machine over the emitted bytecode, checked by TLC on every path; real VM traces validated against it"),
    "C10": ("packaging", "model_checking",
            "spec/Packaging.tla states that the outcome of Run(p, config) after any history of merges depends on p alone and that an "
            "import denotes the module body's value; TLC enumerates all merge histories of <= 3 programs over an 8-program pool (585); "
            "harness pkgrun runs test-suite/spec corpus programs, a fixed set under EVERY history, and import-vs-in-place pairs in the "
            "configurations compiled / tree-shaken / JSON round trip (byte-identical re-serialisation) / merged-after-history, a sample "
            "also through the real `quiv run`; spec/PackagingTrace.tla judges ConfigsAgree, SerdeIdentical, HistoryIndependent.",
            "Trusted: value projection; the agreed outcome is the implementation's own (generated programs are judged against SeqLang by C02).",
            "TLA+ specification of packaging histories; TLC-enumerated histories replayed into the implementation; outcomes validated by TLC"),
    "C16": ("vmstack", "model_checking",
            "Static part: spec/VMStack.tla proves on every path of every function that TailCall(true) sits at operand height exactly 1 and "
            "TailCall(false) at exactly 2 (no operand survives an iteration). Dynamic part: 59 tail-recursive shapes (^, ^f, ^~, bare ^ in nilary message-driven server loops, loop states rebuilt by spreads of union-typed sources, mutual "
            "recursion, tail calls inside nested blocks/branches/consequences, with and without a heap binary dropped per iteration) run "
            "on the real VM one instruction at a time at N=20 and 50N=1000; spec/VMTrace.tla validates both traces and spec/VMPeaks.tla "
            "judges that peak frames/locals/stack are equal at N and 50N and the heap stays bounded. Executor-level space around "
            "selects (a stranded filter verdict or select result) is judged on the runtime engine's select scenarios under seeded "
            "schedules by the monitor rule ParkedStackEmpty (a scripted process parks in a select and finishes with an empty operand stack).",
            "Trusted: as C07. The shapes are templates; iteration counts 20 and 1000.",
            "TLA+ abstract machine (TailCall height rule on all paths) + real VM traces at N and 50N validated and compared by TLC"),
    "C11": ("repl", "model_checking",
            "spec/Repl.tla is the session machine (accepted lines, dead-after-nil, variables; a rejected line leaves the state "
            "unchanged); TLC generates line histories over a 26-line pool (bindings, destructurings, shadowing with a type change, type "
            "aliases, closures over earlier bindings, imports, continuation lines using the flowing previous result, parser- and "
            "compiler-rejected lines, nil lines, heap binaries) and all splits of five programs into lines; each history is replayed "
            "into the real Repl (per-line value, variable listing, read-back of every variable) and per accepted prefix into the real "
            "compiler+VM as one program; spec/ReplTrace.tla judges LineEqualsProgramStep, EarlierBindingsKept, "
            "RejectedLineLeavesSession, VariableEqualsProgramBinding, SessionAlive.",
            "Trusted: the one-program side is the real compiler+VM on the joined accepted lines (its agreement with the language "
            "semantics is C02's matter); function values are compared by captured values. Histories of length <= 5.",
            "TLA+ session-machine specification; TLC-generated histories replayed into the implementation; recorded sessions validated by TLC"),
    "C13": ("equality", "model_checking",
            "spec/Equality.tla defines structural equality SEq on abstract values and its laws (reflexive, symmetric, transitive, = "
            "identity of abstract values) are checked by TLC on a small universe; the engine enumerates pairs of construction paths "
            "(literal, builtin-computed heap rope vs constant, spread, generic function = different tuple ids, import, message, "
            "separate REPL lines = separately merged programs, after other merges, inside a MODULE body evaluated by the synchronous "
            "executor; closures over binaries and tuples; mixed label positions) of the same and of different abstract values and "
            "records the verdicts of pinned match / repeated binder / literal match, directly and through a union-typed function; "
            "spec/EqualityTrace.tla judges PathIndependent and VerdictIsStructural. Refs: the mechanism model mints refs per worker and "
            "TLC checks RefsUnique; the monitor checks that refs minted by different processes under 1-4 workers are pairwise distinct.",
            "Trusted: the value projection (tuple name + labels + fields, bytes of binaries, function index + captures). Function values "
            "are compared within one program only.",
            "TLA+ definition of structural equality; recorded verdicts of the implementation validated by TLC; refs via the runtime engine"),
    "C14": ("runtime", "model_checking",
            "The mechanism model includes the environment's ownership table, the effect request/completion protocol and a backend "
            "registry; TLC checks ClosedAtExit / BackendCallsLegal / OwnerKnown exhaustively on resource scenarios (open, use, explicit "
            "close, handle sent in a message, captured by a spawn nested in a tuple, left in a mailbox, owner awaited or not); the "
            "real Environment runs the same scenarios against an instrumented in-memory EffectBackend and the TLA+ monitor keeps its "
            "own ownership map (as the property defines it) and judges every backend call: UseOnlyByOwner, NeverReachesBackend, "
            "NoCloseWhileOwnerAlive, ClosedExactlyOnceAtExit, OwnerCanUse; plus seeded random resource systems (open / use / close / send / "
            "receive handles, refused uses, failures, two handles in one transfer, immediate and deferred I/O). Leaks are split by "
            "history into the two pinned findings (owner's completion never reported; handle delivered to a finished process) and the rest.",
            RT_NOTE + " The backend is the harness's SimBackend (quiver-io's io_uring backend is not exercised).", RT_TECH),
    "C15": ("runtime", "model_checking",
            "Same engine on failure scenarios (failure before/while/after being awaited, awaiter that timed out, chains, two awaiters, "
            "forbidden operations in filters): FailureContained, AwaitersFail, ResultStable, NoInternalError, NoWorkerCrash (panics and "
            "Err returns of Worker::step / Environment::step are recorded as data).", RT_NOTE, RT_TECH),
    "C19": ("dict", "model_checking",
            "spec/Dict.tla (persistent finite map with version history) is enumerated exhaustively by TLC inside small constants; every "
            "generated history is replayed into the real %dict under nine concrete key assignments (no collision, shared 5-bit fragments "
            "at levels 0 / 0-2 / 0-5, full 32-bit FNV-1a collisions constructed by meet-in-the-middle, Str vs raw keys, long keys) and "
            "TLC (spec/DictTrace.tla) re-derives every observation (get/has?/count/entries/keys/values of every version) and compares.",
            "Trusted: the Python rendering of histories to Quiver programs and the projection of values; collisions are verified in "
            "Python before use. Bounded: <= 6 operations exhaustively, 200-operation seeded histories beyond.",
            "TLA+ finite-map specification; TLC-generated histories replayed into the implementation; observations validated by TLC"),
    "C20": ("num", "model_checking",
            "spec/Num.tla (exact arithmetic over integers, canonical rationals, single-radical surds and nil, with the module's "
            "canonical-form and nil rules; field/order laws checked on the oracle itself by MC_NumLaws) enumerates all operand tuples "
            "inside small magnitudes; each case is run against the real %num and TLC (spec/NumTrace.tla) judges the observed value "
            "against the specified one (same kind, lowest terms, sign, nil where specified); huge magnitudes are covered by scaling "
            "laws whose expected value stays small.",
            "Trusted: rendering of operands as literals, value projection. TLC integers are 32-bit: operands beyond |12| (6 for "
            "denominators) are reached only through the scaling laws.",
            "TLA+ exact-arithmetic specification; TLC-enumerated cases replayed into the implementation; results validated by TLC"),
}

ENGINES = [
    {"name": "runtime", "path": "engines/runtime.py", "serves_properties": ["C03", "C04", "C05", "C06", "C14", "C15"],
     "kind_free_text": "TLC exhaustive model checking of spec/Runtime.tla (and spec/Heap.tla) per scenario family + recorded executions "
                       "of the real Environment/Workers (harness `sim`) judged by the TLA+ property monitor spec/RuntimeObs.tla and "
                       "validated against the mechanism model by spec/RuntimeTrace.tla"},
    {"name": "equality", "path": "engines/equality.py", "serves_properties": ["C13"],
     "kind_free_text": "spec/Equality.tla + EqualityTrace.tla over recorded verdicts; refs clause through engines/runtime.py"},
    {"name": "vmstack", "path": "engines/vmstack.py", "serves_properties": ["C07", "C16"],
     "kind_free_text": "harness bcdump/vmtrace; spec/VMSem.tla + VMStack.tla (all paths of every function) + VMTrace.tla (real VM traces) + VMPeaks.tla"},
    {"name": "soundness", "path": "engines/soundness.py", "serves_properties": ["C01"],
     "kind_free_text": "harness typerun (outcome + value + exported inferred type graph); spec/Soundness.tla judges NotStuck / Inhabits"},
    {"name": "seqlang", "path": "engines/seqlang.py", "serves_properties": ["C02"],
     "kind_free_text": "lib/seqgen.py generator + tiny-scope enumeration + real parser (harness astdump); spec/SeqLang.tla evaluator; spec/SeqLangTrace.tla judges real runs"},
    {"name": "types", "path": "engines/types_engine.py", "serves_properties": ["C08", "C09"],
     "kind_free_text": "TLC enumerates type graphs / (type, value) cases of spec/Types.tla; harness typesreplay/typesrun; spec/TypesTrace.tla and TypesValTrace.tla judge"},
    {"name": "packaging", "path": "engines/packaging.py", "serves_properties": ["C10"],
     "kind_free_text": "TLC enumerates merge histories (spec/Packaging.tla); harness pkgrun; spec/PackagingTrace.tla judges"},
    {"name": "repl", "path": "engines/repl_engine.py", "serves_properties": ["C11"],
     "kind_free_text": "TLC generates histories of spec/Repl.tla; harness replrun/qrun replay them; spec/ReplTrace.tla judges"},
    {"name": "dict", "path": "engines/dict_engine.py", "serves_properties": ["C19"],
     "kind_free_text": "TLC enumerates histories of spec/Dict.tla; replay into %dict; spec/DictTrace.tla judges"},
    {"name": "num", "path": "engines/num_engine.py", "serves_properties": ["C20"],
     "kind_free_text": "TLC enumerates cases of spec/Num.tla; replay into %num; spec/NumTrace.tla judges"},
]

NOT_APPLICABLE = {
    "C12": "numeric/bit accuracy of ~46 pure builtins at 2^31..2^64 and 16 MB operands: TLC integers are 32-bit, TLA+ has no bit "
           "operations, there is no state or interleaving to explore (DESIGN.md section 6)",
    "C17": "round-trip property of a 2100-line text layout function whose oracle is the parser/formatter themselves; TLC cannot "
           "manipulate strings, a TLA+ model would be a second implementation (DESIGN.md section 6)",
    "C18": "absence of panics/non-termination over arbitrary byte strings in nom combinators: robustness without abstract state or "
           "transitions; fuzzing territory (DESIGN.md section 6)",
}
PENDING = "engine pending (DESIGN.md sections 5 and 10); not claimed until its quick check passes on the unchanged tree"


def main():
    m = {"version": 1,
         "setup_cmd": "cd /verif/harness && (test -f Cargo.lock || cp /repo/Cargo.lock Cargo.lock) && CARGO_NET_OFFLINE=true cargo build --offline --bins",
         "hooks": {"guard": "cargo feature `verif` of quiver-core and quiver-environment (off by default)",
                   "enable": "/verif/harness/Cargo.toml depends on /repo/quiver-core and /repo/quiver-environment with features=[\"verif\"]; "
                             "every check rebuilds the harness against /repo's working tree",
                   "baseline_off_cmd": "cd /repo && cargo nextest run --workspace --no-fail-fast --offline || cargo test --workspace --no-fail-fast --offline",
                   "source_commits": ["a28a258", "fd85506", "1458dfe"], "add_only": True},
         "engines": [e for e in ENGINES if any(p in CHECKS for p in e["serves_properties"])],
         "checks": [], "not_applicable": []}
    for pid in ALL:
        if pid in CHECKS:
            eng, cat, text, note, tech = CHECKS[pid]
            m["checks"].append({"property_id": pid, "quick_cmd": "./check %s --tier quick" % pid,
                                "thorough_cmd": "./check %s --tier thorough" % pid,
                                "evidence_file": "evidence/%s.json" % pid,
                                "replay_cmd_template": "./check %s --replay {path}" % pid, "engine": eng,
                                "level_claimed": {"category": cat, "text": text, "design_ref": "DESIGN.md section 5 (%s)" % pid},
                                "level_note": note, "technique": tech})
        else:
            m["not_applicable"].append({"property_id": pid, "reason": NOT_APPLICABLE.get(pid, PENDING)})
    m["notes"] = ("Only L1 property monitors over observations of the real code raise VIOLATION; model counter-examples and model drift "
                  "are reported in the evidence. known_findings.json lists pinned genuine defects (open) and repaired ones (fixed).")
    json.dump(m, open(os.path.join(VERIF, "MANIFEST.json"), "w"), indent=1)
    print("checks:", [c["property_id"] for c in m["checks"]])


if __name__ == "__main__":
    main()
