#!/usr/bin/env python3
"""Maintenance tool (never run by a check): re-derives the OPEN C01 entries of known_findings.json from what
the quick and thorough tiers meet on the CURRENT tree.  Entries that no longer reproduce are dropped (if a fix
commit repaired them, record a `fixed` entry by hand); new ones are added, pinned by rule + program text.
Review the diff before committing: every entry must be a genuine defect (value does not inhabit the inferred
type / stuck error in an accepted program), never a harness artefact."""
import json, os, re, subprocess, sys, time, glob
V = "/verif"
seen = {}
for tier in ("quick", "thorough"):
    t0 = time.time()
    subprocess.run([V + "/check", "C01", "--tier", tier], env=dict(os.environ, SOUND_MAX="100000"),
                   stdout=subprocess.DEVNULL, stderr=subprocess.DEVNULL)
    e = json.load(open(V + "/evidence/C01.json"))
    for k in e["coverage"].get("known_findings_seen") or []:
        seen[k] = None
    for f in glob.glob(V + "/replays/C01_*.json"):
        if os.path.getmtime(f) >= t0:
            r = json.load(open(f))
            if "program" not in r:
                continue
            key = "%s:%s" % (r["rule"], re.sub(r"\s+", " ", r["program"])[:160])
            seen[key] = r
p = V + "/known_findings.json"
k = json.load(open(p))
keep, dropped, have = [], [], set()
for x in k["findings"]:
    if x["property"] == "C01" and x["status"] == "open":
        if x["key"] not in seen:
            dropped.append(x["key"])
            continue
        have.add(x["key"])
    keep.append(x)
added = []
for key, r in seen.items():
    if key in have or r is None:
        continue
    one = " ".join(r["program"].split())
    if r["rule"] == "NotStuck":
        what = "an accepted program stops with a VM-level type failure: `%s` ends in %s" % (one[:300], (r.get("outcome") or {}).get("e") or r.get("detail", "")[:60])
    else:
        what = "the value does not inhabit the result type the compiler inferred: `%s` evaluates to %s but is typed %s" % (
            one[:300], json.dumps((r.get("outcome") or {}).get("v"))[:160], str(r.get("type"))[:120])
    keep.append({"property": "C01", "key": key, "status": "open", "what": what, "program": r["program"],
                 "observed": json.dumps(r.get("outcome"))[:400], "inferred_type": r.get("type"),
                 "specified": "never a VM-level type failure; a produced value structurally inhabits the inferred type (C01)"})
    added.append(key)
k["findings"] = keep
json.dump(k, open(p, "w"), indent=1)
print("dropped", len(dropped)); [print("  -", d[:150]) for d in dropped]
print("added", len(added)); [print("  +", a[:150]) for a in added]
