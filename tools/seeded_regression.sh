#!/bin/sh
# usage: tools/seeded_regression.sh [ids...]   (default: every directory under seeded/)
# Applies each stored seeded change to /repo, runs the quick check of ITS property, restores the tree, and
# reports whether a VIOLATION line was printed (expected: every one is DETECTED).  Patches were written against
# the /repo commit current at their time; one that no longer applies is reported as STALE.
cd /verif || exit 2
ids="$*"; [ -z "$ids" ] && ids=$(ls seeded)
for id in $ids; do
  prop=${id%-*}
  if ! git -C /repo apply --check "/verif/seeded/$id/patch.diff" 2>/dev/null; then echo "$id STALE (patch no longer applies)"; continue; fi
  out=$(tools/withpatch.sh "/verif/seeded/$id/patch.diff" ./check "$prop" 2>&1)
  if echo "$out" | grep -q "^VIOLATION property=$prop"; then echo "$id DETECTED by $prop"; else echo "$id MISSED by $prop"; fi
done
git -C /repo checkout -- . >/dev/null 2>&1
