"""Program corpus extracted from /repo's working tree: every string literal passed to `evaluate(` /
`then_evaluate(` in quiver-tests/tests/*.rs, every ```quiver block of docs/spec.md, examples/*.qv."""
import glob, os, re

RAW = re.compile(r'\.(?:then_)?evaluate\(\s*r(#*)"(.*?)"\1\s*[,)]', re.S)
PLAIN = re.compile(r'\.(?:then_)?evaluate\(\s*"((?:[^"\\]|\\.)*)"\s*[,)]', re.S)


def unescape(s):
    return (s.replace('\\n', '\n').replace('\\t', '\t').replace('\\"', '"').replace("\\\\", "\\")
            .replace('\\r', '\r'))


def test_sources(repo="/repo"):
    out = []
    for path in sorted(glob.glob(os.path.join(repo, "quiver-tests/tests/*.rs"))):
        txt = open(path, encoding="utf-8", errors="replace").read()
        name = os.path.basename(path)[:-3]
        if name.startswith("zz") or name in ("common",):
            continue
        for m in RAW.finditer(txt):
            out.append((name, m.group(2)))
        for m in PLAIN.finditer(txt):
            if "{}" in m.group(1) and "format!" in txt[max(0, m.start() - 200):m.start()]:
                continue
            out.append((name, unescape(m.group(1))))
    seen, uniq = set(), []
    for n, s in out:
        if s not in seen:
            seen.add(s)
            uniq.append((n, s))
    return uniq


def spec_blocks(repo="/repo"):
    txt = open(os.path.join(repo, "docs/spec.md")).read()
    return [("spec", b) for b in re.findall(r"```quiver\n(.*?)```", txt, re.S)]
