"""Scenario families for the runtime engine (C03, C04, C05, C13 refs, C14, C15).

Each scenario is a dict for lib/scn.py: scripts (script 1 = entry process), bounds for the TLC
model, and metadata: `confluent` (results must not depend on the schedule), `terminates` (every
process finishes), `props` (which properties the family is aimed at).
All message values inside one scenario are pairwise distinct (so the sender of an arrival is
recoverable from its value).
"""
from scn import *

OKE = c(OK)


def meta(s, confluent, terminates, props, **kw):
    s["confluent"] = confluent
    s["terminates"] = terminates
    s["props"] = props
    s.update(kw)
    return s


# ---------------------------------------------------------------- C03 / C04 families
def fanin(nsenders=2, nmsgs=1, nw=2):
    recv_ops = [select(i + 1, recv()) for i in range(nsenders * nmsgs)]
    receiver = recv_ops + [ret(t(*[r(i + 1) for i in range(nsenders * nmsgs)]))]
    scripts = [None, receiver]
    main = [spawn(1, 2)]
    for s in range(nsenders):
        scripts.append([send(1, c(I(10 * (s + 1) + m + 1))) for m in range(nmsgs)] + [ret(OKE)])
        main.append(spawn(2 + s, 3 + s, r(1)))
    main += [select(7, aw(1)), ret(r(7))]
    scripts[0] = main
    # the receive order across senders depends on the schedule: not confluent unless 1 sender
    return meta(scenario("fanin_%d_%d_w%d" % (nsenders, nmsgs, nw), scripts, nw=nw),
                nsenders == 1, True, ["C03", "C04"], large=nsenders * nmsgs > 2)


def pipeline(stages=2, nmsgs=2, nw=2):
    # stage k receives nmsgs ints and forwards each to stage k+1; the last stage returns them
    scripts = [None]
    # entry: spawn last stage first so that earlier stages can capture the next pid
    main = []
    regs = {}
    for k in range(stages, 0, -1):
        sidx = len(scripts) + 1
        if k == stages:
            ops = [select(i + 2, recv()) for i in range(nmsgs)] + [ret(t(*[r(i + 2) for i in range(nmsgs)]))]
            main.append(spawn(k, sidx))
        else:
            ops = []
            for i in range(nmsgs):
                ops += [select(2, recv()), send(1, r(2))]
            ops.append(ret(OKE))
            main.append(spawn(k, sidx, r(k + 1)))
        scripts.append(ops)
    for i in range(nmsgs):
        main.append(send(1, c(I(i + 1))))
    main += [select(7, aw(stages)), ret(r(7))]
    scripts[0] = main
    return meta(scenario("pipeline_%d_%d_w%d" % (stages, nmsgs, nw), scripts, nw=nw),
                True, True, ["C03", "C04"])


def fanout_join(n=3, nw=2):
    scripts = [None]
    main = []
    for i in range(n):
        scripts.append([ret(c(I(i + 1)))])
        main.append(spawn(i + 1, i + 2))
    for i in range(n):
        main.append(select(4 + i, aw(i + 1)))
    main.append(ret(t(*[r(4 + i) for i in range(n)])))
    scripts[0] = main
    return meta(scenario("fanout_%d_w%d" % (n, nw), scripts, nw=nw), True, True, ["C03", "C04"])


def await_chain(depth=3, nw=2):
    # entry awaits a, a spawns and awaits b, ... the innermost returns 7
    scripts = [[spawn(1, 2), select(2, aw(1)), ret(r(2))]]
    for d in range(depth - 1):
        scripts.append([spawn(1, d + 3), select(2, aw(1)), ret(t(c(I(d + 1)), r(2)))])
    scripts.append([ret(c(I(7)))])
    return meta(scenario("chain_%d_w%d" % (depth, nw), scripts, nw=nw), True, True, ["C03", "C04"])


def late_await(nw=2):
    # p finishes long before it is awaited; q is awaited first; p awaited twice
    scripts = [[spawn(1, 2), spawn(2, 3), select(3, aw(2)), select(4, aw(1)), select(5, aw(1)),
                ret(t(r(3), r(4), r(5)))],
               [ret(c(I(1)))],
               [select(1, tmo(2)), ret(c(I(2)))]]
    return meta(scenario("late_await_w%d" % nw, scripts, nw=nw, maxtick=2), True, True, ["C03", "C04"])


def nested_spawn(nw=2):
    # the child spawns a grandchild and returns its pid; the entry awaits the grandchild through it
    scripts = [[spawn(1, 2), select(2, aw(1)), select(3, aw(2)), ret(r(3))],
               [spawn(1, 3), ret(r(1))],
               [ret(c(I(9)))]]
    return meta(scenario("nested_w%d" % nw, scripts, nw=nw), True, True, ["C03", "C04"])


def recv_after_await(nw=2):
    # a message sent while the receiver is blocked in an await; then a spawn after the select
    # (the shape of defect 8: a stale empty await answer must not re-run the spawn)
    scripts = [[spawn(1, 2), send(1, c(I(7))), select(2, aw(1)), ret(r(2))],
               [spawn(1, 3), select(2, aw(1), recv()), spawn(3, 4), select(4, aw(3)), ret(t(r(2), r(4)))],
               [select(1, recv(("bin",))), ret(OKE)],
               [ret(c(I(5)))]]
    return meta(scenario("recv_after_await_w%d" % nw, scripts, nw=nw), False, False, ["C04", "C15"], large=True)


def sleep_then_spawn(nw=2):
    # confluent-class shape of defect 8: direct notification overtakes the query answer
    scripts = [[spawn(1, 2), spawn(2, 3), select(3, aw(2)), spawn(4, 4), select(5, aw(4)), ret(t(r(3), r(5)))],
               [ret(c(I(1)))],
               [select(1, tmo(5)), ret(c(I(2)))],
               [ret(c(I(5)))]]
    return meta(scenario("sleep_then_spawn_w%d" % nw, scripts, nw=nw, maxtick=5), True, True, ["C03", "C04"])


def two_awaits_same_worker(nw=2):
    # defect 3: two completions from one worker while another worker's answer is outstanding
    scripts = [[spawn(1, 2), spawn(2, 3), spawn(3, 4), select(4, aw(1), aw(3), aw(2)), ret(r(4))],
               [ret(c(I(1)))],
               [select(1, recv()), ret(c(I(2)))],
               [ret(c(I(3)))]]
    return meta(scenario("two_awaits_w%d" % nw, scripts, nw=nw), False, False, ["C05"])


# ---------------------------------------------------------------- C05 select scenarios
def select_case(srcs, preload, extra_after=(), nw=2, name="sel", maxtick=0):
    """A selector process: waits for the go message 99 (filter receive, leaving the preload in the
    mailbox), runs the select under test, then drains what is left with type-only receives and
    returns everything.  `srcs` may reference reg 1 (a process that finishes with 41), reg 2 (one
    that never finishes) and reg 3 (one that fails)."""
    need = {s["reg"] for s in srcs if s["k"] == "await"}
    sel = [select(8, recv(acc=[I(99)]))]
    sel.append(select(4, *srcs))
    # drain: one receive per remaining message kind, guarded by a zero timeout so it never blocks
    sel.append(select(5, recv(("int", "tup")), tmo(0)))
    sel.append(select(6, recv(("int", "tup")), tmo(0)))
    sel.append(ret(t(r(4), r(5), r(6))))
    scripts = [None, [ret(c(I(41)))], [select(1, recv(("bin",))), ret(OKE)], [fail()], sel]
    main = []
    if 1 in need: main.append(spawn(1, 2))
    if 2 in need: main.append(spawn(2, 3))
    if 3 in need: main.append(spawn(3, 4))
    main.append(spawn(4, 5, *[r(i) if i in need else c(NIL) for i in (1, 2, 3)]))
    for m in preload:
        main.append(send(4, c(m)))
    main.append(send(4, c(I(99))))
    for m in extra_after:
        main.append(send(4, c(m)))
    main += [select(5, aw(4)), ret(r(5))]
    scripts[0] = main
    # remove unused helper scripts' references is unnecessary: unused scripts are simply never spawned
    return meta(scenario(name, scripts, nw=nw, maxtick=maxtick, maxpid=1 + len(need) + 1),
                False, False, ["C05", "C04", "C16"])


def select_cases(nw=2):
    out = []
    A = [I(1), I(2), T(I(3), I(4))]
    # priority: await of a finished process before a receive
    out.append(select_case([aw(1), recv()], [I(1)], name="sel_await_recv", nw=nw))
    out.append(select_case([recv(), aw(1)], [I(1)], name="sel_recv_await", nw=nw))
    # filters: skip, accept later one, leave the rest in order
    out.append(select_case([recv(acc=[I(2)])], [I(1), I(2), I(3)], name="sel_filter_mid", nw=nw))
    out.append(select_case([recv(acc=[I(5)]), recv(("tup",))], [I(1), T(I(3), I(4))], name="sel_filter_then_type", nw=nw))
    out.append(select_case([recv(("tup",)), recv(acc=[I(1)])], [I(1), T(I(3), I(4))], name="sel_type_then_filter", nw=nw))
    out.append(select_case([recv(acc=[I(7)]), recv(acc=[I(1)])], [I(1)], extra_after=[I(7)], name="sel_two_filters_race", nw=nw))
    # timeouts
    out.append(select_case([recv(acc=[I(5)]), tmo(2)], [I(1)], name="sel_filter_timeout", nw=nw, maxtick=2))
    out.append(select_case([aw(2), tmo(1)], [], name="sel_await_timeout", nw=nw, maxtick=1))
    out.append(select_case([tmo(0), recv()], [I(1)], name="sel_timeout0_first", nw=nw))
    out.append(select_case([aw(2), recv(acc=[I(2)]), tmo(3)], [I(1)], extra_after=[I(2)], name="sel_mixed3", nw=nw, maxtick=3))
    out[-1]["large"] = True
    # a BUILTIN as a receive source (type-only, never applied) written before other receive sources: each
    # receive source has its own cursor (seeded change C05-2: a builtin source was scanned but not counted, so
    # the source after it shared its cursor and never saw the messages the builtin had skipped)
    out.append(select_case([recv(("tup",), body="builtin"), recv()], [I(1)], name="sel_builtin_then_type", nw=nw))
    out.append(select_case([recv(("tup",), body="builtin"), recv(acc=[I(2)]), tmo(1)], [I(1), I(2)],
                           name="sel_builtin_filter_timeout", nw=nw, maxtick=1))
    out.append(select_case([recv(acc=[I(9)]), recv(("tup",), body="builtin"), recv()], [I(1), T(I(3), I(4))],
                           name="sel_filter_builtin_type", nw=nw))
    # a timeout far beyond 64 bits (a "never" sentinel) written BEFORE sources that are ready: it must not fire
    # (seeded change C05-3: a shared conversion helper turned durations that do not fit in 64 bits into 0)
    out.append(select_case([tmo_huge(), aw(1)], [], name="sel_huge_timeout_await", nw=nw))
    out.append(select_case([tmo_huge(), recv(acc=[I(2)]), recv()], [I(1)], name="sel_huge_timeout_recv", nw=nw))
    # failing await target
    out.append(select_case([aw(3), recv()], [], name="sel_await_failing", nw=nw))
    out.append(select_case([recv(), aw(3)], [I(1)], name="sel_recv_before_failing", nw=nw))
    return out


# ---------------------------------------------------------------- C15 failure scenarios
def failure_cases(nw=2):
    out = []
    # a failing process that nobody awaits; others finish normally
    s = scenario("fail_unawaited_w%d" % nw,
                 [[spawn(1, 2), spawn(2, 3), select(3, aw(2)), ret(r(3))], [fail()], [ret(c(I(2)))]], nw=nw)
    out.append(meta(s, True, True, ["C15", "C03"]))
    # awaited before / after the failure
    s = scenario("fail_awaited_w%d" % nw,
                 [[spawn(1, 2), select(2, aw(1)), ret(r(2))], [fail()]], nw=nw)
    out.append(meta(s, True, True, ["C15", "C03"]))
    s = scenario("fail_awaited_late_w%d" % nw,
                 [[spawn(1, 2), spawn(2, 3), select(3, aw(2)), select(4, aw(1)), ret(r(4))],
                  [fail()], [select(1, tmo(2)), ret(c(I(2)))]], nw=nw, maxtick=2)
    out.append(meta(s, True, True, ["C15", "C03"]))
    # the awaiter gave up (timeout) before the failure: it must not be failed later (defect 2)
    s = scenario("fail_after_timeout_w%d" % nw,
                 [[spawn(1, 2), select(2, aw(1), tmo(1)), send(1, c(I(1))), spawn(3, 3), select(4, aw(3)),
                   ret(c(I(42)))],
                  [select(1, recv()), fail()],
                  [select(1, tmo(3)), ret(OKE)]], nw=nw, maxtick=4)
    out.append(meta(s, False, True, ["C15"], large=True))
    # chain: c fails, b awaits c, a awaits b
    s = scenario("fail_chain_w%d" % nw,
                 [[spawn(1, 2), select(2, aw(1)), ret(r(2))],
                  [spawn(1, 3), select(2, aw(1)), ret(r(2))],
                  [fail()]], nw=nw)
    out.append(meta(s, True, True, ["C15", "C03"]))
    # two awaiters of one failing process, plus a bystander sending to it
    s = scenario("fail_two_awaiters_w%d" % nw,
                 [[spawn(1, 2), spawn(2, 3, r(1)), spawn(3, 4, r(1)), select(4, aw(2)), ret(r(4))],
                  [select(1, recv()), fail()],
                  [select(2, aw(1)), ret(r(2))],
                  [send(1, c(I(5))), ret(OKE)]], nw=nw)
    out.append(meta(s, True, True, ["C15", "C03", "C04"]))
    # forbidden operations inside a filter
    for body in ("spawn", "send"):
        s = scenario("fail_filter_%s_w%d" % (body, nw),
                     [[spawn(1, 3), spawn(2, 2, r(1)), send(2, c(I(1))), select(3, aw(2)), ret(r(3))],
                      [select(2, recv(body=body)), ret(r(2))],
                      [select(1, recv(), tmo(1)), ret(OKE)]], nw=nw, maxtick=1)
        out.append(meta(s, True, True, ["C15", "C05"]))
    return out


def all_families(nws=(1, 2, 3)):
    out = []
    for nw in nws:
        out += [fanin(2, 1, nw), fanin(1, 2, nw), fanin(2, 2, nw), pipeline(2, 2, nw), fanout_join(3, nw),
                await_chain(3, nw), late_await(nw), nested_spawn(nw), recv_after_await(nw),
                sleep_then_spawn(nw), two_awaits_same_worker(nw)]
        out += select_cases(nw)
        out += failure_cases(nw)
        out += [request_reply(nw, 1), request_reply(nw, 2), message_during_spawn(nw), send_to_finished(nw), filter_fails(nw),
                abandoned_await(nw), abandoned_await_msg(nw), fail_multi_worker_select(nw), fail_already_failed_multi(nw),
                shared_target(nw), shared_target(nw, True), shared_failing_target(nw), await_window(nw),
                fail_during_filter_effect(nw, True), fail_during_filter_effect(nw, False),
                fail_during_filter_effect(nw, True, True), fail_during_filter_effect(nw, False, True),
                fail_during_filter_read(nw, True), fail_during_filter_read(nw, False), burst(40, nw), reawait(nw, True), reawait(nw, False)]
        out += heap_cases(nw)
        out += [bin_final_send(nw), bin_final_send_tuple(nw)]
        out += session_cases(nw)
        out += ref_cases(nw)
        out += resource_cases(nw)
    return out


# ---------------------------------------------------------------- C06 heap scenarios
def _sendable(m):
    return m if "e" in m else c(m)


def heap_cases(nw=2):
    out = []
    # double await of a process whose result is a heap binary (defect 1a shape), then another spawn
    s = scenario("bin_double_await_w%d" % nw,
                 [[spawn(1, 2), select(2, aw(1)), select(3, aw(1)), spawn(4, 3), select(5, aw(4)),
                   ret(t(r(2), r(3), r(5)))],
                  [ret(hb(1, 2))],
                  [ret(c(I(1)))]], nw=nw)
    out.append(meta(s, True, True, ["C06"]))
    # two heap binaries captured by one spawn (defect 9 shape), returned in a tuple
    s = scenario("bin_two_caps_w%d" % nw,
                 [[let(1, hb(1, 2)), let(2, hb(3, 4)), spawn(3, 2, r(1), r(2)), select(4, aw(3)),
                   ret(t(r(4), r(1)))],
                  [ret(t(r(1), r(2), r(1)))]], nw=nw)
    out.append(meta(s, True, True, ["C06"]))
    # heap binaries as messages, stored in a tuple by the receiver, forwarded once more
    s = scenario("bin_messages_w%d" % nw,
                 [[spawn(1, 2), spawn(2, 3, r(1)), select(3, aw(1)), ret(r(3))],
                  [select(1, recv(("bin",))), select(2, recv(("bin",))), ret(t(r(1), r(2)))],
                  [send(1, hb(5, 6)), send(1, hb(7, 8, 9)), ret(OKE)]], nw=nw)
    out.append(meta(s, True, True, ["C06", "C04"]))
    # tuples of binaries through a pipeline stage
    s = scenario("bin_pipeline_w%d" % nw,
                 [[spawn(1, 2), spawn(2, 3, r(1)), send(2, t(hb(1, 1), hb(2, 2))), select(3, aw(1)), ret(r(3))],
                  [select(1, recv(("btup",))), ret(t(r(1), r(1)))],
                  [select(2, recv(("btup",))), send(1, r(2)), ret(OKE)]], nw=nw)
    out.append(meta(s, True, True, ["C06"]))
    # filter over binaries: take the middle one, drain the rest in order
    sel = [select(8, recv(acc=[I(99)])), select(4, recv(("bin",), acc=[B(3, 4)])),
           select(5, recv(("bin",)), tmo(0)), select(6, recv(("bin",)), tmo(0)), ret(t(r(4), r(5), r(6)))]
    s = scenario("bin_filter_w%d" % nw,
                 [[spawn(1, 2), send(1, hb(1, 2)), send(1, hb(3, 4)), send(1, hb(5, 6)), send(1, c(I(99))),
                   select(2, aw(1)), ret(r(2))], sel], nw=nw)
    out.append(meta(s, True, True, ["C06", "C05"]))
    # a higher-priority receive finds a message while a lower-priority filter holds a binary (defect 1c shape)
    sel = [select(8, recv(acc=[I(99)])),
           select(4, recv(acc=[I(7)]), recv(("bin",), acc=[B(1, 2)])),
           select(5, recv(("bin", "int")), tmo(0)), ret(t(r(4), r(5)))]
    s = scenario("bin_filter_race_w%d" % nw,
                 [[spawn(1, 2), send(1, hb(1, 2)), send(1, c(I(99))), send(1, c(I(7))),
                   select(2, aw(1)), ret(c(OK))], sel], nw=nw)
    out.append(meta(s, False, True, ["C06", "C05"]))
    # an EARLIER source (a timeout, an awaited process) becomes ready while a later filter is running on a binary
    # message: the select completes through the earlier source with the message still held in `receiving`
    # (seeded change C06-3: the held message was taken to be the yielded value - never released, and the real
    # result pushed without a retain)
    sel = [select(8, recv(acc=[I(99)])),
           select(4, tmo(1), recv(("bin",), acc=[B(9, 9)])),
           select(5, recv(("bin",)), tmo(0)), select(6, recv(("bin",)), tmo(0)), ret(t(r(4), r(5), r(6)))]
    s = scenario("bin_filter_timeout_during_w%d" % nw,
                 [[spawn(1, 2), send(1, hb(1, 2)), send(1, hb(3, 4)), send(1, c(I(99))),
                   select(2, aw(1)), ret(r(2))], sel], nw=nw, maxtick=2)
    out.append(meta(s, False, True, ["C06", "C05"]))
    sel = [select(8, recv(acc=[I(99)])),
           select(4, aw(1), recv(("bin",), acc=[B(9, 9)])),
           select(5, recv(("bin",)), tmo(0)), select(6, recv(("bin",)), tmo(0)), ret(t(r(4), r(5), r(6)))]
    s = scenario("bin_filter_await_during_w%d" % nw,
                 [[spawn(1, 3), spawn(2, 2, r(1)), send(2, hb(1, 2)), send(2, hb(3, 4)), send(2, c(I(99))), send(1, c(I(1))),
                   select(3, aw(2)), ret(r(3))], sel,
                  [select(1, recv()), ret(hb(7, 7))]], nw=nw)
    out.append(meta(s, False, True, ["C06", "C05"]))
    # a process that keeps a binary, awaits a failing process and dies holding it
    s = scenario("bin_held_by_failed_w%d" % nw,
                 [[spawn(1, 2), select(2, aw(1)), ret(r(2))],
                  [let(3, hb(9, 9)), spawn(1, 3), select(2, aw(1)), ret(r(3))],
                  [fail()]], nw=nw)
    out.append(meta(s, True, True, ["C06", "C15"]))
    return out


# REPL sessions (no scripts: only the state-based heap rules are judged)
HEAP_SESSIONS = [
    ["a = [0x01, 0x02] __binary_concat__", "b = [a, a]", "a = 5", "b", "c = [b, 0x0304]", "b = 1", "c", "c = 2", "a"],
    ["f = #'bin { [~, 0xff] __binary_concat__ }", "x = 0x01 f", "y = x f", "x = 0", "y", "z = [y, y] , 0", "y = 1", "z"],
    ["p = @#{ [0x01, 0x02] __binary_concat__ }", "r = !p", "s = !p", "r = 0", "s", "s = 0", "q = @#{ 1 }", "!q"],
    ["g = #'int { | =0 => [] | 5 }", "k = [0x0a, 0x0b] __binary_concat__, 0 g, m = 2", "k", "k = 1", "m = 3"],
    ["a = [0x01, 0x02] __binary_concat__", "this does not parse (", "b = [a, undefined_name]", "a", "a = 0"],
    ["t = [[0x01, 0x02] __binary_concat__, [0x03, 0x04] __binary_concat__]", "[u, v] = t", "t = 0", "u", "u = 0", "v"],
]


# Unscripted one-line programs in which a CLOSURE that reaches a heap binary only through a compound capture (a
# tuple, a nested closure) crosses a process boundary - as a spawn capture, an argument, a message, an awaited
# result (seeded change C06-4: remap_heap_indices skipped closures none of whose captures is directly a binary).
# Judged by the state-based heap rules and by the expected final value (ContentPreserved).
_K = "k = [0xaa, 0xbb] __binary_concat__, pair = [k, 7]"
HEAP_PROGRAMS = [
    _K + ", f = #{ pair }, p = @#{ f }, !p",
    "p = @#{ " + _K + ", #{ pair } }, g = !p, g",
    "p = @#{ !#(#[] -> ['bin, 'int]) =g, g }, " + _K + ", #{ pair } p, !p",
    _K + ", f = #{ pair }, h = #{ [f, 1] }, p = @#{ h =t, t.0 =g, g }, !p",
    _K + ", f = #{ pair }, p = &f @#(#[] -> ['bin, 'int]) { =g, g }, !p",
]
HEAP_PROGRAMS_EXPECT = T(B(170, 187), I(7))


# ---------------------------------------------------------------- C13 refs: minted under every placement
def ref_cases(nw=2):
    out = []
    # every spawned process mints two refs and returns exactly those; the entry process mints, awaits all, returns all
    leaf = [mint(1), mint(2), ret(t(r(1), r(2)))]
    s = scenario("refs_fan_w%d" % nw,
                 [[mint(6), spawn(1, 2), spawn(2, 3), mint(7), select(4, aw(1)), select(5, aw(2)),
                   ret(t(r(6), r(7), r(4), r(5)))], leaf, leaf], nw=nw)
    out.append(meta(s, False, True, ["C13"]))
    # refs travelling in messages and coming back
    s = scenario("refs_roundtrip_w%d" % nw,
                 [[spawn(1, 2), spawn(2, 3, r(1)), select(3, aw(1)), select(4, aw(2)), ret(t(r(3), r(4)))],
                  [mint(1), select(2, recv(("ref",))), mint(3), ret(t(r(1), r(3)))],
                  [mint(2), send(1, r(2)), mint(3), ret(t(r(2), r(3)))]], nw=nw)
    out.append(meta(s, False, True, ["C13", "C04"]))
    return out


# ---------------------------------------------------------------- C14 resources
def resource_cases(nw=2):
    out = []
    # owner opens, uses, finishes while awaited: closed exactly once at exit
    s = scenario("res_owner_awaited_w%d" % nw,
                 [[spawn(1, 2), select(2, aw(1)), ret(r(2))],
                  [ropen(1), ruse(2, 1), ret(r(2))]], nw=nw, io=True)
    out.append(meta(s, True, True, ["C14"]))
    # explicit close, then exit
    s = scenario("res_explicit_close_w%d" % nw,
                 [[spawn(1, 2), select(2, aw(1)), ret(r(2))],
                  [ropen(1), ruse(2, 1), rclose(1), ret(r(2))]], nw=nw, io=True)
    out.append(meta(s, True, True, ["C14"]))
    # the handle is sent to another process, which uses it; the old owner tries to use it afterwards and
    # fails without reaching the backend; the new owner outlives the attempt
    s = scenario("res_sent_w%d" % nw,
                 [[spawn(1, 2), spawn(2, 3, r(1)), select(3, tmo(3)), send(1, c(I(5))), select(4, aw(1)), ret(r(4))],
                  [select(1, recv(("res",))), ruse(2, 1), select(3, recv(("int",))), ret(r(2))],
                  [ropen(2), send(1, r(2)), ruse(4, 2), ret(r(4))]], nw=nw, io=True, maxtick=3)
    out.append(meta(s, False, False, ["C14", "C15"]))
    # the handle is sent to a process that has already terminated and been cleaned up behind: it is never closed
    # (pinned finding res_delivered_to_finished; the model's ClosedAtExit shows the same counter-example)
    s = scenario("res_delivered_to_finished_w%d" % nw,
                 [[spawn(1, 2), spawn(2, 3, r(1)), select(3, aw(1)), select(4, aw(2)), ret(OKE)],
                  [select(1, recv(("res",)), tmo(1)), ret(OKE)],
                  [select(2, tmo(2)), ropen(3), send(1, r(3)), ret(OKE)]], nw=nw, io=True, maxtick=3)
    out.append(meta(s, False, True, ["C14"]))
    # TWO handles move in one transfer: captured by one spawn / sent in one message (seeded change C14-3: the
    # ownership walk stopped at the first handle it found, every further one kept its old owner)
    s = scenario("res_two_captured_w%d" % nw,
                 [[spawn(1, 2), select(2, aw(1)), ret(r(2))],
                  [ropen(1), ropen(2), spawn(3, 3, r(1), r(2)), select(4, aw(3)), ret(r(4))],
                  [ruse(3, 1), ruse(4, 2), ret(t(r(3), r(4)))]], nw=nw, io=True)
    out.append(meta(s, True, True, ["C14"]))
    s = scenario("res_two_in_message_w%d" % nw,
                 [[spawn(1, 2), spawn(2, 3, r(1)), select(3, aw(1)), select(4, aw(2)), ret(r(3))],
                  [select(1, recv(("rpair",))), let(2, fld(1, 0)), let(3, fld(1, 1)), ruse(4, 2), ruse(5, 3), ret(t(r(4), r(5)))],
                  [ropen(2), ropen(3), send(1, t(r(2), r(3))), ret(OKE)]], nw=nw, io=True)
    out.append(meta(s, True, True, ["C14"]))
    s = scenario("res_capture_and_argument_w%d" % nw,
                 [[spawn(1, 2), select(2, aw(1)), ret(r(2))],
                  [ropen(1), ropen(2), let(5, t(c(I(1)), r(2))), spawn(3, 3, r(1), r(5)), select(4, aw(3)), ret(r(4))],
                  [let(6, fld(2, 1)), ruse(3, 6), ruse(4, 1), ret(t(r(3), r(4)))]], nw=nw, io=True)
    out.append(meta(s, True, True, ["C14"]))
    # the handle is captured by a spawned process (ownership moves at the spawn), nested in a tuple
    s = scenario("res_captured_w%d" % nw,
                 [[spawn(1, 2), select(2, aw(1)), ret(r(2))],
                  [ropen(1), spawn(2, 3, t(r(1), c(I(1)))), select(3, aw(2)), ret(r(3))],
                  [ret(c(I(7)))]], nw=nw, io=True)
    out.append(meta(s, True, True, ["C14"]))
    # the handle travels BELOW the top level of the capture: inside a tuple built by the parent
    # (seeded change C14-1: ownership was transferred only when a top-level capture/argument was a resource)
    s = scenario("res_nested_capture_w%d" % nw,
                 [[spawn(1, 2), select(2, aw(1)), ret(r(2))],
                  [ropen(1), let(4, t(c(I(1)), r(1))), spawn(2, 3, r(4)), select(3, aw(2)), ret(r(3))],
                  [let(2, fld(1, 1)), ruse(3, 2), ret(r(3))]], nw=nw, io=True)
    out.append(meta(s, True, True, ["C14"]))
    # ... and the old owner tries to use it after handing it away nested in a tuple
    s = scenario("res_nested_capture_old_owner_w%d" % nw,
                 [[spawn(1, 2), select(2, tmo(3)), ret(OKE)],
                  [ropen(1), let(4, t(c(I(1)), r(1))), spawn(2, 3, r(4)), ruse(5, 1), ret(r(5))],
                  [let(2, fld(1, 1)), select(4, tmo(2)), ruse(3, 2), rclose(2), ret(r(3))]], nw=nw, io=True, maxtick=3)
    out.append(meta(s, False, True, ["C14"]))
    # a handle left in a mailbox of a process that finishes without receiving it
    s = scenario("res_in_mailbox_w%d" % nw,
                 [[spawn(1, 2), spawn(2, 3, r(1)), select(3, aw(2)), send(1, c(I(1))), select(4, aw(1)), ret(r(4))],
                  [select(1, recv(("int", "res"), acc=[I(1)])), ret(r(1))],
                  [ropen(2), send(1, r(2)), ret(OKE)]], nw=nw, io=True)
    out.append(meta(s, True, True, ["C14"]))
    # the same shapes against a backend that completes LATER (process_completions at a later environment step)
    for base in list(out):
        if base["name"].startswith(("res_owner_awaited", "res_explicit_close", "res_sent", "res_nested_capture_w")):
            d = dict(base, name=base["name"].replace("_w%d" % nw, "_deferred_w%d" % nw), deferred_io=True, iomodes=["later"])
            out.append(d)
    # ONE select awaits the owner and processes on other workers that are still running: the owner's completion is
    # reported while the environment is still collecting the other workers' answers to the initial query (seeded
    # change C14-4: clean-up used only the LAST worker's report, so a completion that arrived earlier in the round
    # closed nothing).  `late`: the owner is still running when the query arrives and finishes inside the window.
    for late in (False, True):
        s = scenario("res_await_window%s_w%d" % ("_late" if late else "", nw),
                     [[spawn(1, 2), spawn(2, 3), spawn(3, 3)] + ([send(1, c(I(7)))] if late else [select(6, tmo(1))]) +
                      [select(4, aw(1), aw(2), aw(3)), ret(r(4))],
                      ([select(3, recv())] if late else []) + [ropen(1), ruse(2, 1), ret(r(2))],
                      [select(1, recv(("bin",))), ret(OKE)]], nw=nw, io=True, maxtick=2, maxpid=4)
        out.append(meta(s, True, False, ["C14", "C04"]))
    # an owner nobody awaits (the known finding: its resource is never closed)
    s = scenario("res_owner_unawaited_w%d" % nw,
                 [[spawn(1, 2), spawn(2, 3), select(3, aw(2)), ret(r(3))],
                  [ropen(1), ret(OKE)],
                  [select(1, tmo(2)), ret(c(I(7)))]], nw=nw, io=True, maxtick=2)
    out.append(meta(s, True, True, ["C14"]))
    return out


# ---------------------------------------------------------------- more C03/C04 families
def request_reply(nw=2, clients=2):
    # a server answers `clients` requests [reply-to pid, x] with x+... (here: echoes a fixed tuple); each client
    # sends its own pid, waits for the reply, returns it
    server = []
    for i in range(clients):
        server += [select(1, recv(("req",))), let(2, fld(1, 0)), send(2, fld(1, 1))]
    server.append(ret(OKE))
    scripts = [None, server]
    main = [spawn(1, 2)]
    for i in range(clients):
        scripts.append([selfpid(2), send(1, t(r(2), c(I(40 + i)))), select(3, recv()), ret(r(3))])
        main.append(spawn(2 + i, 3 + i, r(1)))
    for i in range(clients):
        main.append(select(5 + i, aw(2 + i)))
    main.append(ret(t(*[r(5 + i) for i in range(clients)])))
    scripts[0] = main
    return meta(scenario("request_reply_%d_w%d" % (clients, nw), scripts, nw=nw), True, True, ["C03", "C04"],
                large=clients > 1)


def message_during_spawn(nw=2):
    # messages arrive while the receiver is parked in `spawning` (CHANGELOG: message lost during spawn)
    scripts = [[spawn(1, 2), spawn(2, 4, r(1)), select(3, aw(1)), ret(r(3))],
               [spawn(1, 3), select(2, recv()), spawn(3, 3), select(4, recv()), select(5, aw(1)), ret(t(r(2), r(4), r(5)))],
               [ret(c(I(9)))],
               [send(1, c(I(1))), send(1, c(I(2))), ret(OKE)]]
    return meta(scenario("message_during_spawn_w%d" % nw, scripts, nw=nw, maxpid=5), True, True, ["C03", "C04"], large=True)


def send_to_finished(nw=2):
    # a message sent to a process that has already finished still arrives exactly once (in a dead mailbox)
    scripts = [[spawn(1, 2), select(2, aw(1)), send(1, c(I(5))), send(1, c(I(6))), spawn(3, 3), select(4, aw(3)), ret(r(2))],
               [select(1, recv(), tmo(0)), ret(c(I(1)))],
               [ret(c(I(2)))]]
    return meta(scenario("send_to_finished_w%d" % nw, scripts, nw=nw), True, True, ["C04", "C03"])


def filter_fails(nw=2):
    # a filter whose body hits a domain error: the selecting process fails (its own failure), awaiters see it
    scripts = [[spawn(1, 2), send(1, c(I(1))), select(2, aw(1)), ret(r(2))],
               [select(1, recv(body="fail")), ret(r(1))]]
    return meta(scenario("filter_fails_w%d" % nw, scripts, nw=nw), True, True, ["C15", "C05"])


# ---------------------------------------------------------------- C05: seeded cross product of select shapes
SEL_POOL = [lambda: aw(1), lambda: aw(2), lambda: aw(3), lambda: recv(), lambda: recv(acc=[I(2)]),
            lambda: recv(("tup",)), lambda: recv(("tup",), body="builtin"), lambda: tmo(0), lambda: tmo(2),
            lambda: tmo(1), lambda: tmo_huge(), lambda: recv(acc=[I(1), I(2)]), lambda: recv(("int", "tup")), lambda: recv(("tup",), acc=[T(I(3), I(4))])]
SEL_PRELOADS = [[], [I(1)], [I(2)], [I(1), I(2)], [T(I(3), I(4)), I(2)], [I(1), T(I(3), I(4)), I(2)]]


def select_product(seed, n, nw=2):
    import random
    rnd = random.Random(seed)
    out, seen = [], set()
    while len(out) < n:
        k = rnd.choice([1, 2, 2, 3, 3, 4])
        idx = tuple(rnd.randrange(len(SEL_POOL)) for _ in range(k))
        pre = rnd.randrange(len(SEL_PRELOADS))
        after = rnd.choice([(), (I(2),), (T(I(5), I(6)),)])
        key = (idx, pre, len(after))
        if key in seen:
            continue
        seen.add(key)
        srcs = [SEL_POOL[i]() for i in idx]
        for s_ in srcs:   # a builtin receive source is type-only
            if s_.get("body") == "builtin":
                s_["filt"] = False
        mt = max([s_["d"] for s_ in srcs if s_["k"] == "timeout" and not s_.get("huge")] + [0])
        name = "selx_%s_p%d_a%d_w%d" % ("".join(str(i) for i in idx), pre, len(after), nw)
        sc = select_case(srcs, SEL_PRELOADS[pre], extra_after=list(after), nw=nw, name=name, maxtick=mt)
        # the first eight of a sample are also model-checked exhaustively in the quick tier; the rest only there
        # in the thorough tier (all of them run on the real code, are monitored and validated)
        sc["large"] = len(out) >= 8
        sc["sampled"] = True
        out.append(sc)
    return out


def abandoned_await(nw=2):
    # a select gives up on T (timeout) while T's worker still has the process on file as an awaiter; a second
    # select then awaits U (another worker) with a timeout; T finishes in between.  The stale report about T
    # may be merged into the answer to the second await: the process must still start its timer.
    scripts = [[spawn(1, 2), spawn(2, 3), select(3, aw(1), tmo(1)), send(1, c(I(1))), select(4, aw(2), tmo(2)),
                send(2, c(I(2))), select(5, aw(2)), ret(t(r(3), r(4), r(5)))],
               [select(1, recv()), ret(c(I(11)))],
               [select(1, recv()), ret(c(I(22)))]]
    return meta(scenario("abandoned_await_w%d" % nw, scripts, nw=nw, maxtick=3), False, True, ["C04", "C03", "C05"], large=True)


def abandoned_await_msg(nw=2):
    # same, but the second select is saved by an already queued message instead of a timeout
    scripts = [[spawn(1, 2), spawn(2, 3), selfpid(6), spawn(7, 4, r(6)), select(8, aw(7)),
                select(3, aw(1), tmo(1)), send(1, c(I(1))), select(4, aw(2), recv()),
                send(2, c(I(2))), select(5, aw(2)), ret(t(r(3), r(4), r(5)))],
               [select(1, recv()), ret(c(I(11)))],
               [select(1, recv()), ret(c(I(22)))],
               [send(1, c(I(7))), ret(OKE)]]
    return meta(scenario("abandoned_await_msg_w%d" % nw, scripts, nw=nw, maxtick=1), False, True, ["C04", "C05"], large=True)


# ---------------------------------------------------------------- REPL sessions (several lines, one persistent process)
def session_cases(nw=2):
    """Scripted sessions: line k runs script lines[k] in the persistent process 0 (registers = the session's
    variables, the mailbox and the pid survive); the host may submit a line as soon as the previous result is
    in, while the processes spawned by earlier lines are still running."""
    out = []
    # a worker spawned by line 1 is used by line 2
    s = scenario("session_worker_w%d" % nw,
                 [[spawn(1, 3), ret(OKE)],
                  [send(1, c(I(7))), select(2, aw(1)), ret(r(2))],
                  [select(1, recv()), ret(t(r(1), r(1)))]], nw=nw, lines=[1, 2])
    out.append(meta(s, True, True, ["C03", "C04"]))
    # a process spawned by line 1 posts to the session's process after line 1 has returned; line 2 receives it
    s = scenario("session_late_message_w%d" % nw,
                 [[select(4, recv(), tmo(0)), selfpid(1), spawn(2, 3, r(1)), ret(OKE)],
                  [select(3, recv()), select(5, aw(2)), ret(t(r(3), r(5)))],
                  [select(2, tmo(1)), send(1, c(I(5))), ret(c(I(6)))]], nw=nw, lines=[1, 2], maxtick=1)
    out.append(meta(s, True, True, ["C04", "C05", "C03"]))
    # line 1 gives up on a process (timeout), line 2 lets it finish and awaits it again - twice; binary result
    s = scenario("session_reawait_w%d" % nw,
                 [[spawn(1, 3), select(2, aw(1), tmo(0)), ret(r(2))],
                  [send(1, c(I(1))), select(3, aw(1)), select(4, aw(1)), ret(t(r(3), r(4)))],
                  [select(1, recv()), ret(hb(170, 187))]], nw=nw, lines=[1, 2])
    out.append(meta(s, True, True, ["C05", "C06", "C03"]))
    # three lines: messages sent by line 1 and line 2 to one receiver keep their order; line 3 collects
    s = scenario("session_fifo_w%d" % nw,
                 [[spawn(1, 4), send(1, c(I(11))), ret(OKE)],
                  [send(1, c(I(12))), send(1, c(I(13))), ret(OKE)],
                  [select(2, aw(1)), ret(r(2))],
                  [select(1, recv()), select(2, recv()), select(3, recv()), ret(t(r(1), r(2), r(3)))]],
                 nw=nw, lines=[1, 2, 3])
    out.append(meta(s, True, True, ["C04", "C03"]))
    return out


def reawait(nw=2, binary=True):
    # a select gives up on T (timeout) and the SAME process awaits T again before T has finished: T's worker
    # has the awaiter on file twice and reports the result once per registration; both reports can reach the
    # awaiter's worker in one command batch (seeded change C06-2: keeping the first stored report dropped the
    # second copy after retaining it, so its heap slot was never reclaimed)
    res = hb(170, 187) if binary else c(I(11))
    scripts = [[spawn(1, 2), select(2, aw(1), tmo(0)), send(1, c(I(1))), select(3, aw(1)), select(4, aw(1)),
                ret(t(r(3), r(4)))],
               [select(1, recv()), ret(t(res, res)) if binary else ret(res)]]
    return meta(scenario("reawait_%s_w%d" % ("bin" if binary else "int", nw), scripts, nw=nw, maxtick=1), True, True,
                ["C06", "C05"] if binary else ["C05", "C04"])


def bin_final_send(nw=2):
    # the LAST step of the entry process sends a freshly built binary: the process completes in the very
    # slice that returns the Deliver action (seeded change C06-1: reclaiming at completion empties the slot
    # before the worker has copied the in-flight message)
    scripts = [[spawn(1, 2), spawn(2, 3, r(1)), retsend(1, hb(170, 187))],
               [select(1, recv(("bin",))), ret(t(r(1), r(1)))],
               [select(2, aw(1)), ret(r(2))]]
    return meta(scenario("bin_final_send_w%d" % nw, scripts, nw=nw), True, True, ["C06"])


def bin_final_send_tuple(nw=2):
    # same with the binary nested in a tuple and a second binary that stays referenced
    scripts = [[let(3, hb(1, 2, 3)), spawn(1, 2), spawn(2, 3, r(1), r(3)), retsend(1, t(hb(9, 8), hb(7)))],
               [select(1, recv(("btup",))), ret(r(1))],
               [select(3, aw(1)), ret(t(r(3), r(2)))]]
    return meta(scenario("bin_final_send_tuple_w%d" % nw, scripts, nw=nw), True, True, ["C06"])


# ---------------------------------------------------------------- seeded random scenarios
def random_scenario(seed, nw=2):
    """A random but well-typed system: 2-4 spawned processes, each a short straight-line script of receives
    (type-only / filter, with optional timeout and await sources), sends to processes it captured, heap
    binaries, and a result built from what it received.  Message values are pairwise distinct.  Nothing is
    promised about termination or confluence: the state-based and per-step rules judge these runs."""
    import random
    rnd = random.Random(seed)
    n = rnd.randint(2, 4)
    counter = [0]

    def fresh(kind):
        counter[0] += 1
        if kind == "int":
            return c(I(100 + counter[0]))
        if kind == "bin":
            return hb(counter[0], 255 - counter[0])
        return c(T(I(counter[0]), I(200 + counter[0])))

    kinds = []          # receive kinds of script i (index 0 = first spawned)
    for i in range(n):
        kinds.append(rnd.sample(["int", "bin", "tup"], rnd.choice([0, 1, 1, 2])))
    scripts = [None]
    leaves = []         # scripts of grandchildren (appended after the children)
    actual = {i: set() for i in range(n)}    # kinds script i really receives (its inferred receive type)
    sent_to = {i: [] for i in range(n)}      # closed expressions sent to script i (for filter accept lists)
    # the entry process spawns script i with the pids of all earlier ones as captures: reg j+1 = pid of script j
    plans = []
    for i in range(n):
        ops, nreg = [], i + 1                 # regs 1..i hold earlier pids
        got = []
        for _ in range(rnd.randint(1, 3)):
            choice = rnd.random()
            targets = [j for j in range(i) if actual[j]]
            if choice < 0.35 and targets and nreg < 8:
                j = rnd.choice(targets)
                m = fresh(rnd.choice(sorted(actual[j])))
                sent_to[j].append(m)
                ops.append(send(j + 1, m))
            elif choice < 0.8 and kinds[i] and nreg < 8:
                srcs = []
                if i > 0 and rnd.random() < 0.3:
                    srcs.append(aw(rnd.randint(1, i)))
                tys = tuple(rnd.sample(kinds[i], rnd.randint(1, len(kinds[i]))))
                actual[i].update(tys)
                srcs.append(("recv", tys))
                if rnd.random() < 0.4:
                    srcs.append(tmo(rnd.choice([0, 1, 2])))
                rnd.shuffle(srcs)
                nreg += 1
                ops.append(("select", nreg, srcs))
                got.append(nreg)
            elif nreg < 8:
                nreg += 1
                ops.append(let(nreg, fresh(rnd.choice(["int", "bin"]))))
                got.append(nreg)
        if rnd.random() < 0.3 and nreg < 7:
            # a grandchild: spawned by this process (placed by the environment like any other), awaited at once
            # or after the rest of the script; it returns a value, a binary, or fails
            leaves.append([fail()] if rnd.random() < 0.15 else [ret(fresh(rnd.choice(["int", "bin", "tup"])))])
            nreg += 1
            sp = ("spawn_leaf", nreg, len(leaves) - 1)
            nreg += 1
            aw_op = select(nreg, aw(nreg - 1))
            got.append(nreg)
            pos = rnd.randint(0, len(ops))
            ops.insert(pos, sp)
            ops.insert(rnd.randint(pos + 1, len(ops)), aw_op)
        if rnd.random() < 0.12:
            ops.append(fail())                 # the process ends in a runtime error (C15: only its awaiters notice)
        else:
            ops.append(ret(t(*[r(g) for g in got]) if got else OKE))
        plans.append(ops)
    # the entry process: spawn everything, send some messages, await some, return
    main = []
    for i in range(n):
        main.append(spawn(i + 1, i + 2, *[r(j + 1) for j in range(i)]))
    for _ in range(rnd.randint(0, 3)):
        targets = [j for j in range(n) if actual[j]]
        if targets:
            j = rnd.choice(targets)
            m = fresh(rnd.choice(sorted(actual[j])))
            sent_to[j].append(m)
            main.append(send(j + 1, m))
    rnd.shuffle(main[n:])
    # awaits, possibly of the same process more than once (a select that gave up on a timeout, then a re-await)
    awaited = [rnd.randrange(n) for _ in range(rnd.randint(1, n + 1))]
    reg = n
    outs = []
    for j in awaited:
        if reg >= 8:
            break
        reg += 1
        srcs = [aw(j + 1)] + ([tmo(rnd.choice([0, 2, 3]))] if rnd.random() < 0.5 else [])
        main.append(select(reg, *srcs))
        outs.append(reg)
    main.append(ret(t(*[r(x) for x in outs])))
    scripts[0] = main
    # resolve receive sources now that we know what is sent to whom
    def value_of(e):
        return e["v"] if e["e"] == "c" else {"k": "bin", "b": e["b"]}
    for i, ops in enumerate(plans):
        out = []
        for op in ops:
            if isinstance(op, tuple) and op[0] == "select":
                srcs = []
                for s_ in op[2]:
                    if isinstance(s_, tuple):
                        cands = [value_of(m) for m in sent_to[i] if value_of(m)["k"] in
                                 [{"int": "int", "bin": "bin", "tup": "tup"}[t_] for t_ in s_[1]]]
                        if cands and rnd.random() < 0.4:
                            srcs.append(recv(s_[1], acc=rnd.sample(cands, rnd.randint(1, len(cands)))))
                        elif tuple(s_[1]) == ("tup",) and rnd.random() < 0.5:
                            srcs.append(recv(("tup",), body="builtin"))     # a builtin as receive source
                        else:
                            srcs.append(recv(s_[1]))
                    else:
                        srcs.append(s_)
                out.append(select(op[1], *srcs))
            elif isinstance(op, tuple) and op[0] == "spawn_leaf":
                out.append(spawn(op[1], n + 2 + op[2]))
            else:
                out.append(op)
        scripts.append(out)
    scripts += leaves
    maxtick = 3 if any(s_["k"] == "timeout" for ops in scripts for op in ops if op["op"] == "select" for s_ in op["srcs"]) else 0
    sc = scenario("rand_%d_w%d" % (seed, nw), scripts, nw=nw, maxtick=maxtick, maxpid=n + 1 + len(leaves))
    return meta(sc, False, False, ["C04", "C05", "C06", "C15"], large=True, random=True)


def random_resource_scenario(seed, nw=2):
    """A random resource system (C14): 2-3 processes spawned by the entry process (each captures the pids of the
    earlier ones), each a short script over open / use / close / send a handle to an earlier process / receive a
    handle; a process may use a handle it has given away (refused, it fails), forward a received handle, leave
    one in a mailbox, end normally or in an error.  The entry process awaits EVERY process (an un-awaited owner is
    the pinned finding res_owner_unawaited).  Nothing is promised about termination: the per-step and
    state-based ownership rules judge these runs."""
    import random
    rnd = random.Random(seed * 31 + 7)
    n = rnd.randint(2, 3)
    receives = [rnd.random() < 0.6 for _ in range(n)]          # does child i receive handles?
    plans = []
    for i in range(n):
        ops, nreg = [], i                       # regs 1..i hold earlier pids
        held, given = [], []                    # handle registers it owns / has given away
        for _ in range(rnd.randint(2, 5)):
            if nreg >= 7:
                break
            x = rnd.random()
            targets = [j for j in range(i) if receives[j]]
            if x < 0.3:
                nreg += 1
                ops.append(ropen(nreg))
                held.append(nreg)
            elif x < 0.5 and held:
                nreg += 1
                ops.append(ruse(nreg, rnd.choice(held)))
            elif x < 0.65 and held and targets:
                h = held.pop(rnd.randrange(len(held)))
                ops.append(send(rnd.choice(targets) + 1, r(h)))
                given.append(h)
            elif x < 0.75 and held:
                h = held.pop(rnd.randrange(len(held)))
                ops.append(rclose(h))
            elif x < 0.9 and receives[i]:
                nreg += 1
                srcs = [recv(("res",))] + ([tmo(rnd.choice([1, 2]))] if rnd.random() < 0.5 else [])
                ops.append(select(nreg, *srcs))
                if len(srcs) == 1:
                    held.append(nreg)           # (after a timeout the register may hold nil: not used as a handle)
            elif given and rnd.random() < 0.5:
                nreg += 1
                ops.append(ruse(nreg, rnd.choice(given)))      # no longer the owner: refused, the process fails
        ops.append(fail() if rnd.random() < 0.1 else ret(OKE))
        plans.append(ops)
    main = [spawn(i + 1, i + 2, *[r(j + 1) for j in range(i)]) for i in range(n)]
    reg = n
    for j in rnd.sample(range(n), n):
        reg += 1
        main.append(select(reg, aw(j + 1)))
    main.append(ret(OKE))
    mt = 2 if any(s_["k"] == "timeout" for ops in plans for op in ops if op["op"] == "select" for s_ in op["srcs"]) else 0
    sc = scenario("rres_%d_w%d" % (seed, nw), [main] + plans, nw=nw, maxtick=mt, maxpid=n + 1, io=True)
    if seed % 3 == 0:
        sc["deferred_io"] = True
        sc["iomodes"] = ["later"]
    return meta(sc, False, False, ["C14"], large=True, random=True)


def fail_multi_worker_select(nw=2):
    # one select over processes hosted by different workers: one of them fails (its worker answers the await
    # query with "not finished" and reports the failure right after), the other never finishes
    # (seeded change C15-1: the first report per pid won, so the failure was dropped and the awaiter hung)
    scripts = [[spawn(1, 2), spawn(2, 3), select(3, aw(2), aw(1)), ret(r(3))],
               [select(1, tmo(1)), fail()],
               [select(1, recv(("bin",))), ret(OKE)]]
    return meta(scenario("fail_multi_worker_select_w%d" % nw, scripts, nw=nw, maxtick=1), False, False, ["C15", "C05"])


def fail_already_failed_multi(nw=2):
    # the failing process is already dead when it is awaited together with a live one
    scripts = [[spawn(1, 2), spawn(2, 3), spawn(3, 4), select(4, aw(3)), select(5, aw(2), aw(1)), ret(r(5))],
               [fail()],
               [select(1, recv(("bin",))), ret(OKE)],
               [select(1, tmo(2)), ret(c(I(1)))]]
    return meta(scenario("fail_already_failed_multi_w%d" % nw, scripts, nw=nw, maxtick=2), False, False, ["C15", "C05"])


def await_window(nw=2):
    # one select awaits processes on different workers; one of them finishes AFTER its worker answered the query
    # with "not finished" and BEFORE the other worker's answer has been handled (seeded change C04-3: the
    # environment kept the first report per process while the initial await was pending, so the completion was
    # dropped and the awaiter parked for ever); the other target never finishes
    scripts = [[spawn(1, 2), spawn(2, 3), spawn(3, 3), send(1, c(I(7))), select(4, aw(1), aw(2), aw(3)), ret(r(4))],
               [select(1, recv()), ret(r(1))],
               [select(1, recv(("bin",))), ret(OKE)]]
    return meta(scenario("await_window_w%d" % nw, scripts, nw=nw, maxpid=4), True, False, ["C04", "C05", "C03"], large=True)


def fail_during_filter_effect(nw=2, deferred=True, failing=False):
    # a select lists an awaited process and a receive source whose FILTER calls an effect builtin; the awaited
    # process fails while the effect is in flight, so the awaiter is failed while parked in `effecting` inside
    # the filter, and the completion arrives for a process without frames (seeded change C15-3: the completion
    # handler returned FrameUnderflow, which ends the worker's loop).  With `failing` the effect itself fails (a
    # path that does not exist): whichever failure reaches the process first is the one it keeps (fix 34b580c).
    scripts = [[spawn(1, 2), spawn(2, 3, r(1)), send(2, c(I(5))), spawn(3, 4), select(4, aw(3)), select(5, aw(2), tmo(3)),
                ret(r(4))],
               [select(1, tmo(1)), fail()],
               [select(2, aw(1), recv(("int",), body="effect_fail" if failing else "effect")), ret(r(2))],
               [select(1, tmo(2)), ret(c(I(7)))]]
    s = scenario("fail_during_filter_effect%s%s_w%d" % ("_failing" if failing else "", "_deferred" if deferred else "", nw), scripts, nw=nw, maxtick=4,
                 io=True, maxpid=4)
    if deferred:
        s["deferred_io"] = True
        s["iomodes"] = ["later"]
    return meta(s, False, False, ["C15"], large=True)


def fail_during_filter_read(nw=2, deferred=True):
    # as fail_during_filter_effect, but the filter READS from a resource the process opened: the successful
    # completion carries a HEAP BINARY, which arrives for a process that an awaited process's failure has already
    # finished (seeded change C06-5: the completion was dropped after its value had been retained - a slot that is
    # counted but reached by nothing).  Whatever the order, counts and reachability must agree at every boundary.
    scripts = [[spawn(1, 2), spawn(2, 3, r(1)), send(2, c(I(5))), spawn(3, 4), select(4, aw(3)), select(5, aw(2), tmo(3)),
                ret(r(4))],
               [select(1, tmo(1)), fail()],
               [ropen(2), select(3, aw(1), recv(("int",), body="effect_read", reg=2)), ret(r(3))],
               [select(1, tmo(2)), ret(c(I(7)))]]
    s = scenario("fail_during_filter_read%s_w%d" % ("_deferred" if deferred else "", nw), scripts, nw=nw, maxtick=4,
                 io=True, maxpid=4)
    if deferred:
        s["deferred_io"] = True
        s["iomodes"] = ["later"]
    return meta(s, False, False, ["C06", "C15"], large=True)


def shared_failing_target(nw=2):
    # several processes (on different workers) await ONE target that then fails: every one of them must fail
    # (seeded change C15-2: only the first awaiter of a pending target was registered, the others hung)
    scripts = [[spawn(1, 2), spawn(2, 3, r(1)), spawn(3, 3, r(1)), spawn(4, 3, r(1)), send(1, c(I(1))),
                select(5, aw(2)), ret(r(5))],
               [select(1, recv()), fail()],
               [select(2, aw(1)), ret(r(2))]]
    return meta(scenario("shared_failing_target_w%d" % nw, scripts, nw=nw, maxpid=5), False, True, ["C15", "C03"], large=True)


def shared_target(nw=2, bin_result=False):
    # two (three) processes await the SAME target while it is still blocked; the entry process awaits them all
    # (seeded change C03-1: the target's worker registered only the first awaiter of a watched target)
    res = hb(4, 2) if bin_result else c(I(42))
    scripts = [[spawn(1, 2), spawn(2, 3, r(1)), spawn(3, 3, r(1)), spawn(4, 3, r(1)), send(1, c(I(1))),
                select(5, aw(2)), select(6, aw(3)), select(7, aw(4)), select(8, aw(1)), ret(t(r(5), r(6), r(7), r(8)))],
               [select(1, recv()), ret(res)],
               [select(2, aw(1)), ret(t(c(I(0)), r(2)))]]
    return meta(scenario("shared_target%s_w%d" % ("_bin" if bin_result else "", nw), scripts, nw=nw, maxpid=5),
                True, True, ["C03", "C04", "C06"] if bin_result else ["C03", "C04"], large=True)


def burst(n=40, nw=2):
    # a burst of n messages to one receiver: when the receiver's worker falls behind, its command queue holds
    # far more commands than any other family produces (seeded change C04-2: a per-step bound on handled commands
    # dropped the command after the bound).  Too large for exhaustive model checking: real code + monitor only.
    scripts = [[spawn(1, 2), spawn(2, 3, r(1)), select(3, aw(1)), ret(r(3))],
               [select(1, recv()) for _ in range(n)] + [ret(r(1))],
               [send(1, c(I(1000 + i))) for i in range(n)] + [ret(OKE)]]
    return meta(scenario("burst_%d_w%d" % (n, nw), scripts, nw=nw), True, True, ["C04", "C03"], large=True, no_mc=True)
