"""Seeded, type-directed generator of programs of the sequential core of Quiver (as abstract syntax,
see spec/SeqLang.tla) and an exhaustive tiny-scope enumerator.

The generator tracks a STATIC type for the flowing value and for every variable so that most
programs pass the compiler's type checker (a rejected program is simply skipped by the engine); it
never computes what a program evaluates to - that is the job of the TLA+ specification.

Static types used for direction only:
    INT, BIN, STR, NIL, ANY, ("tup", name, ((label, T), ..)), ("union", (T, ..), alias), ("fn", P, R)
ANY = "statically unknown / a union the generator does not track": such a value is only handed to
universal consumers (bindings, tuple fields, matches, block parameters, the final observation).
"""
import itertools
import random

from seqast import *  # noqa: F401,F403
import seqast as A

INT, BIN, STR, NIL, ANY = ("int",), ("bin",), ("str",), ("nil",), ("any",)


def TT(name, fields=()):
    return ("tup", name, tuple(fields))


OKT = TT("Ok")


def UN(variants, alias=None):
    return ("union", tuple(variants), alias)


def FN(p, r):
    return ("fn", p, r)


def is_tup(T):
    return T[0] == "tup"


def writable(T):
    """can the static type be written down as a Quiver type expression?"""
    k = T[0]
    if k in ("any", "fn"):
        return False
    if k == "tup":
        return all(writable(t) for _, t in T[2])
    if k == "union":
        return bool(T[2]) or all(writable(t) for t in T[1])
    return True


def non_nil(T):
    """statically certain not to be nil"""
    k = T[0]
    if k in ("int", "bin", "str", "fn"):
        return True
    if k == "tup":
        return bool(T[1]) or len(T[2]) > 0
    return False


def ast_type(T):
    k = T[0]
    if k == "int":
        return A.TINT
    if k == "bin":
        return A.TBIN
    if k == "str":
        return A.TSTR
    if k == "nil":
        return A.TNIL
    if k == "tup":
        return A.TTup(T[1], *[((l, ast_type(t)) if l else ast_type(t)) for l, t in T[2]])
    if k == "union":
        if T[2]:
            return A.TAlias(T[2])
        return A.TUnion(*[ast_type(t) for t in T[1]])
    if k == "fn":
        return A.TFn(ast_type(T[1]), ast_type(T[2]))
    raise ValueError(T)


VARS = ["a", "b", "c", "d", "x", "y", "z", "n", "m", "v"]
FNS = ["f", "g", "h", "k"]
TNAMES = ["A", "B", "C", "P"]
LABELS = ["x", "y", "z", "w"]
TAGS = ["Z", "S", "N", "V", "W", "Q"]
WORDS = ["a", "b", "hi", "q", ""]

ALL_FEATURES = ("blocks", "patterns", "tuples", "spreads", "strings", "functions", "closures", "tailcalls",
                "unions", "refs", "known")


class Sc:
    """static scope: variable types, the enclosing function's parameter type and self type"""

    def __init__(self, vars_=None, param=None, selfT=None, infn=False):
        self.vars = dict(vars_ or {})
        self.param = param
        self.selfT = selfT
        self.infn = infn

    def child(self):
        return Sc(self.vars, self.param, self.selfT, self.infn)

    def of(self, pred):
        return [n for n, T in self.vars.items() if pred(T)]


class Gen:
    def __init__(self, rng, size, feats=ALL_FEATURES):
        self.r = rng
        self.budget = size
        self.feats = set(feats)
        self.tags = set()
        self.aliases = []       # (name, T)
        self.fresh = 0
        self.depth_cap = 4

    # -- utilities --------------------------------------------------------
    def on(self, f):
        return f in self.feats

    def low(self):
        return self.budget <= 0

    def spend(self, n=1):
        self.budget -= n

    def pick(self, xs):
        return xs[self.r.randrange(len(xs))]

    def chance(self, p):
        return self.r.random() < p

    def weighted(self, opts):
        """opts: [(weight, fn)] -> fn()"""
        tot = sum(w for w, _ in opts)
        x = self.r.random() * tot
        for w, f in opts:
            x -= w
            if x <= 0:
                return f()
        return opts[-1][1]()

    def small_int(self):
        return self.pick([0, 1, 2, 3, 0, 1, 2, 5, 7, -1])

    def fresh_name(self):
        self.fresh += 1
        return "u%d" % self.fresh

    def var_name(self, sc, shadow_ok=True):
        """a binder name: sometimes deliberately one that is already bound (shadowing)"""
        bound = [n for n in sc.vars if n in VARS and sc.vars[n][0] != "fn"]
        if shadow_ok and bound and self.chance(0.3):
            self.tags.add("shadowing")
            return self.pick(bound)
        free = [n for n in VARS if n not in sc.vars]
        return self.pick(free) if free else self.pick(VARS)

    # -- paths into tuple types -------------------------------------------
    def paths_to(self, T, pred, depth=2):
        """all access paths (as [F/I] lists) inside a tuple type leading to a component satisfying pred"""
        out = []
        if T[0] == "str":
            T = TT("Str", (("", BIN),))
        if T[0] != "tup" or depth == 0:
            return out
        for i, (l, t) in enumerate(T[2]):
            steps = [A.I(i)] + ([A.F(l)] if l else [])
            for s in steps:
                if pred(t):
                    out.append(([s], t))
                for p, tt in self.paths_to(t, pred, depth - 1):
                    out.append(([s] + p, tt))
        return out

    def access_options(self, sc, flow, pred):
        """terms reaching a component satisfying pred from a variable, the flowing value or `$`"""
        opts = []
        for n, T in sc.vars.items():
            for p, t in self.paths_to(T, pred):
                opts.append((A.Var(n, *p), t))
        if flow is not None:
            for p, t in self.paths_to(flow, pred):
                opts.append((A.Dot(*p), t))
                opts.append((A.Ripple(*p), t))
        if sc.param is not None:
            if pred(sc.param):
                opts.append((A.Param(), sc.param))
            for p, t in self.paths_to(sc.param, pred):
                opts.append((A.Param(*p), t))
                if len(p) == 1:
                    opts.append((A.Param(*p, sugar=True), t))
        return opts

    # -- values of a given static type ------------------------------------
    def gen_of(self, sc, flow, T, d):
        """terms evaluating to a value of static type T (exactly), whatever flows in"""
        k = T[0]
        if k == "int":
            return self.gen_int(sc, flow, d)
        if k == "str":
            return self.gen_str(sc, flow, d)
        if k == "bin":
            return self.gen_bin(sc, flow, d)
        if k == "nil":
            self.spend()
            return [A.NIL]
        if k == "any":
            return self.gen_any(sc, flow, d)[0]
        if k == "union":
            self.tags.add("union_value")
            return self.gen_of(sc, flow, self.pick(T[1]), d)
        if k == "fn":
            cands = [n for n, t in sc.vars.items() if t == T]
            if cands:
                self.spend()
                return [A.Ref(self.pick(cands))]
            fn, _ = self.gen_fn(sc, d + 1, P=T[1], R=T[2])
            return [fn]
        if k == "tup":
            cands = [n for n, t in sc.vars.items() if t == T]
            if cands and self.chance(0.3):
                self.spend()
                return [A.Var(self.pick(cands))]
            if flow == T and self.chance(0.3):
                self.spend()
                return [A.Ripple()]
            self.spend()
            fields = []
            for l, t in T[2]:
                fields.append(A.Field(A.Chain(*self.gen_of(sc, flow, t, d + 1)), l))
            return [A.Tup(T[1], *fields)]
        raise ValueError(T)

    def gen_int(self, sc, flow, d):
        self.spend()
        is_int = lambda t: t == INT
        opts = [(3, lambda: [A.Int(self.small_int())])]
        ivars = sc.of(is_int)
        if ivars:
            opts.append((3, lambda: [A.Var(self.pick(ivars))]))
        if flow == INT:
            opts.append((4, lambda: [A.Ripple()]))
        acc = self.access_options(sc, flow, is_int)
        if acc and self.on("tuples"):
            opts.append((3, lambda: [self.pick(acc)[0]]))
        if not self.low() and d < self.depth_cap:
            opts.append((4, lambda: self.gen_arith(sc, flow, d)))
            fns = [n for n, t in sc.vars.items() if t[0] == "fn" and t[2] == INT]
            if fns and self.on("functions"):
                opts.append((4, lambda: self.gen_call(sc, flow, self.pick(fns), d)))
            if self.on("blocks"):
                opts.append((3, lambda: [self.gen_block(sc, flow, INT, d + 1, fallible=False)[0]]))
            opts.append((1, lambda: self.gen_any(sc, flow, d + 1)[0] + [A.Int(self.small_int())]))
        return self.weighted(opts)

    def gen_arith(self, sc, flow, d):
        op = self.pick(["__integer_add__", "__integer_add__", "__integer_subtract__", "__integer_multiply__",
                        "__integer_compare__", "__integer_divide__", "__integer_modulo__"])
        a = self.gen_int(sc, flow, d + 1)
        if op in ("__integer_divide__", "__integer_modulo__") and not self.chance(0.15):
            b = [A.Int(self.pick([1, 2, 3, -2]))]
        else:
            b = self.gen_int(sc, flow, d + 1)
        self.spend(2)
        return [A.Tup("", A.Chain(*a), A.Chain(*b)), A.Builtin(op)]

    def gen_call(self, sc, flow, fname, d):
        """argument-first application of a function variable"""
        P = sc.vars[fname][1]
        self.spend()
        if P == NIL:
            self.tags.add("nilary_call")
            if self.chance(0.4):
                # the argument flows in with a static type that CONTAINS nil while the value is (mostly) not nil:
                # a nilary function is always called with nil, whatever flows (seeded change C02-2: the guard that
                # swaps the flowing value for nil tested contains_nil instead of is_nil)
                self.tags.add("nilary_maybe_nil_arg")
                blk = A.Block(A.Branch([A.Chain(A.Match(A.PInt(0)))], [A.Chain(A.NIL)]), A.Branch([A.Chain(A.Ripple())]))
                return [A.Int(self.pick([0, 5, 5, 7])), blk, A.Var(fname)]
            if self.chance(0.5):
                return [A.Var(fname)]           # ignores whatever flows in
            return self.gen_any(sc, flow, d + 1)[0] + [A.Var(fname)]
        if flow == P and self.chance(0.4):
            return [A.Var(fname)]               # the flowing value is the argument
        return self.gen_of(sc, flow, P, d + 1) + [A.Var(fname)]

    def gen_str(self, sc, flow, d):
        self.spend()
        is_str = lambda t: t == STR
        opts = [(3, lambda: [A.Str(self.pick(WORDS))])]
        svars = sc.of(is_str)
        if svars:
            opts.append((3, lambda: [A.Var(self.pick(svars))]))
        if flow == STR:
            opts.append((3, lambda: [A.Ripple()]))
        acc = self.access_options(sc, flow, is_str)
        if acc:
            opts.append((2, lambda: [self.pick(acc)[0]]))
        if not self.low() and d < self.depth_cap and self.on("strings"):
            def interp():
                segs = []
                for _ in range(self.r.randint(1, 2)):
                    if self.chance(0.6):
                        segs.append(self.pick(["<", "-", "k", " "]))
                    sub = self.gen_str(sc.child(), flow, d + 1)
                    segs.append(A.Expr(A.Branch([A.Chain(*sub)])))
                if self.chance(0.5):
                    segs.append(self.pick([">", ".", "!"]))
                return [A.Str(*segs)]
            opts.append((5, interp))
            if self.on("blocks"):
                opts.append((1, lambda: [self.gen_block(sc, flow, STR, d + 1, fallible=False)[0]]))
        return self.weighted(opts)

    def gen_bin(self, sc, flow, d):
        self.spend()
        is_bin = lambda t: t == BIN
        opts = [(3, lambda: [A.Bin(self.pick([[], [1], [0, 255], [97]]))])]
        bvars = sc.of(is_bin)
        if bvars:
            opts.append((2, lambda: [A.Var(self.pick(bvars))]))
        if flow == BIN:
            opts.append((2, lambda: [A.Ripple()]))
        acc = self.access_options(sc, flow, is_bin)
        if acc:
            opts.append((3, lambda: [self.pick(acc)[0]]))
        if not self.low() and d < self.depth_cap:
            def cat():
                self.spend(2)
                return [A.Tup("", A.Chain(*self.gen_bin(sc, flow, d + 1)), A.Chain(*self.gen_bin(sc, flow, d + 1))),
                        A.Builtin("__binary_concat__")]
            opts.append((2, cat))
        return self.weighted(opts)

    # -- tuples and spreads -------------------------------------------------
    def field_type(self, d):
        return self.weighted([(6, lambda: INT), (2, lambda: STR), (1, lambda: BIN), (1, lambda: NIL),
                              (2, lambda: ANY)])

    def gen_tuple(self, sc, flow, d):
        """a tuple literal (possibly with spreads); returns (terms, T)"""
        self.spend()
        tupvars = [n for n, t in sc.vars.items() if is_tup(t) and t != OKT]
        can_flow = flow is not None and is_tup(flow)
        if self.on("spreads") and (tupvars or can_flow) and self.chance(0.45):
            return self.gen_spread(sc, flow, d, tupvars, can_flow)
        ivars = [v for v in sc.of(lambda t: t == INT) if v in VARS]
        if ivars and self.on("patterns") and self.chance(0.12):
            # `[x, k =x, x]`: a field rebinding a variable that its neighbours read - left to right
            v = self.pick(ivars)
            k = self.small_int()
            self.spend(5)
            self.tags.add("field_binding_order")
            fs = [A.Field(A.Chain(A.Var(v))), A.Field(A.Chain(A.Int(k), A.Match(A.PId(v)))), A.Field(A.Chain(A.Var(v)))]
            if self.chance(0.5):
                fs = fs[1:]
            return [A.Tup("", *fs)], TT("", [("", ANY)] * len(fs))
        name = self.pick(["", "", ""] + TNAMES)
        n = self.r.randint(1, 3) if not self.low() else 1
        labelled = self.chance(0.5)
        labels = self.r.sample(LABELS, n) if labelled else [""] * n
        if labelled and n > 1 and self.chance(0.2):
            labels[self.r.randrange(n)] = ""          # mixed
        fields, ftypes = [], []
        for l in labels:
            terms, t = self.gen_field(sc, flow, d + 1)
            fields.append(A.Field(A.Chain(*terms), l))
            ftypes.append((l, t))
        return [A.Tup(name, *fields)], TT(name, ftypes)

    def gen_field(self, sc, flow, d):
        """one field chain: receives the flowing value"""
        if flow is not None and self.chance(0.3):
            self.spend()
            self.tags.add("flow_into_field")
            return [A.Ripple()], flow
        if flow == INT and self.chance(0.3):
            self.tags.add("flow_into_field")
            return self.gen_arith(sc, flow, d), INT
        t = self.field_type(d)
        if t == ANY:
            return self.gen_any(sc, flow, d)
        return self.gen_of(sc, flow, t, d), t

    @staticmethod
    def merge_fields(acc, fields):
        acc = list(acc)
        for l, t in fields:
            pos = [i for i, (l2, _) in enumerate(acc) if l and l2 == l]
            if pos:
                acc[pos[0]] = (l, t)
            else:
                acc.append((l, t))
        return acc

    def gen_spread(self, sc, flow, d, tupvars, can_flow):
        self.tags.add("spread")
        form = self.pick(["var_inherit", "flow_inherit", "anon", "named", "two", "rename"])
        if form in ("var_inherit",) and not tupvars:
            form = "flow_inherit"
        if form in ("flow_inherit", "rename") and not can_flow:
            form = "var_inherit" if tupvars else "anon"
        if form == "two" and len(tupvars) + (1 if can_flow else 0) < 2:
            form = "anon"
        extra, etypes = [], []
        used = set()

        def extras(k):
            for _ in range(k):
                l = self.pick(LABELS + [""])
                if l and l in used:
                    continue
                used.add(l)
                terms, t = self.gen_field(sc, flow, d + 1)
                extra.append(A.Field(A.Chain(*terms), l))
                etypes.append((l, t))
        if form == "var_inherit":
            v = self.pick(tupvars)
            extras(self.r.randint(0, 2))
            T = sc.vars[v]
            return [A.Inherit(v, *extra)], TT(T[1], self.merge_fields(T[2], etypes))
        if form == "flow_inherit":
            extras(self.r.randint(0, 2))
            return [A.Inherit("", *extra)], TT(flow[1], self.merge_fields(flow[2], etypes))
        if form == "rename":
            nm = self.pick(TNAMES)
            return [A.Tup(nm, A.Spread(""))], TT(nm, flow[2])
        srcs = list(tupvars) + ([""] if can_flow else [])
        # an explicit field whose label the spread's source also carries, written BEFORE or after the spread
        # (seeded change C02-1 / C01-1: the value source of a named field stopped at the explicit field, so a
        # spread further right no longer overrode it while the type still said it did)
        labelled = [(x, [l for l, _ in (flow if x == "" else sc.vars[x])[2] if l]) for x in srcs]
        labelled = [(x, ls) for x, ls in labelled if ls]
        if labelled and self.chance(0.35):
            self.tags.add("spread_label_collision")
            x, ls = self.pick(labelled)
            l = self.pick(ls)
            used.add(l)
            terms, t = self.gen_field(sc, flow, d + 1)
            extra.append(A.Field(A.Chain(*terms), l))
            etypes.append((l, t))
            extras(self.r.randint(0, 1))
            parts = [("f", i) for i in range(len(extra))] + [("s", x)]
            if self.chance(0.4):
                self.r.shuffle(parts)
            name = self.pick(TNAMES) if self.chance(0.3) else ""
            fields, acc = [], []
            for kind, y in parts:
                if kind == "s":
                    fields.append(A.Spread(y))
                    T = flow if y == "" else sc.vars[y]
                    acc = self.merge_fields(acc, T[2])
                else:
                    fields.append(extra[y])
                    acc = self.merge_fields(acc, [etypes[y]])
            return [A.Tup(name, *fields)], TT(name, acc)
        if form == "two":
            s1, s2 = self.r.sample(srcs, 2)
            extras(self.r.randint(0, 1))
            parts = [("s", s1), ("s", s2)] + [("f", i) for i in range(len(extra))]
        else:
            extras(self.r.randint(1, 2))
            parts = [("s", self.pick(srcs))] + [("f", i) for i in range(len(extra))]
        self.r.shuffle(parts)
        name = self.pick(TNAMES) if form == "named" else ""
        fields, acc = [], []
        for kind, x in parts:
            if kind == "s":
                fields.append(A.Spread(x))
                T = flow if x == "" else sc.vars[x]
                acc = self.merge_fields(acc, T[2])
            else:
                fields.append(extra[x])
                acc = self.merge_fields(acc, [etypes[x]])
        # an explicit label may not be written twice in one literal, but may collide with a spread
        return [A.Tup(name, *fields)], TT(name, acc)

    # -- anything -------------------------------------------------------------
    def gen_any(self, sc, flow, d):
        """terms of whatever type, returns (terms, T)"""
        if self.low() or d >= self.depth_cap:
            return self.weighted([
                (3, lambda: (self.gen_int(sc, flow, d), INT)),
                (1, lambda: (self.leaf([A.Tup(self.pick(TAGS))]), ANY)),
                (1, lambda: (self.leaf([A.NIL]), NIL)),
                (1, lambda: (self.gen_str(sc, flow, d), STR)),
            ])
        opts = [
            (4, lambda: (self.gen_int(sc, flow, d), INT)),
            (2, lambda: (self.gen_str(sc, flow, d), STR)),
            (1, lambda: (self.gen_bin(sc, flow, d), BIN)),
            (1, lambda: (self.leaf([A.NIL]), NIL)),
            (1, lambda: (self.leaf([A.Tup(self.pick(TAGS))]), ANY)),
        ]
        if self.on("tuples"):
            opts.append((5, lambda: self.gen_tuple(sc, flow, d)))
        if self.on("blocks"):
            def blk():
                b, t = self.gen_block(sc, flow, ANY, d + 1, fallible=True)
                return [b], t
            opts.append((5, blk))
        vs = [n for n, t in sc.vars.items() if t[0] != "fn"]
        if vs:
            def var():
                n = self.pick(vs)
                return self.leaf([A.Var(n)]), sc.vars[n]
            opts.append((3, var))
        fns = [n for n, t in sc.vars.items() if t[0] == "fn"]
        if fns and self.on("functions"):
            def call():
                n = self.pick(fns)
                return self.gen_call(sc, flow, n, d), sc.vars[n][2]
            opts.append((5, call))
            if self.on("refs"):
                opts.append((1, lambda: (self.leaf([A.Ref(self.pick(fns))]), sc.vars[fns[0]] if len(fns) == 1 else ANY)))
        if self.on("patterns"):
            def guard():
                # a value followed by an in-chain match: evaluates to Ok or nil (a guard)
                terms, t = self.gen_any(sc, flow, d + 1)
                p, _, _ = self.gen_pattern(sc, t, d + 1, mode="fresh")
                self.spend()
                self.tags.add("midchain_match")
                out = terms + [A.Match(p)]
                if self.chance(0.5):
                    # nil flows on through the chain (chains are infallible pipes)
                    self.tags.add("failing_midchain_match_then_terms")
                    more, t2 = self.gen_any(sc, ANY, d + 1)
                    return out + more, t2
                return out, ANY
            opts.append((3, guard))
        if flow is not None:
            opts.append((2, lambda: (self.leaf([A.Ripple()]), flow)))
        return self.weighted(opts)

    def leaf(self, terms):
        self.spend()
        return terms

    # -- patterns ----------------------------------------------------------------
    def gen_pattern(self, sc, T, d, mode="scope", binds=None):
        """a pattern for a value of static type T -> (pattern, binds {name: T}, irrefutable)

        mode "scope": binders take (possibly shadowing) variable names and will be added to the scope;
        mode "fresh": binders are fresh names that nothing else refers to (the match may fail mid-chain,
        after which the names it would have bound are undefined);
        mode "none": no binders at all."""
        binds = {} if binds is None else binds
        self.spend()

        def binder(t):
            if mode == "none":
                return A.PWILD, True
            same = [n for n, bt in binds.items() if bt == t and t in (INT, STR, BIN)]
            if same and self.chance(0.35):
                self.tags.add("repeated_binder")
                return A.PId(self.pick(same)), False
            if mode == "fresh":
                n = self.fresh_name()
            else:
                n = self.var_name(sc)
                if n in binds:
                    n = self.fresh_name()
            binds[n] = t
            return A.PId(n), True

        def pin(t):
            cands = [n for n, vt in sc.vars.items() if vt == t and n not in binds and t[0] != "fn"]
            if cands:
                self.tags.add("pin")
                return A.PPin(self.pick(cands)), False
            return None

        k = T[0]
        if self.low() or d >= self.depth_cap + 1:
            p, irr = self.weighted([(2, lambda: binder(T)), (1, lambda: (A.PWILD, True))])
            return p, binds, irr
        simple = [(3, lambda: binder(T)), (1, lambda: (A.PWILD, True))]
        if k == "int":
            opts = simple + [(4, lambda: (A.PInt(self.small_int()), False)),
                             (1, lambda: (A.PType(A.TINT), True)),
                             (1, lambda: self.ascribe(T, binds, mode, sc)),
                             (1, lambda: (A.POr(A.PInt(self.small_int()), A.PInt(self.small_int())), False))]
            p = pin(T)
            if p:
                opts.append((5, lambda: p))
        elif k == "str":
            opts = simple + [(3, lambda: (A.PStr(self.pick(WORDS)), False)),
                             (1, lambda: (A.PTup("Str", binder(BIN)[0]), True))]
            p = pin(T)
            if p:
                opts.append((2, lambda: p))
        elif k == "bin":
            opts = simple + [(2, lambda: (A.PBin(self.pick([[], [1], [97]])), False)),
                             (1, lambda: (A.PType(A.TBIN), True))]
        elif k == "nil":
            opts = simple + [(3, lambda: (A.PNIL, True))]
        elif k == "tup":
            opts = simple + [(6, lambda: self.tuple_pattern(sc, T, d, mode, binds))]
            if any(l for l, _ in T[2]):
                opts.append((4, lambda: self.partial_pattern(sc, T, d, mode, binds)))
                if mode != "none":
                    opts.append((2, lambda: self.star_pattern(sc, T, mode, binds)))
            if writable(T):
                opts.append((1, lambda: (A.PType(ast_type(T)), True)))
                opts.append((1, lambda: self.ascribe(T, binds, mode, sc)))
            p = pin(T)
            if p:
                opts.append((1, lambda: p))
            # a pattern of the wrong shape (never matches; the compiler accepts it)
            opts.append((1, lambda: (A.PTup(self.pick(TNAMES), A.PWILD), False)))
        elif k == "union":
            def variant():
                v = self.pick(T[1])
                p, _, _ = self.gen_pattern(sc, v, d, mode, binds)
                return p, False
            opts = simple + [(6, variant)]
            if T[2]:
                opts.append((1, lambda: (A.PType(A.TAlias(T[2])), True)))
            one_int = [v for v in T[1] if v[0] == "tup" and len(v[2]) == 1 and v[2][0] == ("", INT)]
            if len(one_int) >= 2 and mode != "none":
                def alt_bind():
                    a, b = self.r.sample(one_int, 2)
                    n = self.fresh_name() if mode == "fresh" else self.var_name(sc)
                    if n in binds:
                        n = self.fresh_name()
                    binds[n] = INT
                    self.tags.add("alternation_shared_binder")
                    return A.POr(A.PTup(a[1], A.PId(n)), A.PTup(b[1], A.PId(n))), False
                opts.append((4, alt_bind))
            if len(T[1]) >= 2 and mode == "none":
                def alt():
                    a, b = self.r.sample(list(T[1]), 2)
                    return A.POr(self.gen_pattern(sc, a, d + 1, "none")[0],
                                 self.gen_pattern(sc, b, d + 1, "none")[0]), False
                opts.append((2, alt))
        else:   # ANY, fn
            opts = simple
            if k == "any":
                opts = simple + [(2, lambda: (A.PNIL, False)), (2, lambda: (A.PInt(self.small_int()), False)),
                                 (1, lambda: (A.PType(A.TINT), False)),
                                 (2, lambda: (A.PTup(self.pick(TAGS + TNAMES)), False)),
                                 (1, lambda: (A.PTup("Ok"), False)),
                                 (1, lambda: (A.PPartial(""), False)),
                                 (1, lambda: (A.POr(A.PNIL, A.PTup("Ok")), False)),
                                 (1, lambda: (A.PTup("", A.PWILD, A.PWILD), False))]
        p, irr = self.weighted(opts)
        return p, binds, irr

    def ascribe(self, T, binds, mode, sc):
        if mode == "none":
            return A.PType(ast_type(T)), True
        n = self.fresh_name() if mode == "fresh" else self.var_name(sc)
        if n in binds:
            n = self.fresh_name()
        binds[n] = T
        self.tags.add("ascription")
        return A.PAs(ast_type(T), n), True

    def tuple_pattern(self, sc, T, d, mode, binds):
        fields, irr = [], True
        for l, t in T[2]:
            p, _, i = self.gen_pattern(sc, t, d + 1, mode, binds)
            irr = irr and i
            fields.append((l, p) if l else p)
        name = T[1]
        if self.chance(0.06):
            name = self.pick(TNAMES)        # (probably) the wrong name
            irr = False
        if fields and self.chance(0.05):
            fields = fields[:-1]            # wrong arity
            irr = False
        return A.PTup(name, *fields), irr

    def partial_pattern(self, sc, T, d, mode, binds):
        labelled = [(l, t) for l, t in T[2] if l]
        k = self.r.randint(1, len(labelled))
        chosen = self.r.sample(labelled, k)
        fields, irr = [], True
        for l, t in chosen:
            if mode == "scope" and l not in binds and non_nil(t) and self.chance(0.5):
                binds[l] = t
                fields.append(l)
            else:
                p, _, i = self.gen_pattern(sc, t, d + 1, mode, binds)
                irr = irr and i
                fields.append((l, p))
        name = T[1] if self.chance(0.5) else ""
        self.tags.add("partial")
        return A.PPartial(name, *fields), irr

    def star_pattern(self, sc, T, mode, binds):
        # (fields that may be nil are left to explicit sub-patterns: known finding bound-variable-loses-nil)
        if mode != "scope" or any(l in binds for l, _ in T[2] if l) or \
                any(l and not non_nil(t) for l, t in T[2]):
            return A.PWILD, True
        for l, t in T[2]:
            if l:
                binds[l] = t
        self.tags.add("star")
        return A.PStar(T[1] if self.chance(0.5) else ""), True

    # -- blocks ------------------------------------------------------------------
    def gen_block(self, sc, flow, want, d, fallible):
        """a block term `{ .. }` receiving `flow`; want: a static type every result must have (ANY =
        anything).  fallible=False: the block must not evaluate to nil (last branch infallible, no
        consequence that can be nil).  Returns (term, T)."""
        self.spend()
        self.tags.add("block")
        nb = 1 if self.low() else self.pick([1, 2, 2, 3])
        branches = []
        types = []
        for i in range(nb):
            last = i == nb - 1
            bsc = sc.child()
            if last and not fallible:
                # an infallible closing branch
                if flow is not None and self.chance(0.4) and not self.low():
                    p = A.PId(self.var_name(bsc))
                    bsc.vars[p["name"]] = flow
                    self.spend()
                    cons, t = self.gen_seq(bsc, flow, want, d + 1, fallible=False)
                    branches.append(A.Branch([A.Chain(A.Match(p))], cons))
                else:
                    cond, t = self.gen_seq(bsc, flow, want, d + 1, fallible=False)
                    branches.append(A.Branch(cond))
                types.append(t)
                continue
            cond = self.gen_cond(bsc, flow, d + 1)
            if self.chance(0.75) or want != ANY:
                cons, t = self.gen_seq(bsc, flow, want, d + 1, fallible=fallible and self.chance(0.5))
                if fallible:
                    self.tags.add("fallible_consequence")
                branches.append(A.Branch(cond, cons))
                types.append(t)
            else:
                branches.append(A.Branch(cond))
                types.append(ANY)
        T = types[0] if all(t == types[0] for t in types) and not fallible else ANY
        if want != ANY and not fallible:
            T = want
        return A.Block(*branches), T

    def gen_cond(self, sc, flow, d):
        """a condition sequence for a branch: typically a match on the block parameter"""
        steps = []
        if flow is not None and self.chance(0.8):
            p, binds, _ = self.gen_pattern(sc, flow, d, mode="scope")
            sc.vars.update(binds)
            steps.append(A.Chain(A.Match(p)))
            if self.chance(0.25) and not self.low():
                steps.append(self.gen_guard(sc, OKT, d))
        else:
            steps.append(self.gen_guard(sc, flow, d))
        return steps

    def gen_guard(self, sc, flow, d):
        """a step that is Ok or nil: `value =pattern` with the match as its last term"""
        def cmp_guard():
            a = self.gen_int(sc, flow, d + 1)
            b = self.gen_int(sc, flow, d + 1)
            self.spend(3)
            return A.Chain(A.Tup("", A.Chain(*a), A.Chain(*b)), A.Builtin("__integer_compare__"),
                           A.Match(A.PInt(self.pick([-1, 0, 1]))))

        def val_guard():
            terms, t = self.gen_any(sc, flow, d + 1)
            p, binds, _ = self.gen_pattern(sc, t, d + 1, mode="scope")
            sc.vars.update(binds)
            self.spend()
            return A.Chain(*(terms + [A.Match(p)]))
        return self.weighted([(1, cmp_guard), (2, val_guard)])

    # -- sequences -----------------------------------------------------------------
    def gen_seq(self, sc, flow, want, d, fallible):
        """steps ending in a chain of static type `want` -> (chains, T).  sc is extended in place."""
        steps = []
        n = 0 if (self.low() or d >= self.depth_cap) else self.pick([0, 0, 1, 1, 2, 3])
        cur = flow
        for _ in range(n):
            c, cur = self.gen_step(sc, cur, d, fallible)
            steps.append(c)
        if want == ANY:
            terms, T = self.gen_any(sc, cur, d)
            if fallible and self.chance(0.1):
                terms, T = self.leaf([A.NIL]), NIL
        else:
            terms, T = self.gen_of(sc, cur, want, d), want
        steps.append(A.Chain(*terms))
        if fallible:
            T = ANY if T != want or want == ANY else T
        return steps, T

    def gen_step(self, sc, flow, d, fallible):
        """one non-final step -> (chain, type of its value).  May bind variables."""
        def bind_var():
            terms, t = self.gen_any(sc, flow, d + 1)
            n = self.var_name(sc)
            sc.vars[n] = t
            self.spend()
            if self.chance(0.6):
                return A.Chain(*terms, pat=A.PId(n)), OKT
            return A.Chain(*(terms + [A.Match(A.PId(n))])), OKT

        def destructure():
            terms, t = self.gen_any(sc, flow, d + 1)
            p, binds, irr = self.gen_pattern(sc, t, d + 1, mode="scope")
            if not irr and not fallible:
                p = A.PId(self.var_name(sc))
                binds = {p["name"]: t}
            sc.vars.update(binds)
            self.spend()
            if not irr:
                self.tags.add("refutable_step")
            if self.chance(0.5):
                return A.Chain(*terms, pat=p), OKT
            return A.Chain(*(terms + [A.Match(p)])), OKT

        def dead_block():
            # a block in which no branch matches, bound to a variable and FOLLOWED by further bindings
            n = self.var_name(sc)
            k = self.small_int()
            inner = sc.child()
            branches = []
            for _ in range(self.pick([1, 1, 2])):
                p = self.pick([A.PInt(k + 1), A.PTup("Q", A.PId(self.var_name(inner))), A.PStr("zz"),
                               A.PTup("", A.PId("u0"), A.PWILD)])
                cons, _ = self.gen_seq(inner.child(), INT, ANY, d + 2, fallible=True)
                if self.chance(0.7):
                    branches.append(A.Branch([A.Chain(A.Match(p))], cons))
                else:
                    branches.append(A.Branch([A.Chain(A.Match(p))] + cons))
            self.spend(3)
            self.tags.add("no_branch_matches_then_binding")
            sc.vars[n] = ANY
            return A.Chain(A.Int(k), A.Block(*branches), pat=A.PId(n)), OKT

        def scoped_block():
            # a block with its own bindings (which must not escape) whose value is bound
            n = self.var_name(sc)
            blk, t = self.gen_block(sc, flow, ANY, d + 1, fallible=True)
            pre, _ = (self.gen_any(sc, flow, d + 1) if self.chance(0.5) else ([], None))
            sc.vars[n] = ANY
            self.spend()
            return A.Chain(*(pre + [blk]), pat=A.PId(n)), OKT

        def define_fn():
            fn, T = self.gen_fn(sc, d + 1)
            free = [x for x in FNS if x not in sc.vars]
            n = self.pick(free) if free else self.pick(FNS)
            sc.vars[n] = T
            self.spend()
            return A.Chain(fn, pat=A.PId(n)), OKT

        def plain():
            terms, t = self.gen_any(sc, flow, d + 1)
            return A.Chain(*terms), t

        def bind_tuple():
            terms, t = self.gen_tuple(sc, flow, d + 1)
            n = self.var_name(sc)
            sc.vars[n] = t
            self.spend()
            return A.Chain(*terms, pat=A.PId(n)), OKT

        def repeat_idiom():
            # the same binder twice: the two positions must hold equal values
            k = self.small_int()
            vals = [self.pick([A.Int(k), A.Int(k), A.Int(self.small_int())]) for _ in range(3)]
            ivars = sc.of(lambda t: t == INT)
            if ivars and self.chance(0.5):
                vals[0] = A.Var(self.pick(ivars))
            n = self.var_name(sc, shadow_ok=False)
            shape = self.pick(["pair", "nested", "triple", "pin"])
            self.spend(8)
            self.tags.add("repeated_binder")
            sc.vars[n] = INT
            if shape == "pair":
                return A.Chain(A.Tup("", vals[0], vals[1]), A.Match(A.PTup("", A.PId(n), A.PId(n)))), OKT
            if shape == "nested":
                return A.Chain(A.Tup("", A.Tup("P", vals[0], vals[2]), vals[1]),
                               A.Match(A.PTup("", A.PTup("P", A.PId(n), A.PWILD), A.PId(n)))), OKT
            if shape == "triple":
                return A.Chain(A.Tup("", *vals), pat=A.PTup("", A.PId(n), A.PId(n), A.PId(n))), OKT
            if ivars:
                self.tags.add("pin")
                return A.Chain(A.Tup("", vals[0], vals[1]), A.Match(A.PTup("", A.PPin(self.pick(ivars)), A.PId(n)))), OKT
            return A.Chain(A.Tup("", vals[0], vals[1]), A.Match(A.PTup("", A.PId(n), A.PId(n)))), OKT

        opts = [(5, bind_var)]
        if self.on("tuples"):
            opts.append((3, bind_tuple))
        if self.on("patterns"):
            opts.append((4, destructure))
            if fallible:
                opts.append((1.5, repeat_idiom))
        if self.on("blocks") and not self.low():
            opts.append((2, dead_block))
            opts.append((3, scoped_block))
        if self.on("functions") and not self.low() and d < 2:
            opts.append((3, define_fn))
        if fallible:
            opts.append((1, plain))
        return self.weighted(opts)

    # -- functions -----------------------------------------------------------------
    def param_type(self):
        opts = [(4, lambda: INT), (2, lambda: TT("", (("", INT), ("", INT)))), (1, lambda: STR),
                (2, lambda: NIL), (3, lambda: TT("P", (("x", INT), ("y", INT)))),
                (1, lambda: TT("", (("a", INT), ("", TT("B", (("z", INT),))))))]
        if self.on("unions"):
            opts.append((4, lambda: self.union_type()))
        return self.weighted(opts)

    def union_type(self):
        """a union, introduced through a type alias (sometimes containing nil)"""
        for n, T in self.aliases:
            if self.chance(0.5):
                return T
        name = self.pick(["shape", "opt", "res", "t", "ab"])
        if any(n == name for n, _ in self.aliases):
            return next(T for n, T in self.aliases if n == name)
        if name == "shape":
            T = UN([TT("Circle", (("r", INT),)), TT("Rect", (("w", INT), ("h", INT)))], name)
        elif name == "opt":
            T = UN([INT, NIL], name)
        elif name == "ab":
            T = UN([TT("A", (("", INT),)), TT("B", (("", INT),))], name)
        elif name == "res":
            T = UN([TT("Ok", (("", INT),)), TT("Err", (("", STR),)), NIL], name)
        else:
            T = UN([TT("A", (("", INT),)), TT("B"), INT], name)
        self.aliases.append((name, T))
        self.tags.add("union_alias")
        return T

    def gen_fn(self, sc, d, P=None, R=None):
        """a function literal (closure over sc) -> (term, FN(P, R))"""
        self.spend()
        self.tags.add("function")
        rec_first = P is None and R is None and self.on("tailcalls") and self.chance(0.3)
        if rec_first:
            P = self.pick([INT, INT, TT("", (("", INT), ("", INT)))])
        P = P if P is not None else self.param_type()
        want = R if R is not None else self.pick([INT, ANY, ANY])
        if self.chance(0.06) and R is None:
            return A.Fn(ast_type(P)), FN(P, P)          # identity function `#T`
        if P == NIL and R is None and self.chance(0.5):
            # a nilary function whose body READS its parameter (always nil): `$`, `[~, k]`, a nil test
            self.tags.add("nilary_reads_parameter")
            k = self.small_int()
            form = self.pick(["param", "tuple", "test"])
            if form == "param":
                return A.Fn(None, A.Expr(A.Branch([A.Chain(A.Tup("", A.Field(A.Chain(A.Param()))))]))), FN(NIL, TT("", (("", NIL),)))
            if form == "tuple":
                return (A.Fn(None, A.Expr(A.Branch([A.Chain(A.Tup("", A.Field(A.Chain(A.Ripple())), A.Field(A.Chain(A.Int(k)))))]))),
                        FN(NIL, TT("", (("", NIL), ("", INT)))))
            return (A.Fn(None, A.Expr(A.Branch([A.Chain(A.Block(A.Branch([A.Chain(A.Match(A.PNIL))], [A.Chain(A.Int(1))]),
                                                                  A.Branch([A.Chain(A.Int(2))])))]))), FN(NIL, INT))
        fsc = Sc(sc.vars, param=P, selfT=None, infn=True)
        if any(t[0] != "fn" for t in sc.vars.values()):
            self.tags.add("closure_scope")
        flow = P
        style = "rec" if rec_first else self.weighted([(3, lambda: "block"), (2, lambda: "seq"),
                                                       (2 if self.on("tailcalls") else 0, lambda: "rec")])
        if style == "rec" and P == INT and self.chance(0.5):
            body = self.gen_named_tail_body(fsc, sc, want, d)
            if body is not None:
                return A.Fn(ast_type(P), body[0]), FN(P, body[1])
        if style == "rec" and P in (INT, TT("", (("", INT), ("", INT)))):
            body = self.gen_rec_body(fsc, P, want, d)
            T = FN(P, want if want == INT else ANY)
        elif style == "seq":
            steps, t = self.gen_seq(fsc, flow, want, d + 1, fallible=(want == ANY))
            body = A.Expr(A.Branch(steps))
            T = FN(P, t if want == ANY else want)
        else:
            blk, t = self.gen_block(fsc, flow, want, d, fallible=(want == ANY))
            body = blk["body"]
            T = FN(P, t if want == ANY else want)
        param = None if (P == NIL and self.chance(0.7)) else ast_type(P)
        return A.Fn(param, body), T

    def gen_named_tail_body(self, fsc, sc, want, d):
        """`^g` to an earlier function / `^~` to a nilary one, out of a (nested) branch"""
        SUB = "__integer_subtract__"
        to_int = [n for n, t in sc.vars.items() if t[0] == "fn" and t[1] == INT]
        nilary = [n for n, t in sc.vars.items() if t[0] == "fn" and t[1] == NIL]
        if not to_int and not nilary:
            return None
        self.tags.add("tail_call")
        self.spend(8)
        k = self.small_int()
        if nilary and (not to_int or self.chance(0.4)):
            g = self.pick(nilary)
            self.tags.add("tail_call_ripple")
            tail = A.Chain(A.Ref(g), A.TAILRIPPLE)
            R = sc.vars[g][2]
        else:
            g = self.pick(to_int)
            self.tags.add("tail_call_named")
            tail = A.Chain(A.Tup("", A.Ripple(), A.Int(self.pick([1, 2]))), A.Builtin(SUB), A.Tail(g))
            R = sc.vars[g][2]
        other = [A.Int(self.small_int())] if R == INT else [A.Tup(self.pick(TAGS), A.Ripple())]
        R = R if R == INT else ANY
        if self.chance(0.5):
            self.tags.add("tail_call_nested_branch")
            inner = A.Block(A.Branch([A.Chain(A.Match(A.PInt(k)))], [A.Chain(*other)]), A.Branch([tail]))
            return A.Expr(A.Branch([A.Chain(A.Match(A.PId("n")))], [A.Chain(A.Var("n"), inner)])), R
        return A.Expr(A.Branch([A.Chain(A.Match(A.PInt(k)))], [A.Chain(*other)]), A.Branch([tail])), R

    def gen_rec_body(self, fsc, P, want, d):
        """a self-recursive body using `^` (always towards a base case)"""
        self.tags.add("tail_call")
        SUB = "__integer_subtract__"
        if P == INT:
            base = self.gen_of(fsc.child(), INT, want, d + 1) if want == INT else [A.Tup(self.pick(TAGS), A.Ripple())]
            first = A.Branch([A.Chain(A.Tup("", A.Ripple(), A.Int(1)), A.Builtin("__integer_compare__"),
                                      A.Match(A.PInt(-1)))], [A.Chain(*base)])
            dec = [A.Tup("", A.Ripple(), A.Int(self.pick([1, 1, 2]))), A.Builtin(SUB)]
            shape = self.pick(["plain", "nested", "mid", "committed", "step", "fallthrough", "fallthrough", "onward"])
            if shape == "fallthrough" and want != INT:
                # the callee's result may be nil: it is still the result (no fall-through to the last branch)
                self.tags.add("tail_call_result_nil_no_fallthrough")
                self.spend(6)
                neg = A.Branch([A.Chain(A.Tup("", A.Ripple(), A.Int(0)), A.Builtin("__integer_compare__"),
                                        A.Match(A.PInt(-1)))], [A.Chain(A.Tup("Neg"))])
                return A.Expr(neg, A.Branch([A.Chain(A.Match(A.PInt(0)))], [A.Chain(A.NIL)]),
                              A.Branch([A.Chain(A.Match(A.PInt(1)))], [A.Chain(A.Tup("One"))]),
                              A.Branch([A.Chain(A.Tup("", A.Ripple(), A.Int(2)), A.Builtin(SUB), A.Tail())]),
                              A.Branch([A.Chain(A.Tup("Q", A.Ripple()))]))
            if shape == "onward" and want != INT:
                # terms / steps written after the tail call never run
                self.tags.add("tail_call_then_more")
                self.spend(4)
                after = self.pick([[A.Chain(*(dec + [A.Tail(), A.Tup("", A.Ripple(), A.Int(5))]))],
                                   [A.Chain(*(dec + [A.Tail()])), A.Chain(A.Tup("After", A.Ripple()))]])
                return A.Expr(first, A.Branch(after))
            if shape in ("fallthrough", "onward"):
                shape = "plain"
            self.spend(8)
            if shape == "plain":
                return A.Expr(first, A.Branch([A.Chain(*(dec + [A.Tail()]))]))
            if shape == "nested":
                # the tail call sits inside nested branches
                self.tags.add("tail_call_nested_branch")
                k = self.small_int()
                other = self.gen_of(fsc.child(), INT, want, d + 1) if want == INT else [A.Tup("W", A.Ripple())]
                inner = A.Block(A.Branch([A.Chain(A.Match(A.PInt(k)))], [A.Chain(*other)]),
                                A.Branch([A.Chain(*(dec + [A.Tail()]))]))
                return A.Expr(first, A.Branch([A.Chain(A.Match(A.PId("n")))], [A.Chain(A.Var("n"), inner)]))
            if shape == "mid":
                # a committed consequence whose sequence has bindings before the tail call
                self.tags.add("tail_call_after_bindings")
                return A.Expr(first, A.Branch([A.Chain(A.Match(A.PWILD))],
                                              [A.Chain(*dec, pat=A.PId("m")), A.Chain(A.Var("m"), A.Tail())]))
            if shape == "committed":
                k = self.small_int()
                other = self.gen_of(fsc.child(), INT, want, d + 1) if want == INT else [A.Tup("Q")]
                return A.Expr(first, A.Branch([A.Chain(A.Match(A.PInt(k)))], [A.Chain(*other)]),
                              A.Branch([A.Chain(*(dec + [A.Tail()]))]))
            return A.Expr(first, A.Branch([A.Chain(*dec), A.Chain(A.Tail())]))
        # accumulator style on ['int, 'int]
        self.spend(10)
        res = [A.Var("acc")] if want == INT else [A.Tup("S", A.Var("acc"))]
        step = A.Tup("", A.Chain(A.Tup("", A.Var("i"), A.Int(1)), A.Builtin(SUB)),
                     A.Chain(A.Tup("", A.Var("acc"), A.Var("i")), A.Builtin("__integer_add__")))
        return A.Expr(
            A.Branch([A.Chain(A.Match(A.PTup("", A.PId("i"), A.PId("acc")))),
                      A.Chain(A.Tup("", A.Var("i"), A.Int(1)), A.Builtin("__integer_compare__"), A.Match(A.PInt(-1)))],
                     [A.Chain(*res)]),
            A.Branch([A.Chain(A.Match(A.PTup("", A.PId("i"), A.PId("acc"))))], [A.Chain(step, A.Tail())]))

    # -- whole programs --------------------------------------------------------------
    def program(self):
        sc = Sc()
        steps = []
        cur = None
        n = self.pick([1, 2, 2, 3, 3, 4, 5])
        if self.on("functions") and not self.low():
            idiom = self.weighted([(4, lambda: "none"), (2 if self.on("closures") else 0, lambda: "closure"),
                                   (1.2 if self.on("refs") else 0, lambda: "higher"), (6, lambda: "fns")])
            if idiom == "closure":
                steps += self.closure_idiom(sc)
                cur = OKT
            elif idiom == "higher":
                steps += self.higher_order_idiom(sc)
                cur = OKT
            elif idiom == "fns":
                for _ in range(self.pick([1, 2, 2, 3])):
                    fn, T = self.gen_fn(sc, 1)
                    free = [x for x in FNS if x not in sc.vars]
                    nm = self.pick(free) if free else self.pick(FNS)
                    sc.vars[nm] = T
                    steps.append(A.Chain(fn, pat=A.PId(nm)))
                    cur = OKT
        for _ in range(n):
            if self.low():
                break
            c, cur = self.gen_step(sc, cur, 0, fallible=True)
            steps.append(c)
            # a closure has captured the scope: sometimes shadow one of the captured names afterwards
            if self.on("closures") and "closure_scope" in self.tags and self.chance(0.4):
                vs = [v for v, t in sc.vars.items() if t[0] != "fn" and v in VARS]
                if vs:
                    v = self.pick(vs)
                    terms, t = self.gen_any(sc, OKT, 1)
                    sc.vars[v] = t
                    steps.append(A.Chain(*terms, pat=A.PId(v)))
                    self.tags.add("rebind_after_closure")
                    cur = OKT
        steps.append(self.observation(sc, cur))
        return A.Program(steps, [(n_, ast_type_alias(T)) for n_, T in self.aliases])

    def closure_idiom(self, sc):
        """a closure factory: the inner function captures a local of the outer call and a global that is
        shadowed after the capture; the factory is applied and the closure called later"""
        v = self.pick([n for n in VARS if n not in sc.vars] or VARS)
        steps = [A.Chain(A.Int(self.small_int()), pat=A.PId(v))]
        sc.vars[v] = INT
        op = self.pick(["__integer_add__", "__integer_subtract__", "__integer_multiply__"])
        inner_body = self.pick([
            A.Expr(A.Branch([A.Chain(A.Tup("", A.Var("c"), A.Ripple(), A.Var(v)))])),
            A.Expr(A.Branch([A.Chain(A.Tup("", A.Chain(A.Tup("", A.Var("c"), A.Ripple()), A.Builtin(op)), A.Var(v)))])),
            A.Expr(A.Branch([A.Chain(A.Match(A.PPin("c")))], [A.Chain(A.Tup("Same", A.Var(v)))]),
                   A.Branch([A.Chain(A.Tup("", A.Param(), A.Var("c")))])),
        ])
        outer = A.Fn(A.TINT, A.Expr(A.Branch([
            A.Chain(A.Tup("", A.Ripple(), A.Var(v)), A.Builtin(op), pat=A.PId("c")),
            A.Chain(A.Fn(A.TINT, inner_body))])))
        steps.append(A.Chain(outer, pat=A.PId("mk")))
        steps.append(A.Chain(*self.gen_int(sc, None, 2), pat=A.PId(v)))          # shadow the captured name
        g = self.pick(["g", "h"])
        steps.append(A.Chain(A.Int(self.small_int()), A.Var("mk"), A.Match(A.PId(g))))
        if self.chance(0.5):
            steps.append(A.Chain(A.Int(9), pat=A.PId("c")))                       # a global `c` the closure must not see
            sc.vars["c"] = INT
        sc.vars[g] = FN(INT, ANY)
        self.spend(18)
        self.tags.update(["closure_factory", "closure_scope", "rebind_after_closure", "nested_function"])
        return steps

    def higher_order_idiom(self, sc):
        """a function value passed by reference and applied through a parameter"""
        f = self.pick(["f", "k"])
        body = self.gen_arith(Sc(param=INT), INT, 3)
        steps = [A.Chain(A.Fn(A.TINT, A.Expr(A.Branch([A.Chain(*body)]))), pat=A.PId(f))]
        sc.vars[f] = FN(INT, INT)
        ap_body = self.pick([
            A.Expr(A.Branch([A.Chain(A.Match(A.PTup("", A.PId("h"), A.PId("v"))))], [A.Chain(A.Var("v"), A.Var("h"))])),
            A.Expr(A.Branch([A.Chain(A.Param(A.I(1)), A.Param(A.I(0), sugar=True))])),
            A.Expr(A.Branch([A.Chain(A.Param(A.I(1)), A.Param(A.I(0)), A.Param(A.I(0)))])),
        ])
        steps.append(A.Chain(A.Fn(A.TTup("", A.TFn(A.TINT, A.TINT), A.TINT), ap_body), pat=A.PId("ap")))
        sc.vars["ap"] = FN(TT("", (("", FN(INT, INT)), ("", INT))), INT)
        self.spend(14)
        self.tags.update(["higher_order", "reference"])
        return steps

    def observation(self, sc, flow):
        """the final step: a tuple collecting variables and applying every function to several arguments"""
        fields = []
        for n, T in sc.vars.items():
            if T[0] == "fn":
                P = T[1]
                if P == NIL:
                    fields.append(A.Field(A.Chain(A.Var(n))))
                    if self.chance(0.6):
                        # ... and once more with a value flowing in whose static type contains nil
                        self.tags.add("nilary_maybe_nil_arg")
                        blk = A.Block(A.Branch([A.Chain(A.Match(A.PInt(0)))], [A.Chain(A.NIL)]), A.Branch([A.Chain(A.Ripple())]))
                        fields.append(A.Field(A.Chain(A.Int(self.pick([0, 5, 7])), blk, A.Var(n))))
                    continue
                k = self.pick([1, 2, 2, 3])
                if k > 1:
                    self.tags.add("several_arguments")
                for _ in range(k):
                    arg = self.arg_for(sc, P)
                    fields.append(A.Field(A.Chain(*(arg + [A.Var(n)]))))
                    self.spend(2)
            elif self.chance(0.8):
                fields.append(A.Field(A.Chain(A.Var(n))))
                self.spend()
        if not fields:
            terms, _ = self.gen_any(sc, flow, 1)
            return A.Chain(*terms)
        self.r.shuffle(fields)
        return A.Chain(A.Tup("", *fields[:6]))

    def arg_for(self, sc, P):
        """a literal argument of type P; unions containing nil get nil regularly"""
        save = self.budget
        self.budget = 0        # leaves only
        try:
            if P[0] == "union":
                v = self.pick(P[1])
                if v == NIL:
                    self.tags.add("nil_argument")
                return self.gen_of(Sc(), None, v, 9)
            if P == INT:
                return [A.Int(self.pick([0, 1, 2, 3, 4]))]
            if P == TT("", (("", INT), ("", INT))):
                return [A.Tup("", A.Int(self.pick([0, 1, 2, 3])), A.Int(self.small_int()))]
            if P[0] == "tup" and any(t[0] == "fn" for _, t in P[2]):
                fs = []
                for l, t in P[2]:
                    if t[0] == "fn":
                        c = [n for n, vt in sc.vars.items() if vt == t]
                        fs.append(A.Field(A.Chain(A.Ref(self.pick(c)) if c else A.Fn(A.TINT)), l))
                    else:
                        fs.append(A.Field(A.Chain(A.Int(self.small_int())), l))
                return [A.Tup(P[1], *fs)]
            return self.gen_of(Sc(), None, P, 9)
        finally:
            self.budget = save


def ast_type_alias(T):
    return A.TUnion(*[ast_type(t) for t in T[1]])


# ---------------------------------------------------------------------------
# known patterns (see /verif/known_findings.json)
# ---------------------------------------------------------------------------
def _pat_names(p, binders, pins):
    k = p["p"]
    if k in ("id", "as"):
        binders.add(p["name"])
    elif k == "pin":
        pins.add(p["name"])
    elif k == "tuple":
        for f in p["fields"]:
            _pat_names(f["pat"], binders, pins)
    elif k == "partial":
        for f in p["fields"]:
            if f["pat"]:
                _pat_names(f["pat"][0], binders, pins)
            else:
                binders.add(f["label"])
    elif k == "or":
        for a in p["alts"]:
            _pat_names(a, binders, pins)


# findings repaired in /repo (known_findings.json: status fixed): their triggers no longer excuse anything
REPAIRED = {"locals-shift-after-failed-branch-that-binds": "f16701c", "narrowing-survives-rebinding": "f24477a",
            "spread-of-rebound-variable-uses-old-type": "f24477a"}


def _add_open(keys, key):
    if key not in REPAIRED:
        keys.append(key)


def known_pattern(prog):
    """the key of a known finding (see /verif/known_findings.json) whose SYNTACTIC trigger occurs in the
    program, or None.  (Two further known findings depend on the compiler's static types, which the
    syntax does not show; engines/seqlang.py attributes a disagreement to them by re-running a
    semantically equivalent rewriting - wrap_binders / inherit_variants below.)"""
    keys = []

    def roots(d, parent):
        root = None
        if d.get("t") == "match":
            root = d["pat"]
        elif "terms" in d and d["pat"]:
            root = d["pat"][0]
        if root is not None:
            b, p = set(), set()
            _pat_names(root, b, p)
            if b & p:
                keys.append("pin-and-rebind-same-name")
    A.walk(prog, roots)

    def tail_in_operand(node, inside):
        """a tail call evaluated while a tuple literal / string of the same function is being built"""
        if isinstance(node, list):
            for x in node:
                tail_in_operand(x, inside)
            return
        if not isinstance(node, dict):
            return
        t = node.get("t")
        if t == "fn":
            for b in node["body"]:
                tail_in_operand(b, False)
            return
        if t == "access" and node["src"]["k"] in ("tail", "tailripple") and inside:
            keys.append("tail-call-inside-tuple-field")
        if t == "tuple":
            for f in node["fields"]:
                if f["f"] == "chain":
                    tail_in_operand(f["chain"], True)
            return
        if t == "str":
            for s in node["segs"]:
                if s["s"] == "hole":
                    tail_in_operand(s["body"], True)
            return
        for v in node.values():
            tail_in_operand(v, inside)
    tail_in_operand(prog, False)

    def binders_in(node, out, stop_fn=True):
        """names bound by patterns anywhere inside node (not descending into nested function literals)"""
        if isinstance(node, list):
            for x in node:
                binders_in(x, out, stop_fn)
            return
        if not isinstance(node, dict):
            return
        if node.get("t") == "fn" and stop_fn:
            return
        if "p" in node:
            b, p_ = set(), set()
            _pat_names(node, b, p_)
            out |= b
            if node["p"] == "star":
                out.add("*")
            return
        for v in node.values():
            binders_in(v, out, stop_fn)

    def has_binding_block(node):
        if isinstance(node, list):
            return any(has_binding_block(x) for x in node)
        if not isinstance(node, dict) or node.get("t") == "fn":
            return False
        if node.get("t") == "block":
            b = set()
            binders_in(node["body"], b)
            if b:
                return True
        return any(has_binding_block(v) for v in node.values())

    def shifted_locals(d, _):
        # a branch that binds (and may fail), then a later branch of the same block that contains a nested
        # block which binds: the later branch's locals are read at shifted indices
        if "branches" in d and len(d["branches"]) > 1:
            for i, br in enumerate(d["branches"][:-1]):
                b = set()
                binders_in(br, b)
                if b and any(has_binding_block([x["cond"], x["cons"]]) for x in d["branches"][i + 1:]):
                    _add_open(keys, "locals-shift-after-failed-branch-that-binds")
                    return
                # ... or the earlier branch binds through a type-ascribed binder `(T)x` (bound before the
                # type test fails) and a later branch binds at all
                has_as = [False]

                def as_(x, _):
                    if x.get("p") == "as":
                        has_as[0] = True
                A.walk(br["cond"], as_)
                later = set()
                binders_in(d["branches"][i + 1:], later)
                # ... or it binds in the middle of a chain that then fails (`Q =u =7`)
                for c in br["cond"]:
                    for j, t in enumerate(c["terms"][:-1]):
                        if t.get("t") == "match":
                            mb = set()
                            binders_in(t["pat"], mb)
                            if mb:
                                has_as[0] = True
                if has_as[0] and later:
                    _add_open(keys, "locals-shift-after-failed-branch-that-binds")
                    return
    if not keys:
        A.walk(prog, shifted_locals)

    def captured_member(d, _):
        # inside a function literal: `n.member` where n is ALSO bound inside that literal
        if d.get("t") == "fn" and d["body"]:
            b = set()
            binders_in(d["body"], b, stop_fn=False)

            def acc(x, __):
                if x.get("t") in ("access", "ref") and x["src"]["k"] == "id" and x["path"] and x["src"]["name"] in b:
                    keys.append("captured-member-access-ignores-shadowing")
            A.walk(d["body"], acc)
    if not keys:
        A.walk(prog, captured_member)

    def count_binders(node, counts):
        if isinstance(node, list):
            for x in node:
                count_binders(x, counts)
            return
        if not isinstance(node, dict):
            return
        if "p" in node:
            b, p_ = set(), set()
            _pat_names(node, b, p_)
            for n in b:
                counts[n] = counts.get(n, 0) + 1
            return
        for v in node.values():
            count_binders(v, counts)
    counts = {}
    count_binders(prog, counts)

    def stale(d, _):
        # `&g =u =p`: a match applied to the verdict of a match narrows the VARIABLE the first match read
        if "terms" in d and "t" not in d:
            ts = d["terms"]
            for i in range(len(ts) - 2):
                if ts[i].get("t") in ("access", "ref") and ts[i]["src"]["k"] == "id" \
                        and ts[i + 1].get("t") == "match" and ts[i + 2].get("t") == "match":
                    keys.append("match-on-verdict-narrows-source-variable")
            # `x = n` / `n =x` ... and n is bound again somewhere: the narrowing recorded for the NAME survives
            if ts and ts[0].get("t") == "access" and ts[0]["src"]["k"] == "id" and not ts[0]["path"] \
                    and counts.get(ts[0]["src"]["name"], 0) >= 2 \
                    and (d["pat"] or (len(ts) > 1 and ts[1].get("t") == "match")):
                _add_open(keys, "narrowing-survives-rebinding")
        # `[...d]` where d is bound more than once: the spread uses the type of the FIRST binding
        if d.get("t") == "tuple":
            for f in d["fields"]:
                if f["f"] == "spread" and f["src"] and counts.get(f["src"], 0) >= 2:
                    _add_open(keys, "spread-of-rebound-variable-uses-old-type")
    if not keys:
        A.walk(prog, stale)
    if not keys:
        def star(d, _):
            if d.get("p") == "star":
                keys.append("star-on-union-then-failing-branch")
        A.walk(prog, star)
    return keys[0] if keys else None


def wrap_binders(prog):
    """A semantically equivalent program (per spec.md) in which no variable is bound by a bare binder
    at the root of a step or by the `(x)` shorthand of a partial pattern: `x = e` becomes `[x] = [e]`,
    `e =x` becomes `[e] =[x]`, `(x)` becomes `(x: x)`.  The compiler's unsound "a step that succeeded
    bound only non-nil values" narrowing (known finding bound-variable-loses-nil) does not apply to the
    rewritten form, so a disagreement that disappears under this rewriting is attributed to it.
    Returns (program, changed)."""
    import copy
    prog = copy.deepcopy(prog)
    changed = [False]

    def has_tail(node):
        found = [False]

        def f(d, _):
            if d.get("t") == "access" and d["src"]["k"] in ("tail", "tailripple"):
                found[0] = True
        A.walk(node, f)
        return found[0]

    def fix(node):
        if isinstance(node, list):
            for x in node:
                fix(x)
            return
        if not isinstance(node, dict):
            return
        for v in node.values():
            fix(v)
        if node.get("p") == "partial":
            for f in node["fields"]:
                if not f["pat"]:
                    f["pat"] = [A.PId(f["label"])]
                    changed[0] = True
        if "terms" in node and "pat" in node and "t" not in node:
            terms = node["terms"]
            if node["pat"] and node["pat"][0]["p"] == "id" and not has_tail(terms):
                node["terms"] = [A.Tup("", A.Field(A.Chain(*terms)))]
                node["pat"] = [A.PTup("", node["pat"][0])]
                changed[0] = True
            elif not node["pat"] and terms and terms[-1].get("t") == "match" and terms[-1]["pat"]["p"] == "id" \
                    and not has_tail(terms):
                pre = terms[:-1] or [A.Ripple()]
                node["terms"] = [A.Tup("", A.Field(A.Chain(*pre))), A.Match(A.PTup("", terms[-1]["pat"]))]
                changed[0] = True
    fix(prog["steps"])
    return prog, changed[0]


def inherit_variants(prog, limit=4):
    """programs in which a non-empty subset of the name-inheriting spreads (`a[..., f]`, `~[..., f]`)
    is replaced by the anonymous form (`[...a, f]`, `[..., f]`): what the implementation computes where
    the known finding inherit-spread-union-drops-name strikes."""
    import copy
    sites = []

    def f(d, _):
        if d.get("t") == "tuple" and d["nk"] == "inherit":
            sites.append(d)
    A.walk(prog, f)
    n = min(len(sites), limit)
    out = []
    for mask in range(1, 2 ** n):
        for i in range(n):
            sites[i]["nk"] = "anon" if mask & (1 << i) else "inherit"
        out.append(copy.deepcopy(prog))
    for d in sites:
        d["nk"] = "inherit"
    return out


def noinput_variant(prog):
    """The program in which the fields of every tuple literal that CONTAINS A SPREAD do not receive the
    flowing value (a leading block / string gets nil, a leading variable is not applied): what the
    implementation computes where the known finding spread-tuple-fields-get-no-flowing-value strikes.
    Returns None when there is no such field."""
    import copy
    prog = copy.deepcopy(prog)
    changed = [False]

    def f(d, _):
        if d.get("t") == "tuple" and any(x["f"] == "spread" for x in d["fields"]):
            for x in d["fields"]:
                if x["f"] != "chain" or x["chain"]["pat"]:
                    continue
                terms = x["chain"]["terms"]
                t0 = terms[0]
                if t0["t"] in ("block", "str") and (t0["t"] == "block" or any(s_["s"] == "hole" for s_ in t0["segs"])):
                    x["chain"]["terms"] = [copy.deepcopy(A.NIL)] + terms
                    changed[0] = True
                elif t0["t"] == "access" and t0["src"]["k"] in ("id", "param", "builtin"):
                    t0["t"] = "ref"
                    changed[0] = True
    A.walk(prog, f)
    return prog if changed[0] else None


def _inject_known(g, prog):
    """rarely, plant a known-finding trigger so that the KNOWN-FINDING line stays alive"""
    r = g.r
    if r.random() < 0.5:
        v = g.pick(VARS)
        prog["steps"] = [A.Chain(A.Int(1), pat=A.PId(v)),
                         A.Chain(A.Tup("", A.Int(1), A.Int(2)), A.Match(A.PTup("", A.PPin(v), A.PId(v))))] + prog["steps"]
    else:
        f = A.Fn(A.TINT, A.Expr(A.Branch([A.Chain(A.Match(A.PInt(7)))], [A.Chain(A.Tup("S"))]),
                                A.Branch([A.Chain(A.Tup("", A.Int(5), A.Chain(A.Int(7), A.Tail())))])))
        prog["steps"] = [A.Chain(f, pat=A.PId("k")),
                         A.Chain(A.Tup("", A.Int(3), A.Chain(A.Int(1), A.Var("k"))), pat=A.PId("w"))] + prog["steps"]


def generate_programs(seed, n, features=ALL_FEATURES, min_nodes=5, max_nodes=60):
    """n programs (dicts {"id", "ast", "tags", "known"}) from a seed; deterministic"""
    rng = random.Random(seed)
    out = []
    tries = 0
    while len(out) < n and tries < n * 20:
        tries += 1
        size = rng.choice([6, 10, 14, 18, 22, 26, 30, 34, 38])
        g = Gen(random.Random(rng.getrandbits(48)), size, features)
        try:
            prog = g.program()
        except RecursionError:
            continue
        if "known" in g.feats and g.r.random() < 0.004:
            _inject_known(g, prog)
        if g.chance(0.15):
            prog["sep"] = "\n"
        k = A.node_count(prog)
        if k < min_nodes or k > max_nodes:
            continue
        key = known_pattern(prog)
        out.append({"id": "g%d_%d" % (seed, len(out)), "ast": prog, "tags": sorted(g.tags), "known": key,
                    "nodes": k})
    return out


# ---------------------------------------------------------------------------
# exhaustive tiny scope
# ---------------------------------------------------------------------------
def tiny_programs(max_nodes=7, focus=False):
    """EVERY program up to max_nodes AST nodes over a tiny grammar: literals 1 / [] / Ok-tag A, `~`,
    `[~, 1]`-like tuples, variable x, matches =1 =x =[] =A[x], blocks with one or two branches and an
    optional consequence, bindings `x = chain`, sequences of up to three steps.  Closed under the
    grammar, so every pairwise interaction of these features at small size is covered."""
    import functools

    atoms = [A.Int(1), A.Int(2), A.NIL, A.Ripple(), A.Var("x"), A.Match(A.PInt(1)), A.Match(A.PId("x")),
             A.Match(A.PNIL), A.Tup("A"), A.Match(A.PTup("A", A.PId("x")))]
    if focus:
        # the local-variable bookkeeping class: a value, the flowing value, a variable, a match that
        # fails on 1, a binder - and blocks / bindings / sequences around them, to a larger size
        atoms = [A.Int(1), A.Ripple(), A.Var("x"), A.Match(A.PInt(2)), A.Match(A.PId("x"))] + [None] * 5

    @functools.lru_cache(maxsize=None)
    def terms(n):
        """all terms with exactly n nodes"""
        out = []
        if n == 1:
            out += [a for a in atoms[:9] if a is not None]
        if n == 2 and atoms[9] is not None:
            out.append(atoms[9])
        # tuples [c], [c, c], A[c]
        if n >= 3:
            for c in chains(n - 1):
                out.append(A.Tup("", c))
                if not focus:
                    out.append(A.Tup("A", c))
        if n >= 5 and not focus:
            for k in range(2, n - 2):
                for c1 in chains(k):
                    for c2 in chains(n - 1 - k):
                        out.append(A.Tup("", c1, c2))
        # blocks
        if n >= 3:
            for e in exprs(n - 1):
                out.append({"t": "block", "body": e})
        return out

    @functools.lru_cache(maxsize=None)
    def chains(n):
        """all chains (node count includes the chain itself) with exactly n nodes, 1..3 terms, optional `x =`"""
        out = []
        for m in (n - 1, n - 2):          # without / with binding pattern (the pattern is a node)
            if m < 1:
                continue
            bodies = []
            bodies += [[t] for t in terms(m)]
            for k in range(1, m):
                for t1 in terms(k):
                    for t2 in terms(m - k):
                        bodies.append([t1, t2])
            if m >= 3:
                for k1 in range(1, m - 1):
                    for k2 in range(1, m - k1):
                        for t1 in terms(k1):
                            for t2 in terms(k2):
                                for t3 in terms(m - k1 - k2):
                                    if m <= 4:
                                        bodies.append([t1, t2, t3])
            for b in bodies:
                if m == n - 1:
                    out.append(A.Chain(*b))
                else:
                    out.append(A.Chain(*b, pat=A.PId("x")))
        return out

    @functools.lru_cache(maxsize=None)
    def seqs(n):
        """sequences of 1..2 chains with n nodes in total"""
        out = [[c] for c in chains(n)]
        for k in range(2, n - 1):
            for c1 in chains(k):
                for c2 in chains(n - k):
                    out.append([c1, c2])
        return out

    @functools.lru_cache(maxsize=None)
    def branches(n):
        out = [A.Branch(s) for s in seqs(n)]
        for k in range(2, n - 1):
            for s1 in seqs(k):
                for s2 in seqs(n - k):
                    out.append(A.Branch(s1, s2))
        return out

    @functools.lru_cache(maxsize=None)
    def exprs(n):
        out = [A.Expr(b) for b in branches(n)]
        for k in range(2, n - 1):
            for b1 in branches(k):
                for b2 in branches(n - k):
                    out.append(A.Expr(b1, b2))
        return out

    progs = []
    for n in range(2, max_nodes + 1):
        # programs: 1..3 steps
        for s in seqs(n):
            progs.append(s)
        for k in range(2, n - 3):
            for c1 in chains(k):
                for s in seqs(n - k):
                    if len(s) == 2:
                        progs.append([c1] + s)
    out = []
    for i, steps in enumerate(progs):
        out.append({"id": "%s%d" % ("tf" if focus else "t", i), "ast": A.Program(steps), "tags": ["tiny"],
                    "known": None})
    return out
