"""Handwritten programs of shapes that neither the test suite nor the generators produce often enough; they join
the corpus of C02 (judged against SeqLang.tla through the real parser's AST), C07 (bytecode analysis) and C01."""

EXTRA_SOURCES = [
    # alternations whose alternatives bind the SAME variable to different parts of the value, with an irrefutable
    # alternative that is not the first one (seeded change C02-3: the binding sets before an irrefutable one were
    # dropped from code generation, so the earlier, matching alternative was never tried)
    "[0, 5] =([0, x] | [x, _]), x",
    "[3, 4] =([0, x] | [x, _]), x",
    "[0, 5] =([x, _] | [0, x]), x",
    "f = #['int, 'int] { | =([0, x] | [x, _]) => x }, [[0, 5] f, [3, 4] f, [0, 0] f]",
    "[A[1], 2] =([A[x], _] | [x, _]), [x]",
    "[B[1], 2] =([A[x], _] | [x, _]), [x]",
    "[1, 2, 3] =([1, a, _] | [_, _, a]), a",
    "[7, 2, 3] =([1, a, _] | [_, _, a]), a",
    "[1, 2, 3] =([9, a, _] | [1, _, a] | [a, _, _]), a",
    "P[x: 0, y: 5] =(P[x: 0, y: v] | P[x: v, y: _]), v",
    "P[x: 4, y: 5] =(P[x: 0, y: v] | P[x: v, y: _]), v",
    "g = #'int { | =(0 | 1) => 10 | =n => n }, [0 g, 1 g, 2 g]",
    "[[0, 1], 2] =([[0, q], _] | [_, q]), q",
    "[[5, 1], 2] =([[0, q], _] | [_, q]), q",
    # `pattern = value` bindings written directly inside tuple brackets that FAIL at run time: the field is nil and
    # evaluation goes on, so the failure path must keep the locals aligned (seeded change C07-3: the nil-fill of a
    # chain's own binding was skipped as a dead store)
    "t = [('int)x = [], 2], y = 9, z = 8, [t, y, z]",
    "t = [('int)x = 5, 2], y = 9, z = 8, [t, y, z, x]",
    "'opt = Some['int] | None\npair = #['opt, 'opt] { got = [Some[a] = $.0, Some[b] = $.1], total = 100, total }, [[Some[1], Some[2]] pair, [None, Some[2]] pair]",
    "'opt = Some['int] | None\npair = #['opt, 'opt] { got = [Some[a] = $.0, Some[b] = $.1], total = 100, [got, total] }, [[Some[1], Some[2]] pair, [None, Some[2]] pair, [Some[3], None] pair]",
    "u = [A[a] = B[1], A[b] = A[2]], w = 3, [u, w]",
    "u = A[..., [c, d] = 5], w = 3, [u, w]",
    "v = 1, u = [[m, n] = [1, 2], [o] = 7, [p] = [8]], w = 3, [u, w, v]",
    "h = #'int { [0 = $, r = $], 6 =k, [k] }, [0 h, 1 h]",
]


def vm_sources():
    """C07 only (bytecode analysis + real traces; no language-model judgement): every term that produces a value
    WITHOUT an input, in every position where a chain starts with no value flowing in -- in particular the fields
    of tuple literals that also contain a spread, whose code generation counts the slots each field leaves
    (seeded change C07-4: `! []` emitted nothing when no value flowed in, while its caller counted one slot)."""
    terms = ["! []", "! [0]", "[]", "{ ! [] }", "{ [] ~> ! [] }", "5 ~> ! []", "[] ~> ! []", "Ok", "7", "0x01", "&.",
             "#{ 1 }", "@#{ 1 }", "{ 1, ! [] }", "[! []]", "! [] ~> =q", "(! [])", "{ | ! [] | 3 }", "{ | [] => ! [] | 4 }"]
    places = ["a = [1, 2], [...a, %s]", "a = [1, 2], [%s, ...a]", "a = [1, 2], [...a, %s, 3]", "a = [1, 2], [0, %s, ...a]",
              "a = A[x: 1], A[...a, y: %s]", "a = A[x: 1], A[y: %s, ...a]", "a = A[x: 1], a[..., y: %s]",
              "[1, 2] ~> [..., %s]", "[1, 2] ~> [%s, ...]", "a = [1, 2], b = [3], [...a, %s, ...b]",
              "a = [1, 2], [...a, %s, %s]", "a = [1, 2], f = #{ [...a, %s] }, [] f", "a = [1, 2], y = 9, t = [...a, %s], [t, y]",
              "[1, %s, 3]", "x = %s, [x]", "{ %s }", "f = #{ %s }, [] f", "y = 9, %s, y", "[[%s]]"]
    return [p.replace("%s", t) for p in places for t in terms]
