"""Scenario DSL: abstract scripts for the Runtime model, and their rendering to Quiver source."""
import json

def I(n): return {"k": "int", "n": n}
NIL = {"k": "nil"}
OK = {"k": "tup", "name": "Ok", "fs": []}
def T(*fs): return {"k": "tup", "name": "", "fs": list(fs)}

def c(v): return {"e": "c", "v": v}
def r(n): return {"e": "r", "r": n}
def t(*es): return {"e": "t", "fs": list(es)}
def hb(*bs): return {"e": "hb", "b": list(bs)}       # a binary built at run time (lives on the executor heap)
def B(*bs): return {"k": "bin", "b": list(bs)}

def spawn(dst, script, *args): return {"op": "spawn", "dst": dst, "script": script, "args": list(args)}
def send(to, val): return {"op": "send", "to": to, "val": val}
def retsend(to, val): return {"op": "retsend", "to": to, "val": val}   # a send as the LAST step: the process finishes in the same slice
def select(dst, *srcs): return {"op": "select", "dst": dst, "srcs": list(srcs)}
def fail(e="InvalidArgument:Division by zero"): return {"op": "fail", "e": e}
def ret(val): return {"op": "ret", "val": val}
def let(dst, val): return {"op": "let", "dst": dst, "val": val}
def selfpid(dst): return {"op": "selfpid", "dst": dst}                 # &.
def fld(reg, i): return {"e": "f", "r": reg, "i": i}                   # field i (0-based) of the tuple in a register
def mint(dst): return {"op": "mint", "dst": dst}                       # %ref
def ropen(dst): return {"op": "open", "dst": dst}                      # __file_open__ on the simulated backend
def ruse(dst, reg): return {"op": "use", "dst": dst, "reg": reg}       # __file_read__ of one byte
def rclose(reg): return {"op": "close", "dst": 8, "reg": reg}          # __file_close__

def aw(reg): return {"k": "await", "reg": reg}
def recv(tys=("int",), acc=None, body="pure", reg=None):
    # (a builtin used as a receive source has no body: it only names the message type and is never applied)
    # body "effect_read": the filter reads one byte from the resource in register `reg` (a heap binary comes back)
    s = {"k": "recv", "tys": list(tys), "filt": acc is not None or body not in ("pure", "builtin"),
         "acc": list(acc or []), "body": body}
    if reg is not None: s["reg"] = reg
    return s
def tmo(d): return {"k": "timeout", "d": d}
# a "never" sentinel: a duration beyond 64 bits in the program, the largest 32-bit value in the model and in the traces
def tmo_huge(): return {"k": "timeout", "d": 2147483647, "huge": True}

def scenario(name, scripts, nw=2, maxtick=0, maxfuel=3, placement="mod", defects=(), **kw):
    d = {"name": name, "nw": nw, "maxtick": maxtick, "maxpid": kw.pop("maxpid", len(scripts)),
         "maxfuel": maxfuel, "placement": placement, "defects": list(defects), "scripts": scripts}
    d.update(kw)
    return d

# ---------------------------------------------------------------------------
# Rendering to Quiver source
# ---------------------------------------------------------------------------
# "req" = a request carrying the pid to reply to: [(@'int), 'int]
TYNAMES = {"req": "[(@'int), 'int]", "int": "'int", "bin": "'bin", "tup": "['int, 'int]", "btup": "['bin, 'bin]", "res": "\\File", "ref": "'ref", "rpair": "[\\File, \\File]"}

def q_val(v):
    k = v["k"]
    if k == "int": return str(v["n"])
    if k == "nil": return "[]"
    if k == "bin": return "0x" + "".join("%02x" % b for b in v["b"])
    if k == "tup":
        return (v["name"] or "") + ("[" + ", ".join(q_val(f) for f in v["fs"]) + "]" if v["fs"] or not v["name"] else "")
    raise ValueError(v)

def q_expr(e, sid):
    if e["e"] == "c": return q_val(e["v"])
    if e["e"] == "r": return "&s%dr%d" % (sid, e["r"])
    if e["e"] == "t": return "[" + ", ".join(q_expr(f, sid) for f in e["fs"]) + "]"
    if e["e"] == "f": return "&s%dr%d.%d" % (sid, e["r"], e["i"])
    if e["e"] == "hb":
        h = max(1, len(e["b"]) // 2)
        return "[0x%s, 0x%s] __binary_concat__" % ("".join("%02x" % b for b in e["b"][:h]),
                                                   "".join("%02x" % b for b in e["b"][h:]))
    raise ValueError(e)

class Renderer:
    def __init__(self, scn):
        self.scn = scn
        self.n = 0          # unique instance counter (a script spawned from two sites gets two copies)

    def src(self, s, sid):
        if s["k"] == "await": return "&s%dr%d" % (sid, s["reg"])
        if s["k"] == "timeout": return "100000000000000000000000" if s.get("huge") else str(s["d"])
        ty = " | ".join(TYNAMES[t] for t in s["tys"])
        if len(s["tys"]) > 1: ty = "(" + ty + ")"
        if s.get("body") == "builtin": return "&__integer_add__"     # a builtin as receive source: ['int, 'int], type-only
        if not s["filt"]: return "#" + ty
        if s["body"] == "spawn": return "#%s { @#{ 1 }, Ok }" % ty
        if s["body"] == "send": return "#%s { 0 s%dr1, Ok }" % (ty, sid)
        if s["body"] == "fail": return "#%s { [1, 0] __integer_divide__, Ok }" % ty
        if s["body"] == "effect": return "#%s { [0x2f78, 0, 0] __file_open__, Ok }" % ty    # an effect builtin inside the filter
        if s["body"] == "effect_read": return "#%s { [&s%dr%d, 0, 1] __file_read__, Ok }" % (ty, sid, s["reg"])
        if s["body"] == "effect_fail": return "#%s { [0x2178, 0, 0] __file_open__, Ok }" % ty   # ... whose operation fails ('!x')
        if s["body"] == "builtin": return "&__integer_add__"
        branches = " ".join("| =%s => Ok" % q_val(v) for v in s["acc"]) or "| []"
        return "#%s { %s }" % (ty, branches)

    def script(self, idx, parent_regs=None, sid=None):
        """Steps of script `idx` (1-based) as a list of Quiver step strings.  sid: the register-name space
        (the lines of a session share the entry process's: its registers are the REPL's variables)."""
        if sid is None:
            self.n += 1
            sid = self.n
        steps = []
        if parent_regs:
            for i, pe in enumerate(parent_regs):
                steps.append("s%dr%d = %s" % (sid, i + 1, pe))
        for op in self.scn["scripts"][idx - 1]:
            o = op["op"]
            if o == "spawn":
                caps = [q_expr(a, sid) for a in op["args"]]
                body = self.script(op["script"], caps)
                steps.append("s%dr%d = @#{ %s }" % (sid, op["dst"], ", ".join(body)))
            elif o == "retsend":
                steps.append("%s s%dr%d" % (q_expr(op["val"], sid), sid, op["to"]))
            elif o == "send":
                steps.append("%s s%dr%d" % (q_expr(op["val"], sid), sid, op["to"]))
            elif o == "select":
                steps.append("s%dr%d = ! [%s]" % (sid, op["dst"], ", ".join(self.src(s, sid) for s in op["srcs"])))
            elif o == "fail":
                steps.append("[1, 0] __integer_divide__")
            elif o == "selfpid":
                steps.append("s%dr%d = &." % (sid, op["dst"]))
            elif o == "mint":
                steps.append("s%dr%d = %%ref" % (sid, op["dst"]))
            elif o == "open":
                steps.append("s%dr%d = [0x2f78, 0, 0] __file_open__" % (sid, op["dst"]))
            elif o == "use":
                steps.append("s%dr%d = [&s%dr%d, 0, 1] __file_read__" % (sid, op["dst"], sid, op["reg"]))
            elif o == "close":
                steps.append("s%dr%d = &s%dr%d __file_close__" % (sid, op["dst"], sid, op["reg"]))
            elif o == "let":
                steps.append("s%dr%d = %s" % (sid, op["dst"], q_expr(op["val"], sid)))
            elif o == "ret":
                steps.append(q_expr(op["val"], sid))
            else:
                raise ValueError(op)
        return steps

def render(scn):
    return ", ".join(Renderer(scn).script(1))


def render_lines(scn):
    """a REPL session: one source text per line; line k runs script scn["lines"][k] in the persistent process"""
    r = Renderer(scn)
    r.n = 1
    return [", ".join(r.script(idx, sid=1)) for idx in scn.get("lines", [1])]
