"""Shared plumbing for the /verif checks: harness build, TLC runs, evidence files, findings.

Exit-code contract (see MANIFEST.json): 0 = property held on everything explored (known findings
are printed as KNOWN-FINDING lines), 1 = a VIOLATION line was printed, 2 = tool error / timeout.
"""
import json, os, re, subprocess, sys, time, hashlib, shutil

VERIF = os.path.dirname(os.path.dirname(os.path.abspath(__file__)))
SPEC = os.path.join(VERIF, "spec")
HARNESS = os.path.join(VERIF, "harness")
WORK = os.path.join(VERIF, "work")
EVIDENCE = os.path.join(VERIF, "evidence")
REPLAYS = os.path.join(VERIF, "replays")
BIN = os.path.join(HARNESS, "target", "debug")
TLA_CP = "/opt/veriftools/tla/tla2tools.jar:/opt/veriftools/tla/CommunityModules-deps.jar"


class ToolError(Exception):
    pass


def seed():
    try:
        return int(os.environ.get("VERIF_SEED", "1"))
    except ValueError:
        return 1


def ensure_dirs():
    for d in (WORK, EVIDENCE, REPLAYS):
        os.makedirs(d, exist_ok=True)


_built = False


def build_harness():
    """(Re)build the harness against /repo's current working tree (hooks on). ~2 s warm."""
    global _built
    if _built:
        return
    ensure_dirs()
    lock = os.path.join(HARNESS, "Cargo.lock")
    if not os.path.exists(lock):
        shutil.copy("/repo/Cargo.lock", lock)
    env = dict(os.environ, CARGO_NET_OFFLINE="true")
    t0 = time.time()
    p = subprocess.run(["cargo", "build", "--offline", "--bins"], cwd=HARNESS, env=env,
                       stdout=subprocess.PIPE, stderr=subprocess.STDOUT, text=True)
    if p.returncode != 0:
        # a stale lock file (dependency set of /repo changed) is the one recoverable cause
        shutil.copy("/repo/Cargo.lock", lock)
        p = subprocess.run(["cargo", "build", "--offline", "--bins"], cwd=HARNESS, env=env,
                           stdout=subprocess.PIPE, stderr=subprocess.STDOUT, text=True)
    if p.returncode != 0:
        sys.stderr.write(p.stdout[-4000:])
        raise ToolError("harness build failed (does /repo still compile with --features verif?)")
    _built = True
    return time.time() - t0


def run_bin(name, args=(), stdin=None, timeout=600, env=None):
    build_harness()
    e = dict(os.environ)
    e["RUST_BACKTRACE"] = "0"
    if env:
        e.update(env)
    p = subprocess.run([os.path.join(BIN, name)] + list(args), input=stdin, stdout=subprocess.PIPE,
                       stderr=subprocess.PIPE, text=True, timeout=timeout, env=e)
    return p


def qrun(programs, timeout=600):
    """programs: list of dicts {"id", "src"| "lines", ...}; returns dict id -> record."""
    inp = "\n".join(json.dumps(p) for p in programs) + "\n"
    p = run_bin("qrun", stdin=inp, timeout=timeout)
    out = {}
    for line in p.stdout.splitlines():
        line = line.strip()
        if line.startswith("{"):
            r = json.loads(line)
            out[r["id"]] = r
    if p.returncode != 0 and len(out) < len(programs):
        # the process died on one program (stack overflow, abort): report which
        missing = [q["id"] for q in programs if q["id"] not in out]
        raise ToolError("qrun died (rc=%s) at program %r: %s" % (p.returncode, missing[:1], p.stderr[-500:]))
    return out


class TlcResult:
    def __init__(self, rc, out, wall):
        self.rc, self.out, self.wall = rc, out, wall
        m = re.search(r"(\d+) states generated, (\d+) distinct states found, (\d+) states left", out)
        self.generated = int(m.group(1)) if m else 0
        self.distinct = int(m.group(2)) if m else 0
        self.left = int(m.group(3)) if m else 0
        m = re.search(r"depth of the complete state graph search is (\d+)", out)
        self.depth = int(m.group(1)) if m else 0
        self.violated = re.findall(r"Error: (?:Invariant|Action property|Temporal property) (\S+) is violated", out)
        if re.search(r"Error: Invariant (\S+) is violated", out) is None and "is violated" in out and not self.violated:
            self.violated = ["?"]
        self.eval_error = ("Error: " in out) and not self.violated and ("No error has been found" not in out)
        self.ok = (rc == 0) and ("No error has been found" in out or "Finished in" in out) and not self.violated and not self.eval_error
        self.prints = re.findall(r"^(<<\"[A-Z]+\".*>>)$", out, re.M)

    def coverage(self):
        """per-action distinct-state counts from `-coverage` output: {action: (count, distinct)}"""
        cov = {}
        for m in re.finditer(r"<(\w+) line \d+, col \d+ to line \d+, col \d+ of module (\w+)(?: \([\d ]+\))?>: (\d+):(\d+)", self.out):
            cov[m.group(2) + "!" + m.group(1)] = (int(m.group(3)), int(m.group(4)))
        return cov


def tlc(module, cfg, env=None, workers=8, timeout=600, simulate=None, depth=None, seed_=None,
        extra=(), xmx="6g", dfs=False, metadir=None, cwd=SPEC, coverage=False):
    ensure_dirs()
    md = metadir or os.path.join(WORK, "tlc_%s_%d" % (module, os.getpid()))
    jopts = ["-XX:+UseParallelGC", "-Xmx" + xmx, "-Xss512m"]
    if dfs:
        jopts.append("-Dtlc2.tool.queue.IStateQueue=StateDeque")
    cmd = ["java"] + jopts + ["-cp", TLA_CP, "tlc2.TLC", "-workers", str(workers), "-metadir", md,
                                "-cleanup", "-noGenerateSpecTE", "-config", cfg]
    if simulate:
        cmd += ["-simulate", simulate]
    if depth:
        cmd += ["-depth", str(depth)]
    if seed_ is not None:
        cmd += ["-seed", str(seed_)]
    if coverage:
        cmd += ["-coverage", "1"]
    cmd += list(extra) + [module + ".tla"]
    e = dict(os.environ)
    if env:
        e.update({k: str(v) for k, v in env.items()})
    t0 = time.time()
    try:
        p = subprocess.run(cmd, cwd=cwd, env=e, stdout=subprocess.PIPE, stderr=subprocess.STDOUT,
                           text=True, timeout=timeout)
    except subprocess.TimeoutExpired as ex:
        shutil.rmtree(md, ignore_errors=True)
        out = ex.stdout.decode() if isinstance(ex.stdout, bytes) else (ex.stdout or "")
        raise ToolError("TLC timeout after %ss on %s (%s)" % (timeout, module, cfg))
    shutil.rmtree(md, ignore_errors=True)
    return TlcResult(p.returncode, p.stdout, time.time() - t0)


# ---------------------------------------------------------------------------
# findings and evidence
# ---------------------------------------------------------------------------
def known_findings():
    path = os.path.join(VERIF, "known_findings.json")
    if not os.path.exists(path):
        return []
    return json.load(open(path)).get("findings", [])


def finding_for(prop, key):
    """An *open* known finding (not a fixed one) matching property and key, or None."""
    for f in known_findings():
        if f.get("status", "open") == "open" and f["property"] == prop and f["key"] == key:
            return f
    return None


class Check:
    """Collects coverage, violations and timing for one property check; writes evidence."""

    def __init__(self, prop, tier, level="model_checking"):
        ensure_dirs()
        self.prop, self.tier, self.level = prop, tier, level
        self.t0 = time.time()
        self.cov = {"states": 0, "transitions": 0, "traces_validated_against_impl": 0, "samples": [],
                    "evaluations": 0, "distinct_nontrivial": 0, "rule": "", "model_drift": 0,
                    "known_findings_seen": [], "engines": {}}
        self.assumptions = []
        self.violations = 0
        self.seen_known = set()

    def add_tlc(self, name, res):
        self.cov["states"] += res.distinct
        self.cov["transitions"] += res.generated
        self.cov["engines"].setdefault(name, {"distinct": 0, "generated": 0, "wall_s": 0.0})
        e = self.cov["engines"][name]
        e["distinct"] += res.distinct
        e["generated"] += res.generated
        e["wall_s"] = round(e["wall_s"] + res.wall, 2)

    def sample(self, s, limit=6):
        if len(self.cov["samples"]) < limit:
            self.cov["samples"].append(s)

    def violation(self, replay_obj, name="replay", key=None, what=""):
        """Report a violation unless it is a listed known finding (then KNOWN-FINDING, once)."""
        if key is not None:
            f = finding_for(self.prop, key)
            if f is not None:
                if key not in self.seen_known:
                    self.seen_known.add(key)
                    self.cov["known_findings_seen"].append(key)
                    print("KNOWN-FINDING: property=%s %s" % (self.prop, f.get("what", key)))
                return False
        os.makedirs(REPLAYS, exist_ok=True)
        h = hashlib.sha1(json.dumps(replay_obj, sort_keys=True).encode()).hexdigest()[:10]
        path = os.path.join(REPLAYS, "%s_%s_%s.json" % (self.prop, name, h))
        with open(path, "w") as f:
            json.dump(replay_obj, f, indent=1)
        self.violations += 1
        if what:
            print("  " + what)
        print("VIOLATION property=%s replay=%s" % (self.prop, path))
        sys.stdout.flush()
        return True

    def finish(self):
        cov = self.cov
        if not cov["rule"]:
            cov["rule"] = "see explanation"
        ev = {"property_id": self.prop, "tier": self.tier, "seed": seed(), "level": self.level,
              "coverage": cov, "assumptions": self.assumptions,
              "wall_s": round(time.time() - self.t0, 2), "violations": self.violations}
        if not cov["samples"]:
            cov["samples"] = ["(no sample recorded)"]
        with open(os.path.join(EVIDENCE, self.prop + ".json"), "w") as f:
            json.dump(ev, f, indent=1, default=str)
        return 1 if self.violations else 0
