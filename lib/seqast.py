"""Abstract syntax of the sequential core of Quiver as evaluated by spec/SeqLang.tla:
constructors, the renderer (AST -> Quiver source), node counts and feature detection.

The shape of every node is documented in the header of spec/SeqLang.tla.  Options are `[]`/`[x]`,
absent names are "".  Nothing here knows what a program evaluates to.
"""
import json

# ---------------------------------------------------------------------------
# constructors
# ---------------------------------------------------------------------------
def Int(n):
    return {"t": "int", "n": n}


def Bin(bs):
    return {"t": "bin", "b": list(bs)}


def Text(s):
    return {"s": "text", "b": list(s.encode())}


def Hole(expr):
    return {"s": "hole", "body": expr}


def Str(*segs):
    """segs: python strings (text) or expr dicts (holes)"""
    out = []
    for s in segs:
        if isinstance(s, str):
            if s:
                out.append(Text(s))
        elif "s" in s:
            out.append(s)
        else:
            out.append(Hole(s))
    return {"t": "str", "segs": out}


def Chain(*terms, pat=None):
    return {"pat": [pat] if pat is not None else [], "terms": list(terms)}


def Field(chain, label=""):
    if "terms" not in chain:
        chain = Chain(chain)
    return {"label": label, "f": "chain", "chain": chain}


def Spread(src=""):
    return {"label": "", "f": "spread", "src": src}


def Tup(name, *fields):
    """fields: Field/Spread dicts, bare terms or chains (unlabelled), or (label, term|chain)"""
    fs = []
    for f in fields:
        if isinstance(f, tuple):
            fs.append(Field(f[1], f[0]))
        elif "f" in f:
            fs.append(f)
        else:
            fs.append(Field(f))
    return {"t": "tuple", "nk": "named" if name else "anon", "name": name, "fields": fs}


def Inherit(src, *fields):
    """`src[..., fields]` (src a variable) or `~[..., fields]` (src == "")"""
    t = Tup("", Spread(src), *fields)
    t["nk"] = "inherit"
    return t


NIL = Tup("")


def Match(pat):
    return {"t": "match", "pat": pat}


def Branch(cond, cons=None):
    return {"cond": cond, "cons": [cons] if cons is not None else []}


def Expr(*branches):
    return {"branches": list(branches)}


def Block(*branches):
    return {"t": "block", "body": Expr(*branches)}


def Fn(param, body=None):
    return {"t": "fn", "param": [param] if param is not None else [], "body": [body] if body is not None else []}


def F(name):
    return {"k": "f", "name": name}


def I(i):
    return {"k": "i", "i": i}


def Access(src, *path, sugar=False):
    t = {"t": "access", "src": src, "path": list(path)}
    if sugar:
        t["sugar"] = True
    return t


def Var(name, *path):
    return Access({"k": "id", "name": name}, *path)


def Param(*path, sugar=False):
    return Access({"k": "param"}, *path, sugar=sugar)


def Ripple(*path):
    return Access({"k": "ripple"}, *path)


def Dot(*path):
    return Access({"k": "none"}, *path)


def Builtin(name):
    return Access({"k": "builtin", "name": name})


def Tail(name=""):
    return Access({"k": "tail", "name": name})


TAILRIPPLE = Access({"k": "tailripple"})


def Ref(name, *path):
    return {"t": "ref", "src": {"k": "id", "name": name}, "path": list(path)}


def RefBuiltin(name):
    return {"t": "ref", "src": {"k": "builtin", "name": name}, "path": []}


# patterns
def PId(name):
    return {"p": "id", "name": name}


PWILD = {"p": "wild"}


def PInt(n):
    return {"p": "int", "n": n}


def PBin(bs):
    return {"p": "bin", "b": list(bs)}


def PStr(s):
    return {"p": "str", "b": list(s.encode())}


def PTup(name, *fields):
    fs = []
    for f in fields:
        if isinstance(f, tuple):
            fs.append({"label": f[0], "pat": f[1]})
        else:
            fs.append({"label": "", "pat": f})
    return {"p": "tuple", "name": name, "fields": fs}


PNIL = PTup("")


def PPartial(name, *fields):
    fs = []
    for f in fields:
        if isinstance(f, tuple):
            fs.append({"label": f[0], "pat": [f[1]]})
        else:
            fs.append({"label": f, "pat": []})
    return {"p": "partial", "name": name, "fields": fs}


def PStar(name=""):
    return {"p": "star", "name": name}


def PPin(name):
    return {"p": "pin", "name": name}


def PType(t):
    return {"p": "type", "type": t}


def POr(*alts):
    return {"p": "or", "alts": list(alts)}


def PAs(t, name):
    return {"p": "as", "type": t, "name": name}


# types
TINT = {"y": "int"}
TBIN = {"y": "bin"}


def TTup(name, *fields, partial=False):
    fs = []
    for f in fields:
        if isinstance(f, tuple):
            fs.append({"label": f[0], "type": f[1]})
        else:
            fs.append({"label": "", "type": f})
    return {"y": "tuple", "name": name, "partial": partial, "fields": fs}


TNIL = TTup("")
TSTR = TTup("Str", TBIN)


def TUnion(*types):
    return {"y": "union", "types": list(types)}


def TAlias(name):
    return {"y": "alias", "name": name}


TCYCLE = {"y": "cycle"}


def TFn(par, ret):
    return {"y": "fn", "par": par, "ret": ret}


def Program(steps, aliases=()):
    return {"aliases": [{"name": n, "type": t} for n, t in aliases], "steps": list(steps)}


# ---------------------------------------------------------------------------
# rendering
# ---------------------------------------------------------------------------
def _esc(bs, pattern=False):
    out = []
    for ch in bytes(bs).decode("utf-8"):
        if ch == "\n":
            out.append("\\n")
        elif ch == "\t":
            out.append("\\t")
        elif ch == "\r":
            out.append("\\r")
        elif ch == "\\":
            out.append("\\\\")
        elif ch == '"':
            out.append('\\"')
        elif ch == "{" and not pattern:
            out.append("\\{")
        else:
            out.append(ch)
    return "".join(out)


def r_type(t, top=False):
    y = t["y"]
    if y == "int":
        return "'int"
    if y == "bin":
        return "'bin"
    if y == "alias":
        return "'" + t["name"]
    if y == "cycle":
        return "^"
    if y == "union":
        s = " | ".join(r_type(x) for x in t["types"])
        return s if top else "(" + s + ")"
    if y == "fn":
        s = "#%s -> %s" % (r_type(t["par"]), r_type(t["ret"]))
        return s if top else "(" + s + ")"
    if y == "tuple":
        fs = ", ".join((f["label"] + ": " if f["label"] else "") + r_type(f["type"]) for f in t["fields"])
        if t["partial"]:
            return "%s(%s)" % (t["name"], fs)
        if not t["fields"]:
            return t["name"] or "[]"
        return "%s[%s]" % (t["name"], fs)
    raise ValueError("type " + json.dumps(t))


def r_pat(p):
    k = p["p"]
    if k == "id":
        return p["name"]
    if k == "wild":
        return "_"
    if k == "int":
        return str(p["n"])
    if k == "bin":
        return "0x" + bytes(p["b"]).hex()
    if k == "str":
        return '"' + _esc(p["b"], pattern=True) + '"'
    if k == "tuple":
        if not p["fields"]:
            return p["name"] or "[]"
        fs = ", ".join((f["label"] + ": " if f["label"] else "") + r_pat(f["pat"]) for f in p["fields"])
        return "%s[%s]" % (p["name"], fs)
    if k == "partial":
        fs = ", ".join(f["label"] + (": " + r_pat(f["pat"][0]) if f["pat"] else "") for f in p["fields"])
        return "%s(%s)" % (p["name"], fs)
    if k == "star":
        return p["name"] + "*"
    if k == "pin":
        return "&" + p["name"]
    if k == "type":
        return r_type(p["type"])
    if k == "or":
        return "(" + " | ".join(r_pat(a) for a in p["alts"]) + ")"
    if k == "as":
        t = r_type(p["type"])
        if not (t.startswith("(") and t.endswith(")") and p["type"]["y"] in ("union", "fn")):
            t = "(" + t + ")"
        return t + p["name"]
    raise ValueError("pattern " + json.dumps(p))


def r_path(path):
    return "".join("." + (a["name"] if a["k"] == "f" else str(a["i"])) for a in path)


def r_src(t):
    s = t["src"]
    k = s["k"]
    path = t["path"]
    if k == "id":
        return s["name"] + r_path(path)
    if k == "param":
        if t.get("sugar") and path:
            return "$" + r_path(path)[1:]
        return "$" + r_path(path)
    if k == "ripple":
        return "~" + r_path(path)
    if k == "none":
        return r_path(path)
    if k == "builtin":
        return s["name"] + r_path(path)
    if k == "tail":
        return "^" + s["name"] + r_path(path)
    if k == "tailripple":
        return "^~"
    raise ValueError("src " + json.dumps(s))


def r_field(f, inherit_first=False):
    if f["f"] == "spread":
        return "..." if inherit_first else "..." + f["src"]
    return (f["label"] + ": " if f["label"] else "") + r_chain(f["chain"])


def r_term(t):
    k = t["t"]
    if k == "int":
        return str(t["n"])
    if k == "bin":
        return "0x" + bytes(t["b"]).hex()
    if k == "str":
        out = []
        for s in t["segs"]:
            if s["s"] == "text":
                out.append(_esc(s["b"]))
            else:
                out.append("{" + r_expr(s["body"]) + "}")
        return '"' + "".join(out) + '"'
    if k == "tuple":
        fields = t["fields"]
        if t["nk"] == "inherit":
            src = fields[0]["src"]
            head = src if src else "~"
            return "%s[%s]" % (head, ", ".join(r_field(f, i == 0) for i, f in enumerate(fields)))
        if not fields:
            return t["name"] or "[]"
        return "%s[%s]" % (t["name"], ", ".join(r_field(f) for f in fields))
    if k == "match":
        return "=" + r_pat(t["pat"])
    if k == "block":
        return "{ " + r_expr(t["body"]) + " }"
    if k == "fn":
        s = "#"
        if t["param"]:
            s += r_type(t["param"][0])
        if t["body"]:
            s += (" " if t["param"] else "") + "{ " + r_expr(t["body"][0]) + " }"
        return s
    if k == "access":
        return r_src(t)
    if k == "ref":
        return "&" + r_src(t)
    raise ValueError("term " + json.dumps(t))


def r_chain(c):
    s = " ".join(r_term(t) for t in c["terms"])
    if c["pat"]:
        return r_pat(c["pat"][0]) + " = " + s
    return s


def r_seq(chains, sep=", "):
    return sep.join(r_chain(c) for c in chains)


def r_expr(e):
    bs = []
    for b in e["branches"]:
        s = r_seq(b["cond"])
        if b["cons"]:
            s += " => " + r_seq(b["cons"][0])
        bs.append(s)
    if len(bs) > 1:
        return "| " + " | ".join(bs)
    return bs[0]


def render(prog):
    """AST -> Quiver source.  Spacing matters: `x = e` is a binding, `e =x` an in-chain match."""
    parts = ["'%s = %s" % (a["name"], r_type(a["type"], top=True)) for a in prog["aliases"]]
    parts += [r_chain(c) for c in prog["steps"]]
    sep = prog.get("sep", ", ")
    return sep.join(parts)


# ---------------------------------------------------------------------------
# measurements
# ---------------------------------------------------------------------------
def walk(node, fn, parent=None):
    """pre-order walk over every dict of an AST"""
    if isinstance(node, dict):
        fn(node, parent)
        for v in node.values():
            walk(v, fn, node)
    elif isinstance(node, list):
        for v in node:
            walk(v, fn, parent)


def node_count(prog):
    n = [0]

    def f(d, _):
        if "t" in d or "p" in d or "terms" in d:
            n[0] += 1
    walk(prog, f)
    return n[0]


PATTERN_FEATURES = {"wild": "pat_placeholder", "int": "pat_literal", "bin": "pat_literal", "str": "pat_string",
                    "tuple": "pat_tuple", "partial": "pat_partial", "star": "pat_star", "pin": "pat_pin",
                    "type": "pat_type", "or": "pat_alternation", "as": "pat_ascription"}


def _binders(p, out):
    k = p["p"]
    if k in ("id", "as"):
        out.append(p["name"])
    elif k == "tuple":
        for f in p["fields"]:
            _binders(f["pat"], out)
    elif k == "partial":
        for f in p["fields"]:
            if f["pat"]:
                _binders(f["pat"][0], out)
            else:
                out.append(f["label"])
    elif k == "or":
        _binders(p["alts"][0], out)


def features(prog):
    """The set of structural features of the property's list that a program exercises."""
    fs = set()
    if prog["aliases"]:
        fs.add("type_alias")
    if len(prog["steps"]) > 1:
        fs.add("sequence")

    def f(d, parent):
        if "terms" in d:
            if len(d["terms"]) > 1:
                fs.add("chain_flow")
            if d["pat"]:
                fs.add("binding")
        if "cond" in d:
            if d["cons"]:
                fs.add("consequence")
            if len(d["cond"]) > 1 or (d["cons"] and len(d["cons"][0]) > 1):
                fs.add("sequence")
        if "branches" in d and len(d["branches"]) > 1:
            fs.add("branches")
        t = d.get("t")
        if t == "block":
            fs.add("block")
            inner = [0]

            def g(x, _):
                if x.get("t") == "block":
                    inner[0] += 1
            walk(d["body"], g)
            if inner[0]:
                fs.add("nested_block")
        elif t == "str":
            fs.add("string")
            if any(s["s"] == "hole" for s in d["segs"]):
                fs.add("string_hole")
        elif t == "tuple":
            fs.add("tuple")
            if any(x["f"] == "spread" for x in d["fields"]):
                fs.add("spread")
            for x in d["fields"]:
                if x["f"] == "chain":
                    def h(y, _):
                        if y.get("t") == "access" and y["src"]["k"] in ("ripple", "none"):
                            fs.add("flow_into_field")
                    walk(x["chain"]["terms"][:1], h)
        elif t == "match":
            fs.add("match")
        elif t == "fn":
            fs.add("function")
            if not d["body"]:
                fs.add("identity_function")
            elif not d["param"] or (d["param"][0]["y"] == "tuple" and not d["param"][0]["fields"]
                                    and not d["param"][0]["name"] and not d["param"][0]["partial"]):
                fs.add("nilary_function")
            if d["body"]:
                def inner_fn(y, _):
                    if y.get("t") == "fn":
                        fs.add("nested_function")
                walk(d["body"], inner_fn)
        elif t == "ref":
            fs.add("reference")
        elif t == "access":
            k = d["src"]["k"]
            if k in ("tail", "tailripple"):
                fs.add("tail_call")
            elif k == "param":
                fs.add("parameter")
            elif k == "builtin":
                fs.add("builtin")
            elif k == "ripple" and not d["path"]:
                fs.add("ripple")
            if d["path"]:
                fs.add("field_access")
        p = d.get("p")
        if p in PATTERN_FEATURES:
            fs.add(PATTERN_FEATURES[p])
        if p in ("tuple", "partial", "or") or ("pat" in d and "terms" in d and d["pat"]) or t == "match":
            root = d if p else (d["pat"][0] if "terms" in d else d["pat"])
            if parent is None or not parent.get("p"):
                b = []
                _binders(root, b)
                if len(b) != len(set(b)):
                    fs.add("repeated_binder")
    walk(prog, f)
    return fs


# features that count towards "non-trivial" (the list in the property text)
LISTED = {"chain_flow", "sequence", "block", "branches", "consequence", "nested_block", "tuple", "spread",
          "field_access", "function", "reference", "nested_function", "tail_call", "string", "string_hole",
          "flow_into_field", "pat_tuple", "pat_partial", "pat_star", "pat_pin", "pat_type", "pat_alternation",
          "pat_ascription", "pat_literal", "pat_string", "pat_placeholder", "repeated_binder", "binding", "match",
          "nilary_function", "identity_function", "parameter", "builtin", "type_alias"}
