"""C02 - compiled execution agrees with the language's reference semantics.

The oracle is spec/SeqLang.tla (a big-step evaluator of the documented sequential core, written in
TLA+); spec/SeqLangTrace.tla lets TLC judge records of REAL runs against it.  Python only moves
data: it generates programs as abstract syntax (lib/seqgen.py), renders them to Quiver source
(lib/seqast.py), runs the source through the real compiler + VM (common.qrun) and hands
{id, ast, outcome} records to TLC, which checks `outcome \\in Eval(ast)`.

Three sources of programs:
  (a) a seeded, type-directed generator crossing the features named by the property;
  (b) an exhaustive tiny-scope enumeration (every program up to a small size over a tiny grammar);
  (c) the in-core part of the test-suite sources and the docs/spec.md examples: parsed by the REAL
      parser (harness bin `astdump`), so the specification judges arbitrary source text.

Reusable pieces (C01, C10, C11, C13 use them): generate_programs(seed, n, features),
render(ast), run_real(programs), judge(records).

Environment: SEQ_N (number of generated programs, overrides the tier), SEQ_BATCH (records per TLC
run, default 1500), SEQ_KEEP=1 (keep the trace files under work/seqlang).
"""
import concurrent.futures
import json
import os
import re
import time

import common
import seqast
from seqast import render  # noqa: F401  (part of the interface)

WORKDIR = os.path.join(common.WORK, "seqlang")
MISMATCH_PREFIX = '<<"MISMATCH", '
SKIP_PREFIX = '<<"SKIP", '
INT_LIMIT = 100000000

RULE = ("for every program p of the sequential core (generated, enumerated or taken from the test-suite / "
        "spec.md corpus) that the compiler accepts: the outcome of compiling and running p (structural value, "
        "or error class) is a member of Eval(ast(p)) as defined by spec/SeqLang.tla - chains are infallible "
        "pipes, sequences short-circuit on nil, a match evaluates to Ok/[] and binds, branches fall through on "
        "nil while `=>` commits, blocks scope their bindings and restart every branch from the block parameter, "
        "tuple fields and string holes receive the flowing value left to right, spreads override in place, "
        "callable variables are called (nilary ones with nil), closures capture the scope of their literal, "
        "`^` makes the callee's result the result of the enclosing function, division by zero is the documented "
        "DomainError.  Judged by TLC (SeqLangTrace.tla); programs on which the specification is undefined or "
        "exceeds its fuel bound are not judged.")


# ---------------------------------------------------------------------------
# real runs
# ---------------------------------------------------------------------------
def _norm_value(v):
    """qrun's value -> the form Show() of SeqLang.tla produces; None if outside the modelled range"""
    k = v.get("k")
    if k == "int":
        return v if abs(v["n"]) <= INT_LIMIT else None
    if k in ("bin", "nil"):
        return v
    if k == "tup":
        fs = []
        for x in v["fs"]:
            y = _norm_value(x)
            if y is None:
                return None
            fs.append(y)
        return {"k": "tup", "name": v["name"], "fs": fs}
    if k == "fn":
        return {"k": "fn"}
    return None  # bigint, pid, ref, ...: outside the core


def norm_outcome(rec):
    """one qrun record -> the `outcome` of a trace record, or ("rejected", msg) / ("unmodelled", why)"""
    if rec.get("crashes"):
        return {"t": "crash"}
    o = rec["outcomes"][-1]
    t = o["t"]
    if t == "rejected":
        return ("rejected", o.get("m", ""))
    if t == "value":
        v = _norm_value(o["v"])
        if v is None:
            return ("unmodelled", "value outside the modelled range")
        return {"t": "value", "v": v}
    if t == "error":
        return {"t": "error", "e": o["e"]}
    if t == "none":
        return {"t": "none"}
    return {"t": t}


def run_real(programs, chunk=400, procs=8):
    """programs: [{"id", "src"}] -> {id: qrun record}; batches run in parallel processes"""
    common.build_harness()
    chunks = [programs[i:i + chunk] for i in range(0, len(programs), chunk)]
    out = {}

    def one(c):
        try:
            return common.qrun(c)
        except common.ToolError:
            # the process died on one program (stack overflow / abort): isolate it
            res = {}
            for p in c:
                try:
                    res.update(common.qrun([p]))
                except common.ToolError as e:
                    res[p["id"]] = {"id": p["id"], "outcomes": [{"t": "died"}], "crashes": [str(e)[:200]]}
            return res
    with concurrent.futures.ThreadPoolExecutor(max_workers=procs) as ex:
        for r in ex.map(one, chunks):
            out.update(r)
    return out


def astdump(sources):
    """sources: [{"id","src"}] -> {id: {"ast"|"skip"|"parse_error"}} using the REAL parser"""
    inp = "\n".join(json.dumps(s) for s in sources) + "\n"
    p = common.run_bin("astdump", stdin=inp)
    out = {}
    for line in p.stdout.splitlines():
        if line.startswith("{"):
            r = json.loads(line)
            out[r["id"]] = r
    if p.returncode != 0:
        raise common.ToolError("astdump failed: " + p.stderr[-300:])
    return out


# ---------------------------------------------------------------------------
# the judge
# ---------------------------------------------------------------------------
def _unquote_print(line, prefix):
    body = line[len(prefix):-2].strip()
    # TLC prints the JSON text as a TLA+ string: "...", with \" and \\ escapes
    return json.loads(json.loads(body))


def judge(records, check=None, name="SeqLangTrace", batch=None, timeout=900, module="SeqLangTrace"):
    """records: [{"id", "ast", "outcome"}] -> (mismatches, skipped, stats)

    mismatches: [{"id", "exp": [admissible outcomes], "obs": outcome}] as decided by TLC;
    skipped: {id: why} for records the specification does not judge (undefined / diverges)."""
    os.makedirs(WORKDIR, exist_ok=True)
    batch = batch or int(os.environ.get("SEQ_BATCH", "1500"))
    mismatches, skipped = [], {}
    stats = {"records": 0, "tlc_wall_s": 0.0, "runs": 0}
    for b0 in range(0, len(records), batch):
        part = records[b0:b0 + batch]
        path = os.path.join(WORKDIR, "trace_%s_%d_%d.ndjson" % (name, os.getpid(), b0))
        with open(path, "w") as f:
            for r in part:
                f.write(json.dumps({"id": r["id"], "ast": r["ast"], "outcome": r["outcome"]}) + "\n")
        res = common.tlc(module, "SeqLangTrace.cfg", env={"SEQ_TRACE": path}, workers=8, timeout=timeout,
                         metadir=os.path.join(common.WORK, "tlc_%s_%d_%d" % (name, os.getpid(), b0)))
        if check is not None:
            check.add_tlc(name, res)
        stats["tlc_wall_s"] += res.wall
        stats["runs"] += 1
        nchunks = (len(part) + 99) // 100
        if not res.ok or res.distinct != 1 + nchunks + len(part):
            tail = "\n".join(res.out.splitlines()[-25:])
            raise common.ToolError("TLC did not judge every record of %s (distinct=%d, expected %d):\n%s"
                                   % (path, res.distinct, 1 + nchunks + len(part), tail))
        for line in res.out.splitlines():
            if line.startswith(MISMATCH_PREFIX):
                mismatches.append(_unquote_print(line, MISMATCH_PREFIX))
            elif line.startswith(SKIP_PREFIX):
                s = _unquote_print(line, SKIP_PREFIX)
                skipped[s["id"]] = s["why"]
        stats["records"] += len(part)
        if not os.environ.get("SEQ_KEEP"):
            os.remove(path)
    return mismatches, skipped, stats


def build_records(programs, real):
    """programs: [{"id","ast","src",..}], real: {id: qrun record} -> (records, rejected, unmodelled)"""
    records, rejected, unmodelled = [], {}, {}
    for p in programs:
        o = norm_outcome(real[p["id"]])
        if isinstance(o, tuple):
            (rejected if o[0] == "rejected" else unmodelled)[p["id"]] = o[1]
            continue
        records.append({"id": p["id"], "ast": p["ast"], "outcome": o})
    return records, rejected, unmodelled
