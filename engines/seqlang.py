"""C02 - compiled execution agrees with the language's reference semantics.

The oracle is spec/SeqLang.tla (a big-step evaluator of the documented sequential core, written in
TLA+); spec/SeqLangTrace.tla lets TLC judge records of REAL runs against it.  Python only moves
data: it generates programs as abstract syntax (lib/seqgen.py), renders them to Quiver source
(lib/seqast.py), runs the source through the real compiler + VM (common.qrun) and hands
{id, ast, outcome} records to TLC, which checks `outcome \\in Eval(ast)`.

Three sources of programs:
  (a) a seeded, type-directed generator crossing the features named by the property;
  (b) an exhaustive tiny-scope enumeration (every program up to a small size over a tiny grammar);
  (c) the in-core part of the test-suite sources and the docs/spec.md examples: parsed by the REAL
      parser (harness bin `astdump`), so the specification judges arbitrary source text.

Reusable pieces (C01, C10, C11, C13 use them): generate_programs(seed, n, features),
render(ast), run_real(programs), judge(records).

The abstract syntax handed to TLC is what the REAL parser makes of the rendered text (adopt_parser_ast),
so a record is by construction the syntax of the very text that was run.

A disagreement is first attributed (classify) to the open findings of /verif/known_findings.json: by a
syntactic trigger, by re-running an equivalent rewriting on the real implementation (wrap_binders) or by
asking TLC whether the observation is what the specification computes for the defect's variant of the
program (inherit_variants, noinput_variant).  Only what is left prints VIOLATION.

quick: corpus + every tiny program (<= 5 nodes, focused grammar <= 6) + 2400 generated, about 45 s;
thorough: tiny <= 6 / <= 7 and 50 000 generated.  Self-test (errors seeded on the SPECIFICATION side,
/repo untouched): engines/seqlang_selftest.py.

Environment: SEQ_N (number of generated programs, overrides the tier), SEQ_BATCH (records per TLC
run, default 1500), SEQ_KEEP=1 (keep the trace files under work/seqlang).
"""
import concurrent.futures
import json
import os
import re
import time

import common
import seqast
from seqast import render  # noqa: F401  (part of the interface)

WORKDIR = os.path.join(common.WORK, "seqlang")
MISMATCH_PREFIX = '<<"MISMATCH", '
SKIP_PREFIX = '<<"SKIP", '
INT_LIMIT = 100000000

RULE = ("for every program p of the sequential core (generated, enumerated or taken from the test-suite / "
        "spec.md corpus) that the compiler accepts: the outcome of compiling and running p (structural value, "
        "or error class) is a member of Eval(ast(p)) as defined by spec/SeqLang.tla - chains are infallible "
        "pipes, sequences short-circuit on nil, a match evaluates to Ok/[] and binds, branches fall through on "
        "nil while `=>` commits, blocks scope their bindings and restart every branch from the block parameter, "
        "tuple fields and string holes receive the flowing value left to right, spreads override in place, "
        "callable variables are called (nilary ones with nil), closures capture the scope of their literal, "
        "`^` makes the callee's result the result of the enclosing function, division by zero is the documented "
        "DomainError.  Judged by TLC (SeqLangTrace.tla); programs on which the specification is undefined or "
        "exceeds its fuel bound are not judged.")


# ---------------------------------------------------------------------------
# real runs
# ---------------------------------------------------------------------------
def _norm_value(v):
    """qrun's value -> the form Show() of SeqLang.tla produces; None if outside the modelled range"""
    k = v.get("k")
    if k == "int":
        return v if abs(v["n"]) <= INT_LIMIT else None
    if k in ("bin", "nil"):
        return v
    if k == "tup":
        fs = []
        for x in v["fs"]:
            y = _norm_value(x)
            if y is None:
                return None
            fs.append(y)
        return {"k": "tup", "name": v["name"], "fs": fs}
    if k == "fn":
        return {"k": "fn"}
    return None  # bigint, pid, ref, ...: outside the core


def norm_outcome(rec):
    """one qrun record -> the `outcome` of a trace record, or ("rejected", msg) / ("unmodelled", why)"""
    if rec.get("crashes"):
        return {"t": "crash"}
    o = rec["outcomes"][-1]
    t = o["t"]
    if t == "rejected":
        return ("rejected", o.get("m", ""))
    if t == "value":
        v = _norm_value(o["v"])
        if v is None:
            return ("unmodelled", "value outside the modelled range")
        return {"t": "value", "v": v}
    if t == "error":
        return {"t": "error", "e": o["e"]}
    if t == "none":
        return {"t": "none"}
    return {"t": t}


def run_real(programs, chunk=400, procs=8):
    """programs: [{"id", "src"}] -> {id: qrun record}; batches run in parallel processes"""
    common.build_harness()
    chunks = [programs[i:i + chunk] for i in range(0, len(programs), chunk)]
    out = {}

    def one(c):
        try:
            return common.qrun(c)
        except common.ToolError:
            # the process died on one program (stack overflow / abort): isolate it
            res = {}
            for p in c:
                try:
                    res.update(common.qrun([p]))
                except common.ToolError as e:
                    res[p["id"]] = {"id": p["id"], "outcomes": [{"t": "died"}], "crashes": [str(e)[:200]]}
            return res
    with concurrent.futures.ThreadPoolExecutor(max_workers=procs) as ex:
        for r in ex.map(one, chunks):
            out.update(r)
    return out


def astdump(sources):
    """sources: [{"id","src"}] -> {id: {"ast"|"skip"|"parse_error"}} using the REAL parser"""
    inp = "\n".join(json.dumps(s) for s in sources) + "\n"
    p = common.run_bin("astdump", stdin=inp)
    out = {}
    for line in p.stdout.splitlines():
        if line.startswith("{"):
            r = json.loads(line)
            out[r["id"]] = r
    if p.returncode != 0:
        raise common.ToolError("astdump failed: " + p.stderr[-300:])
    return out


# ---------------------------------------------------------------------------
# the judge
# ---------------------------------------------------------------------------
def _unquote_print(line, prefix):
    body = line[len(prefix):-2].strip()
    # TLC prints the JSON text as a TLA+ string: "...", with \" and \\ escapes
    return json.loads(json.loads(body))


def judge(records, check=None, name="SeqLangTrace", batch=None, timeout=900, module="SeqLangTrace", cwd=None):
    """records: [{"id", "ast", "outcome"}] -> (mismatches, skipped, stats)

    mismatches: [{"id", "exp": [admissible outcomes], "obs": outcome}] as decided by TLC;
    skipped: {id: why} for records the specification does not judge (undefined / diverges)."""
    os.makedirs(WORKDIR, exist_ok=True)
    batch = batch or int(os.environ.get("SEQ_BATCH", "1500"))
    mismatches, skipped = [], {}
    stats = {"records": 0, "tlc_wall_s": 0.0, "runs": 0}
    for b0 in range(0, len(records), batch):
        part = records[b0:b0 + batch]
        path = os.path.join(WORKDIR, "trace_%s_%d_%d.ndjson" % (name, os.getpid(), b0))
        with open(path, "w") as f:
            for r in part:
                f.write(json.dumps({"id": r["id"], "ast": r["ast"], "outcome": r["outcome"]}) + "\n")
        res = common.tlc(module, "SeqLangTrace.cfg", env={"SEQ_TRACE": path}, workers=8, timeout=timeout,
                         metadir=os.path.join(common.WORK, "tlc_%s_%d_%d" % (name, os.getpid(), b0)),
                         cwd=cwd or common.SPEC)
        if check is not None:
            check.add_tlc(name, res)
        stats["tlc_wall_s"] += res.wall
        stats["runs"] += 1
        nchunks = (len(part) + 99) // 100
        if not res.ok or res.distinct != 1 + nchunks + len(part):
            tail = "\n".join(res.out.splitlines()[-25:])
            raise common.ToolError("TLC did not judge every record of %s (distinct=%d, expected %d):\n%s"
                                   % (path, res.distinct, 1 + nchunks + len(part), tail))
        for line in res.out.splitlines():
            if line.startswith(MISMATCH_PREFIX):
                mismatches.append(_unquote_print(line, MISMATCH_PREFIX))
            elif line.startswith(SKIP_PREFIX):
                s = _unquote_print(line, SKIP_PREFIX)
                skipped[s["id"]] = s["why"]
        stats["records"] += len(part)
        if not os.environ.get("SEQ_KEEP"):
            os.remove(path)
    return mismatches, skipped, stats


def build_records(programs, real):
    """programs: [{"id","ast","src",..}], real: {id: qrun record} -> (records, rejected, unmodelled)"""
    records, rejected, unmodelled = [], {}, {}
    for p in programs:
        o = norm_outcome(real[p["id"]])
        if isinstance(o, tuple):
            (rejected if o[0] == "rejected" else unmodelled)[p["id"]] = o[1]
            continue
        records.append({"id": p["id"], "ast": p["ast"], "outcome": o})
    return records, rejected, unmodelled


# ---------------------------------------------------------------------------
# program sources
# ---------------------------------------------------------------------------
import collections
import glob

import seqgen
from seqgen import generate_programs  # noqa: F401  (part of the interface)


def _rust_strings(text):
    out = []
    for m in re.finditer(r'evaluate\(\s*(?:&\w+\(\s*)?(r#"(.*?)"#|"((?:[^"\\]|\\.)*)")', text, re.S):
        if m.group(2) is not None:
            out.append(m.group(2))
        else:
            s = re.sub(r'\\\n\s*', '', m.group(3))
            try:
                out.append(json.loads('"' + s.replace("\n", "\\n") + '"'))
            except ValueError:
                continue
    return out


def _toplevel_tail(node):
    if isinstance(node, list):
        return any(_toplevel_tail(x) for x in node)
    if not isinstance(node, dict):
        return False
    if node.get("t") == "fn":
        return False
    if node.get("t") == "access" and node["src"]["k"] in ("tail", "tailripple"):
        return True
    return any(_toplevel_tail(v) for v in node.values())


def corpus_programs():
    """the in-core part of the test-suite sources and of the docs/spec.md examples, parsed by the REAL
    parser (astdump).  Returns (programs, why_not: Counter of reasons for leaving a source out)."""
    srcs = []
    for fn in sorted(glob.glob("/repo/quiver-tests/tests/*.rs")):
        for s in _rust_strings(open(fn).read()):
            srcs.append((os.path.basename(fn), s))
    md = open("/repo/docs/spec.md").read()
    for m in re.finditer(r"```quiver\n(.*?)```", md, re.S):
        block = m.group(1)
        srcs.append(("spec.md", block))
        for line in block.splitlines():
            line = re.sub(r"\s*//.*$", "", line).strip()
            if line:
                srcs.append(("spec.md:line", line))
    import extra_sources
    srcs += [("verif:extra_sources", x) for x in extra_sources.EXTRA_SOURCES]
    seen, progs = set(), []
    for f, s in srcs:
        if s in seen:
            continue
        seen.add(s)
        progs.append({"id": "c%d" % len(progs), "src": s, "from": f, "tags": ["corpus"], "known": None})
    asts = astdump(progs)
    out, why = [], collections.Counter()
    for p in progs:
        a = asts.get(p["id"], {})
        if "ast" not in a:
            why[a.get("skip") or "parse error"] += 1
            continue
        if not a["ast"]["steps"]:
            why["no value-producing statement"] += 1
            continue
        if _toplevel_tail(a["ast"]["steps"]):
            why["tail call outside a function"] += 1       # (loops for ~30 s: known finding of C07)
            continue
        p["ast"] = a["ast"]
        p["known"] = seqgen.known_pattern(p["ast"])
        out.append(p)
    return out, why


def _same_ast(gen, parsed):
    want = json.loads(json.dumps(gen))
    want.pop("sep", None)

    def strip(d, _):
        d.pop("sugar", None)
    seqast.walk(want, strip)
    return want == parsed


def adopt_parser_ast(programs, stats=None):
    """Replace the generator's abstract syntax by what the REAL parser makes of the rendered text, so
    that the record handed to TLC is by construction the syntax of the very text that was run (a
    renderer slip can then change WHAT is tested, never produce a false verdict).  Programs the parser
    refuses or that fall outside the core are dropped.  Counts how often the two differ (the parser
    has canonical choices, e.g. `=A['int]` is a tuple pattern with a type field, `([] | Ok)` a type)."""
    parsed = astdump([{"id": p["id"], "src": p["src"]} for p in programs])
    keep = []
    for p in programs:
        a = parsed.get(p["id"], {})
        if "ast" not in a or not a["ast"]["steps"]:
            if stats is not None:
                stats["unparsed"] += 1
            continue
        if stats is not None and not _same_ast(p["ast"], a["ast"]):
            stats["parser_ast_differs"] += 1
        p["gen_ast"], p["ast"] = p["ast"], a["ast"]
        p["known"] = seqgen.known_pattern(p["ast"])
        keep.append(p)
    return keep


# ---------------------------------------------------------------------------
# attribution of a disagreement to a known finding
# ---------------------------------------------------------------------------
def classify(mismatches, byid):
    """{mismatch id: key of the known finding that explains it, or None}.

    pin-and-rebind-same-name / tail-call-inside-tuple-field: the syntactic trigger is in the program and
    the observation has the shape the defect produces.  bound-variable-loses-nil: the disagreement
    disappears when the program is rewritten into the equivalent form that the compiler's unsound
    narrowing does not apply to (seqgen.wrap_binders) - decided by re-running the REAL implementation.
    inherit-spread-union-drops-name: the observation is what the SPECIFICATION computes when some of the
    name-inheriting spreads lose their name (seqgen.inherit_variants) - decided by TLC.
    spread-tuple-fields-get-no-flowing-value: likewise for the program in which the fields of tuple
    literals containing a spread receive nil / are not applied (seqgen.noinput_variant)."""
    keys = {}
    pending = []
    for m in mismatches:
        p = byid[m["id"]]
        obs = m["obs"]
        k = seqgen.known_pattern(p["ast"])
        if k == "pin-and-rebind-same-name" and obs == {"t": "error", "e": "VariableUndefined"}:
            keys[m["id"]] = k
        elif k == "tail-call-inside-tuple-field" and obs.get("t") == "value":
            keys[m["id"]] = k
        elif k == "star-on-union-then-failing-branch" and obs == {"t": "error", "e": "VariableUndefined"}:
            keys[m["id"]] = k
        elif k in ("captured-member-access-ignores-shadowing", "match-on-verdict-narrows-source-variable"):
            keys[m["id"]] = k
            pending.append(m)          # a more specific attribution (re-run / TLC variants) takes precedence
        else:
            keys[m["id"]] = None
            pending.append(m)
    if not pending:
        return keys
    # (b) the equivalent rewriting, run by the real implementation
    wrapped = {}
    for m in pending:
        w, changed = seqgen.wrap_binders(byid[m["id"]]["ast"])
        if changed:
            try:
                seqast.render(w)
            except ValueError:      # (a generic function of the corpus: its type variables cannot be rendered)
                continue
            wrapped[m["id"]] = w
    real = run_real([{"id": i, "src": seqast.render(w)} for i, w in wrapped.items()]) if wrapped else {}
    variants = []
    for m in pending:
        i = m["id"]
        cands = [(byid[i]["ast"], m["obs"])]
        if i in wrapped:
            o = norm_outcome(real[i])
            if not isinstance(o, tuple):
                if o in m["exp"]:
                    keys[i] = "bound-variable-loses-nil"
                    continue
                cands.append((wrapped[i], o))
        if keys.get(i) is not None:
            continue
        for ci, (prog, ob) in enumerate(cands):
            ni = seqgen.noinput_variant(prog)
            for bi, base in enumerate([prog] + ([ni] if ni is not None else [])):
                vs = ([base] if bi == 1 else []) + seqgen.inherit_variants(base)
                for vi, v in enumerate(vs):
                    variants.append({"id": "%s|%d|%d|%d" % (i, ci, bi, vi), "ast": v, "outcome": ob})
    if variants:
        mm, sk, _ = judge(variants, name="SeqLangTrace_classify")
        unexplained = {x["id"] for x in mm} | set(sk)
        for v in variants:
            if v["id"] not in unexplained:
                i, _, bi, _ = v["id"].rsplit("|", 3)
                if keys.get(i) is None or bi == "0":
                    keys[i] = ("spread-tuple-fields-get-no-flowing-value" if bi == "1"
                               else "inherit-spread-union-drops-name")
    return keys


# ---------------------------------------------------------------------------
# the check
# ---------------------------------------------------------------------------
def check_programs(check, programs, label, stats):
    """run, judge and report one group of programs; returns the list of unexplained mismatches"""
    if label != "corpus":
        for p in programs:
            p["src"] = seqast.render(p["ast"])
        g0 = stats["groups"].setdefault(label, collections.Counter())
        n0 = len(programs)
        programs = adopt_parser_ast(programs, g0)
        g0["proposed"] += n0 - len(programs)
    t0 = time.time()
    real = run_real(programs)
    stats["run_s"] += time.time() - t0
    records, rejected, unmodelled = build_records(programs, real)
    byid = {p["id"]: p for p in programs}
    g = stats["groups"].setdefault(label, collections.Counter())
    g["proposed"] += len(programs)
    g["rejected_by_compiler"] += len(rejected)
    g["outside_modelled_range"] += len(unmodelled)
    for i, msg in rejected.items():
        stats["reject_reasons"][re.sub(r'"[^"]*"', '"..."', re.sub(r"\d+:\d+", "L:C", msg))[:80]] += 1
    mismatches, skipped, js = judge(records, check=check, name="SeqLangTrace")
    stats["tlc_s"] += js["tlc_wall_s"]
    g["judged"] += len(records) - len(skipped)
    g["not_judged_spec_undefined"] += sum(1 for w in skipped.values() if w == "undefined")
    g["not_judged_fuel"] += sum(1 for w in skipped.values() if w == "diverges")
    for r in records:
        if r["id"] in skipped:
            continue
        p = byid[r["id"]]
        o = r["outcome"]
        stats["outcomes"][o["t"] + (":nil" if o["t"] == "value" and o["v"].get("k") == "nil" else "")] += 1
        fs = seqast.features(p["ast"])
        for f in fs:
            stats["features"][f] += 1
        for t in p.get("tags", []):
            stats["tags"][t] += 1
        if len(fs & seqast.LISTED) >= 2:
            stats["nontrivial"].add(p["src"])
        stats["distinct"].add(p["src"])
        if len(check.cov["samples"]) < 6 and label == "generated" and 12 <= len(p["src"]) <= 160:
            check.sample({"source": p["src"], "outcome": o})
    keys = classify(mismatches, byid) if mismatches else {}
    bad = []
    for m in mismatches:
        p = byid[m["id"]]
        key = keys.get(m["id"])
        replay = {"property": check.prop, "id": p["id"], "source": p["src"], "ast": p["ast"],
                  "observed": m["obs"], "expected": m["exp"], "tags": p.get("tags", []), "group": label}
        what = "program `%s`: observed %s, specified %s" % (
            p["src"].replace("\n", " <nl> ")[:300], json.dumps(m["obs"])[:200], json.dumps(m["exp"])[:200])
        if key is not None:
            stats["known"][key] += 1
        if check.violation(replay, name=label, key=key, what=what):
            bad.append(m)
    return bad


def run(prop, tier):
    if prop != "C02":
        raise common.ToolError("engines/seqlang.py decides C02 (other properties reuse its parts)")
    check = common.Check(prop, tier)
    check.cov["rule"] = RULE
    seed = common.seed()
    thorough = tier == "thorough"
    n = int(os.environ.get("SEQ_N", "50000" if thorough else "2400"))
    stats = {"run_s": 0.0, "tlc_s": 0.0, "groups": {}, "reject_reasons": collections.Counter(),
             "outcomes": collections.Counter(), "features": collections.Counter(), "tags": collections.Counter(),
             "nontrivial": set(), "distinct": set(), "known": collections.Counter()}
    t0 = time.time()
    # (c) corpus: the specification judges source text it has never seen, through the real parser
    corpus, why = corpus_programs()
    check_programs(check, corpus, "corpus", stats)
    # (b) exhaustive tiny scope
    tiny = seqgen.tiny_programs(6 if thorough else 5) + seqgen.tiny_programs(7 if thorough else 6, focus=True)
    for i in range(0, len(tiny), 40000):
        check_programs(check, tiny[i:i + 40000], "tiny_exhaustive", stats)
    # (a) seeded generator
    chunk = 10000
    done = 0
    while done < n:
        k = min(chunk, n - done)
        progs = seqgen.generate_programs(seed * 1000003 + done, k)
        check_programs(check, progs, "generated", stats)
        done += k
    judged = sum(g["judged"] for g in stats["groups"].values())
    proposed = sum(g["proposed"] for g in stats["groups"].values())
    rejected = sum(g["rejected_by_compiler"] for g in stats["groups"].values())
    cov = check.cov
    cov["traces_validated_against_impl"] = judged
    cov["evaluations"] = judged
    cov["distinct_nontrivial"] = len(stats["nontrivial"])
    cov["distinct_programs"] = len(stats["distinct"])
    cov["groups"] = {k: dict(v) for k, v in stats["groups"].items()}
    cov["rejected_by_compiler"] = rejected
    gen = stats["groups"].get("generated", {})
    cov["generator_acceptance_rate"] = round(1 - gen.get("rejected_by_compiler", 0) / max(1, gen.get("proposed", 1)), 4)
    cov["reject_reasons"] = dict(stats["reject_reasons"].most_common(12))
    cov["features"] = dict(stats["features"].most_common())
    cov["generator_tags"] = dict(stats["tags"].most_common())
    cov["outcomes"] = dict(stats["outcomes"])
    cov["corpus_left_out"] = dict(why)
    cov["known_finding_hits"] = dict(stats["known"])
    cov["timing"] = {"real_runs_s": round(stats["run_s"], 1), "tlc_s": round(stats["tlc_s"], 1),
                     "records_per_tlc_second": round(judged / max(0.1, stats["tlc_s"]), 1)}
    check.assumptions += [
        "programs on which SeqLang.tla is undefined (unbound name after a failed match, equality on functions, "
        "integers beyond 1e8, ill-typed builtin arguments) or exceeds its call-depth fuel are not judged",
        "function values are compared as opaque values",
        "the compiler's acceptance is not judged here (C01); rejected programs are skipped and counted"]
    print("C02: %d programs proposed, %d rejected by the compiler, %d judged by TLC in %.0fs (TLC %.0fs); "
          "%d distinct with >= 2 listed features; known-finding hits %s"
          % (proposed, rejected, judged, time.time() - t0, stats["tlc_s"], len(stats["nontrivial"]),
             dict(stats["known"])))
    return check.finish()


def replay(prop, path):
    """re-run one recorded disagreement: real compiler + VM, then TLC"""
    obj = json.load(open(path))
    p = {"id": obj.get("id", "replay"), "ast": obj["ast"], "src": obj.get("source") or seqast.render(obj["ast"]),
         "tags": obj.get("tags", [])}
    real = run_real([p])
    records, rejected, unmodelled = build_records([p], real)
    print("source:   %s" % p["src"])
    if not records:
        print("not judged: %s" % (rejected or unmodelled))
        return 0
    print("observed: %s" % json.dumps(records[0]["outcome"]))
    mm, sk, _ = judge(records, name="SeqLangTrace_replay")
    if sk:
        print("not judged by the specification: %s" % sk)
        return 0
    if not mm:
        print("agrees with the specification (Eval contains the observed outcome)")
        return 0
    print("specified: %s" % json.dumps(mm[0]["exp"]))
    key = classify(mm, {p["id"]: p}).get(p["id"])
    check = common.Check(prop, "replay")
    if check.violation(obj, name="replay", key=key, what="still disagrees"):
        return 1
    return 0
