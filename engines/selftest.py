"""./check selftest — demonstrates that the specifications are bound to the implementation:

1. recorded traces of the unchanged tree are accepted by the monitor (no VIOL) and by L2 validation;
2. the same traces with ONE field corrupted are rejected / trip the matching rule:
   a mailbox element (L2 reject + monitor ExactlyOnce/MailboxPreserved), a refcount (monitor Counted),
   an event target (L2 reject), a dropped hook event = a disabled hook (monitor MailboxPreserved / L2);
3. the mechanism model with a defect switch on produces the expected counter-example
   (replace_responses -> AwaitResultNotDropped, wake_spawning -> NoInternalError,
   stale_awaiting -> FailureContained) and Heap.tla likewise;
4. `-coverage 1` of an exhaustive run: every top-level action of Runtime.tla was taken.
Exit 0 iff everything behaved as expected.
"""
import json, os, re, copy
import common
from common import tlc, WORK
import families, runtime, scn


def _traces(scens, n=6):
    table, entry = runtime.batch_scripts(scens)
    sfile = os.path.join(WORK, "scripts_selftest.json")
    json.dump({"scripts": table, "defects": []}, open(sfile, "w"))
    reqs = runtime.make_requests(scens, entry, n, 7, [2, 1, 3], keep=n, rare_max=0)
    tfile = os.path.join(WORK, "trace_selftest.ndjson")
    runtime.run_sim(reqs, tfile)
    return tfile, sfile


def _mutate(tfile, fn, out):
    done = False
    with open(tfile) as fi, open(out, "w") as fo:
        for line in fi:
            r = json.loads(line)
            if not done:
                r2 = fn(r)
                if r2 is not None:
                    r, done = r2, True
            fo.write(json.dumps(r) + "\n")
    return done


def main(tier="quick"):
    common.build_harness()
    ok = True

    def expect(name, cond, detail=""):
        nonlocal ok
        print("%-58s %s %s" % (name, "ok" if cond else "FAILED", detail))
        ok = ok and cond

    scens = [families.fanin(2, 1, 2), families.heap_cases(2)[2], families.select_cases(2)[2]]
    tfile, sfile = _traces(scens)
    _, viols = runtime.monitor(tfile, sfile)
    expect("monitor accepts unchanged traces", not viols, str(viols[:1]))
    _, bad = runtime.validate(tfile, sfile, [])
    expect("L2 validation accepts unchanged traces", bad is None, str(bad))

    def corrupt_mailbox(r):
        if r.get("k") == "worker":
            for p in r["post"]["procs"]:
                if p["mailbox"]:
                    p["mailbox"][0] = {"k": "int", "n": 12345}
                    return r
    def corrupt_rc(r):
        if r.get("k") == "worker" and r["post"]["heap"]["rc"] and any(x > 0 for x in r["post"]["heap"]["rc"]):
            i = [i for i, x in enumerate(r["post"]["heap"]["rc"]) if x > 0][0]
            r["post"]["heap"]["rc"][i] = 0
            return r
    def corrupt_target(r):
        if r.get("k") == "worker":
            for e in r["emitted"]:
                if e["t"] == "DeliverAction":
                    e["to"] = e["to"] + 1
                    return r
    def drop_hook(r):
        if r.get("k") == "worker" and any(o["op"] == "select_complete" and "src" in o for o in r["ops"]):
            if any(o["op"] == "select_complete" for o in r["ops"]) and r["post"]["procs"]:
                r["ops"] = [o for o in r["ops"] if o["op"] != "select_complete"]
                return r

    for name, fn, want_rule, want_l2 in [
            ("corrupted mailbox element", corrupt_mailbox, {"ExactlyOnce", "MailboxPreserved"}, True),
            ("corrupted refcount", corrupt_rc, {"Counted"}, False),
            ("corrupted event target", corrupt_target, {"ExactlyOnce", "ScriptFollowed", "Settled"}, True),
            ("select_complete hook disabled", drop_hook, {"MailboxPreserved", "ExactlyOnce", "NoLostWakeup", "Confluent", "NoHang"}, False)]:
        out = os.path.join(WORK, "trace_selftest_bad.ndjson")
        if not _mutate(tfile, fn, out):
            expect(name + ": applicable", False, "no record to corrupt")
            continue
        _, viols = runtime.monitor(out, sfile)
        expect(name + ": monitor trips", any(v["rule"] in want_rule for v in viols), str(sorted({v["rule"] for v in viols})))
        if want_l2:
            _, bad = runtime.validate(out, sfile, [])
            expect(name + ": L2 validation rejects", bad is not None, str(bad))

    # defect switches
    for defect, scen, inv, prop in [("replace_responses", families.two_awaits_same_worker(2), "AwaitResultNotDropped", "C05"),
                                    ("wake_spawning", families.sleep_then_spawn(2), "NoInternalError", "C15"),
                                    ("stale_awaiting", families.select_cases(2)[-1], "FailureContained", "C15")]:
        res = runtime.model_check(dict(scen, defects=[defect]), prop, workers=4, timeout=300)
        expect("model with defect %s violates %s" % (defect, inv), inv in res.violated, str(res.violated))
    for defect, inv in [("overwrite_no_release", "Counted"), ("abandon", "NoOrphan"), ("free_immediately", "NoUseAfterFree")]:
        cfg = os.path.join(WORK, "MC_Heap_st.cfg")
        txt = open(os.path.join(common.SPEC, "MC_Heap.cfg")).read()
        # (without the strengthened invariant of HeapInd.tla, which trips first on every accounting defect)
        txt = txt.replace(" IndInvOnHeap", "")
        open(cfg, "w").write(re.sub(r"Defects = \{\}", 'Defects = {"%s"}' % defect, re.sub(r"MaxOps = \d+", "MaxOps = 8", txt)))
        res = tlc("Heap", cfg, workers=4, timeout=300)
        expect("Heap.tla with defect %s violates %s" % (defect, inv), inv in res.violated, str(res.violated))

    # ... and the inductive invariant read on Heap.tla trips on the accounting defects as well
    for defect in ("overwrite_no_release", "abandon"):
        cfg = os.path.join(WORK, "MC_Heap_st.cfg")
        txt = open(os.path.join(common.SPEC, "MC_Heap.cfg")).read()
        open(cfg, "w").write(re.sub(r"Defects = \{\}", 'Defects = {"%s"}' % defect, re.sub(r"MaxOps = \d+", "MaxOps = 8", txt)))
        res = tlc("Heap", cfg, workers=4, timeout=300)
        expect("Heap.tla with defect %s violates IndInvOnHeap" % defect, bool(res.violated), str(res.violated))

    # action coverage of an exhaustive run
    res = runtime.model_check(dict(families.select_cases(2)[6], defects=[]), "C05", workers=4, timeout=300)
    cov = res.coverage()
    need = ["Runtime!WorkerAct", "Runtime!EnvHandle", "Runtime!Tick"]
    expect("coverage: WorkerAct, EnvAct, Tick all taken", all(cov.get(a, (0, 0))[0] > 0 for a in need),
           str({a: cov.get(a) for a in need}))
    print("selftest", "PASSED" if ok else "FAILED")
    return 0 if ok else 1
