"""C10 — packaging steps preserve behaviour (tree-shake, serialise, merge, import).

spec/Packaging.tla states the property (the outcome of Run(p, config) after any history of merges
depends on p alone; an import denotes the module body's value) and enumerates the merge histories;
harness `pkgrun` runs every program as compiled, tree-shaken, after a JSON round trip, and merged
into an environment that already holds the history's programs; spec/PackagingTrace.tla judges the
recorded outcomes: ConfigsAgree, SerdeIdentical, HistoryIndependent.  A sample also goes through the
real `quiv run` binary on the serialised bytecode.
"""
import json, os, re, random, subprocess
import common
from common import Check, tlc, WORK, ToolError
import corpus

# programs that can be merged before the program under test: chosen so that every table (constants,
# functions, tuples, types, builtins) is shifted AND partially deduplicated against typical programs
POOL = [
    "'p = Point[x: 'int, y: 'int]\nq = Point[x: 1, y: 2], f = #'p { .x }, q f",
    "x = [1, 2] __integer_add__, y = [x, 0x0102], y",
    "'shape = Circle[r: 'int] | Rect[w: 'int, h: 'int]\narea = #'shape { | =Circle[r: r] => [r, r] __integer_multiply__ | =Rect[w: w, h: h] => [w, h] __integer_multiply__ }, Circle[r: 3] area",
    "s = \"hello\", t = \"a {s}\", [s, t]",
    "'list = Nil | Cons['int, ^]\nlen = #['list, 'int] { | =[Nil, n] => n | =[Cons[_, t], n] => [t, [n, 1] __integer_add__] ^ }, [Cons[1, Cons[2, Nil]], 0] len",
    "a = 5, g = #'int { [~, a] __integer_multiply__ }, h = #'int { g g }, 2 h",
    "Pair[a: 1, b: 0x01], Pair[a: 0x02, b: 2], Ok",
    "k = [0x01, 0x02] __binary_concat__, [k, k, 7]",
]

# module bodies and uses: (module source, [(use via import, use in place)])
IMPORTS = [
    ("[add: #['int, 'int] { __integer_add__ }, one: 1]",
     [("[2, %m.one] %m.add", "m = [add: #['int, 'int] { __integer_add__ }, one: 1], [2, m.one] m.add"),
      ("(add, one) = %m, [one, 5] add", "(add, one) = [add: #['int, 'int] { __integer_add__ }, one: 1], [one, 5] add"),
      ("* = %m, [one, one] add", "* = [add: #['int, 'int] { __integer_add__ }, one: 1], [one, one] add"),
      ("m = %m, m.one", "m = [add: #['int, 'int] { __integer_add__ }, one: 1], m.one")]),
    ("base = 10, [scale: #'int { [~, base] __integer_multiply__ }, base: base]",
     [("3 %m.scale", "base = 10, m = [scale: #'int { [~, base] __integer_multiply__ }, base: base], 3 m.scale"),
      ("(scale) = %m, [2 scale, 4 scale]", "base = 10, (scale) = [scale: #'int { [~, base] __integer_multiply__ }, base: base], [2 scale, 4 scale]")]),
    ("k = [0x0a, 0x0b] __binary_concat__, [key: k, pair: [k, k], get: #{ k }]",
     [("[%m.key, %m.pair, %m.get]", "k = [0x0a, 0x0b] __binary_concat__, m = [key: k, pair: [k, k], get: #{ k }], [m.key, m.pair, m.get]"),
      ("* = %m, [key, get]", "k0 = [0x0a, 0x0b] __binary_concat__, * = [key: k0, pair: [k0, k0], get: #{ k0 }], [key, get]")]),
    ("'t = Tag[v: 'int] | Other\n[mk: #'int { Tag[v: ~] }, un: #'t { | =Tag[v: v] => v | 0 }]",
     [("5 %m.mk %m.un", "'t = Tag[v: 'int] | Other\nm = [mk: #'int { Tag[v: ~] }, un: #'t { | =Tag[v: v] => v | 0 }], 5 m.mk m.un"),
      ("(mk, un) = %m, [7 mk un, Other un]", "'t = Tag[v: 'int] | Other\n(mk, un) = [mk: #'int { Tag[v: ~] }, un: #'t { | =Tag[v: v] => v | 0 }], [7 mk un, Other un]")]),
]


def wrap(src):
    """`#{ body }` with the type-alias declarations (not allowed inside a function body) hoisted before it"""
    lines = src.split("\n")
    aliases, body, in_alias = [], [], False
    for ln in lines:
        st = ln.strip()
        if re.match(r"^'[a-z_]*(<[^>]*>)? *=", st):
            in_alias = True
            aliases.append(ln)
        elif in_alias and (st.startswith("|") or (ln.startswith((" ", "\t")) and st and not body)):
            aliases.append(ln)
        else:
            in_alias = False
            body.append(ln)
    return "\n".join(aliases + ["#{"] + body + ["}"])


def histories_from_tlc(check):
    res = tlc("Packaging", "MC_Packaging.cfg", workers=4, timeout=300)
    check.add_tlc("gen:Packaging", res)
    hs = [json.loads(m.group(1)) for m in re.finditer(r'<<"HIST", "(\[[\d,]*\])">>', res.out)]
    return hs


def canon(v):
    if isinstance(v, dict):
        if v.get("k") == "pid":
            return {"k": "pid"}          # process ids are allocated by the host: not part of the program's meaning
        if v.get("k") == "ref":
            return {"k": "ref"}
        if v.get("k") == "fn":
            return {"k": "fn", "caps": [canon(c) for c in v.get("caps", [])]}
        return {k: canon(x) for k, x in v.items()}
    if isinstance(v, list):
        return [canon(x) for x in v]
    return v


def run(prop, tier):
    check = Check(prop, tier)
    rnd = random.Random(common.seed())
    hists = histories_from_tlc(check)           # all sequences of <= 3 pool programs (585)
    progs = [s for _, s in corpus.test_sources() + corpus.spec_blocks()]
    rnd.shuffle(progs)
    nprog = 250 if tier == "quick" else len(progs)
    reqs = []
    for i, src in enumerate(progs[:nprog]):
        # every corpus program under the empty history and two TLC-enumerated histories
        for h in [[]] + rnd.sample(hists, 2 if tier == "quick" else 6):
            reqs.append({"id": "p%d|%s" % (i, "".join(map(str, h))), "group": "p%d" % i, "src": wrap(src),
                         "history": [POOL[q - 1] for q in h]})
    # a fixed set of programs under EVERY history (exhaustive over the TLC enumeration)
    for i, src in enumerate(POOL[:3 if tier == "quick" else 8]):
        for h in hists:
            reqs.append({"id": "x%d|%s" % (i, "".join(map(str, h))), "group": "x%d" % i, "src": wrap(src),
                         "history": [POOL[q - 1] for q in h]})
    for mi, (mod, uses) in enumerate(IMPORTS):
        for ui, (via, inplace) in enumerate(uses):
            for h in [[]] + rnd.sample(hists, 3):
                hist = [POOL[q - 1] for q in h]
                g = "imp%d_%d" % (mi, ui)
                reqs.append({"id": g + "|via|" + "".join(map(str, h)), "group": g, "src": wrap(via), "modules": {"m": mod}, "history": hist})
                reqs.append({"id": g + "|inplace|" + "".join(map(str, h)), "group": g, "src": wrap(inplace), "history": hist})
    bcdir = os.path.join(WORK, "pkg_bytecode")
    os.makedirs(bcdir, exist_ok=True)
    for r in reqs[:40]:
        r["bytecode_dir"] = bcdir
    out = {}
    for i in range(0, len(reqs), 500):
        p = common.run_bin("pkgrun", stdin="\n".join(json.dumps(r) for r in reqs[i:i + 500]) + "\n", timeout=3000)
        for line in p.stdout.splitlines():
            if line.startswith("{"):
                r = json.loads(line)
                out[r["id"]] = r
        if p.returncode != 0:
            raise ToolError("pkgrun died: " + p.stderr[-500:])
    tf = os.path.join(WORK, "pkg_trace_%d.ndjson" % os.getpid())
    nrec, rejected, needs_rt = 0, 0, 0
    byid = {r["id"]: r for r in reqs}
    with open(tf, "w") as f:
        for r in reqs:
            o = out.get(r["id"])
            if o is None or "rejected" in o:
                rejected += 1
                continue
            cfgs = {}
            for k, v in o["configs"].items():
                if v["t"] == "needs_runtime":
                    continue        # the sync configurations cannot run processes; `merged` still does
                cfgs[k] = ({"t": "value", "v": canon(v["v"])} if v["t"] == "value" else
                           {"t": "error", "e": v.get("e", "")} if v["t"] == "error" else {"t": v["t"]})
            if any(v["t"] in ("budget", "none") for v in cfgs.values()):
                continue            # non-termination is not judged
            if len(cfgs) < 4:
                needs_rt += 1
            if not cfgs:
                continue
            f.write(json.dumps({"id": r["id"], "group": r["group"], "configs": cfgs, "serde_identical": o["serde_identical"]}) + "\n")
            nrec += 1
    # imports inside REPL sessions: the same use of the module as a line of a session - alone, after a line that
    # imported the module and was then REJECTED by the compiler (seeded change C10-2: the module cache kept ids
    # of the discarded program clone), and after such a line plus an unrelated accepted line.  The records join
    # the pair's group, so HistoryIndependent compares them with the in-place reading.
    sess = []
    for mi, (mod, uses) in enumerate(IMPORTS):
        for ui, (via, inplace) in enumerate(uses):
            g = "imp%d_%d" % (mi, ui)
            rejected_line = "zz = %m, no_such_variable_q"
            for tag, lines in (("alone", [via]), ("after_rejected_import", [rejected_line, via]),
                               ("after_rejected_import_and_line", [rejected_line, POOL[0], via]),
                               ("twice", [via, via])):
                sess.append({"id": g + "|session|" + tag, "group": g, "lines": lines, "modules": {"m": mod},
                             "inplace": inplace})
    souts = common.qrun(sess, timeout=600)
    with open(tf, "a") as f:
        for r in sess:
            o = souts.get(r["id"])
            if not o or not o.get("outcomes") or o.get("crashes"):
                last = {"t": "error", "e": "crash or no outcome"}
            else:
                v = o["outcomes"][-1]
                last = ({"t": "value", "v": canon(v["v"])} if v["t"] == "value" else
                        {"t": "error", "e": v.get("e", v.get("m", ""))[:80]} if v["t"] in ("error", "rejected") else {"t": v["t"]})
            f.write(json.dumps({"id": r["id"], "group": r["group"], "configs": {"session": last}, "serde_identical": True}) + "\n")
            nrec += 1
    check.cov["import_uses_in_repl_sessions"] = len(sess)
    byid.update({r["id"]: r for r in sess})
    res = tlc("PackagingTrace", "PackagingTrace.cfg", env={"PKG_TRACE": tf}, workers=1, timeout=3000)
    check.add_tlc("judge:PackagingTrace", res)
    if "INCOMPLETE" in res.out or (not res.ok and "MISMATCH|" not in res.out):
        raise ToolError("PackagingTrace did not consume the records: " + res.out[-1200:])
    # a sample through the real `quiv run` on the serialised bytecode
    cli_checked = 0
    quiv = "/repo/target/debug/quiv"
    try:
        subprocess.run(["cargo", "build", "--offline", "-p", "quiver-cli"], cwd="/repo", capture_output=True, timeout=900,
                       env=dict(os.environ, CARGO_NET_OFFLINE="true"))
    except subprocess.TimeoutExpired:
        pass
    if os.path.exists(quiv):
        for r in reqs[:40]:
            path = os.path.join(bcdir, r["id"] + ".qx")
            o = out.get(r["id"])
            if not os.path.exists(path) or o is None or "rejected" in o or o["configs"]["merged"]["t"] != "value":
                continue
            try:
                pr = subprocess.run([quiv, "run", path], capture_output=True, text=True, timeout=20)
            except subprocess.TimeoutExpired:
                continue
            cli_checked += 1
            want = o["configs"]["merged"].get("formatted")
            got = pr.stdout.strip()
            if want in ("[]", "Ok") and got == "":
                got = want          # the CLI prints nothing for a nil or Ok result
            if want is not None and got != want:
                check.violation({"property": prop, "rule": "CliAgrees", "program": r["src"], "history": r["history"],
                                 "quiv_run": got, "expected": want}, name="CliAgrees", key="CliAgrees:" + r["group"],
                                what="`quiv run` on the serialised bytecode printed %r, the in-process run gives %r" % (got[:100], want[:100]))
            if cli_checked <= 3:
                check.cov.setdefault("cli_outputs", []).append([got[:80], (want or "")[:80]])
    check.cov["cli_runs"] = cli_checked
    check.cov["traces_validated_against_impl"] = nrec
    check.cov["evaluations"] = nrec
    check.cov["histories_enumerated_by_tlc"] = len(hists)
    check.cov["rejected_or_not_a_function"] = rejected
    check.cov["records_with_process_programs"] = needs_rt
    check.cov["distinct_nontrivial"] = len({r["group"] for r in reqs if r["id"] in out and "rejected" not in out[r["id"]]
                                            and r["history"]})
    check.cov["rule"] = ("one evaluation = one (program, merge history) pair run in the configurations compiled / tree-shaken / JSON "
                         "round trip / merged-after-history; programs: test-suite and spec.md corpus wrapped as nilary functions, a fixed "
                         "set under every TLC-enumerated history of <= 3 merges over an 8-program pool, and import-vs-in-place pairs; "
                         "distinct non-trivial = distinct programs that ran under a non-empty history")
    for r in reqs[:2]:
        if r["id"] in out:
            check.sample({"program": r["src"][:200], "history": r["history"], "result": out[r["id"]]})
    seen = set()
    for m in re.finditer(r'^"MISMATCH\|([^|]*(?:\|[^|]*)*?)\|(ConfigsAgree|SerdeIdentical|HistoryIndependent)\|(.*)"$', res.out, re.M):
        rid, rule, detail = m.group(1), m.group(2), m.group(3)
        r = byid.get(rid, {})
        key = "%s:%s" % (rule, r.get("group", rid))
        if key in seen:
            continue
        seen.add(key)
        check.violation({"property": prop, "rule": rule, "program": r.get("src"), "history": r.get("history"),
                         "modules": r.get("modules"), "lines": r.get("lines"), "inplace": r.get("inplace"),
                         "detail": detail[:1500]}, name=rule, key=key,
                        what="%s for %s: %s" % (rule, rid, detail[:300]))
    os.remove(tf)
    check.assumptions += ["the agreed outcome is the implementation's own (C02 judges generated programs against SeqLang)",
                          "function values are compared by captured values"]
    return check.finish()


def replay(prop, path):
    r = json.load(open(path))
    if r.get("lines"):
        # an import used inside a REPL session against its in-place reading
        o = common.qrun([{"id": "s", "lines": r["lines"], "modules": r.get("modules") or {}},
                         {"id": "i", "src": r["inplace"]}])
        def last(x):
            v = x["outcomes"][-1] if x.get("outcomes") else {"t": "none"}
            return json.dumps(canon(v["v"]), sort_keys=True) if v["t"] == "value" else json.dumps(v, sort_keys=True)
        print(last(o["s"]), "vs in place", last(o["i"]))
        if last(o["s"]) != last(o["i"]):
            print("VIOLATION property=%s replay=%s" % (prop, path))
            return 1
        return 0
    req = {"id": "replay", "src": r["program"], "history": r.get("history") or [], "modules": r.get("modules") or {}}
    p = common.run_bin("pkgrun", stdin=json.dumps(req) + "\n")
    print(p.stdout[:3000])
    o = json.loads(p.stdout.splitlines()[0])
    vals = {json.dumps(canon(v), sort_keys=True) for k, v in o.get("configs", {}).items() if v["t"] != "needs_runtime"}
    if len(vals) > 1 or not o.get("serde_identical", True):
        print("VIOLATION property=%s replay=%s" % (prop, path))
        return 1
    return 0
