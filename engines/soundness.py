"""C01 — type soundness: accepted programs never get stuck, and values inhabit the inferred type.

spec/Soundness.tla judges one-event traces [outcome, value with names/labels, exported inferred
result type graph] of accepted programs: NotStuck and Inhabits (the membership relation of the type
semantics).  Programs: (a) an exhaustive cross product (union parameter of <= 3 variants) x (branch
pattern lists of <= 3 from a pool of 14) x (one argument value per variant) - the known carve-outs
are all about pattern order against union shape; (b) the test-suite and spec.md corpus; (c) typed
spawn/send/select programs from the runtime families; (d) tail calls with arguments of several
types.  The compiler's acceptance is the thing under test: rejected programs are only counted.
"""
import itertools, json, os, random, re
import common
from common import Check, tlc, WORK, ToolError
import corpus

# variant: (type expression, [argument value expressions])
VARIANTS = [
    ("'int", ["3", "0"]), ("'bin", ["0x01"]), ("[]", ["[]"]), ("Ok", ["Ok"]), ("R", ["R"]), ("R['int]", ["R[7]"]),
    ("R[x: 'int]", ["R[x: 7]"]), ("Q['bin]", ["Q[0x02]"]), ("['int, 'int]", ["[1, 2]"]), ("S[a: 'int, b: 'bin]", ["S[a: 1, b: 0x03]"]),
    ("R['bin]", ["R[0x09]"]),
]
# pattern: (pattern text, consequence using its bindings)
PATTERNS = [
    ("='int", "[1, $]"), ("='bin", "[2, $]"), ("=[]", "[3]"), ("=Ok", "[4]"), ("=R", "[5]"), ("=R[m]", "[6, m]"), ("=R[x: m]", "[7, m]"),
    ("=Q[b]", "[8, b]"), ("=[a, b]", "[9, a, b]"), ("=S[a: a, b: _]", "[10, a]"), ("=0", "[11]"), ("=('int)n", "[12, n]"),
    ("=(x: n)", "[13, n]"), ("=R[('int)m]", "[14, m]"),
]
FALLBACKS = [None, "[99]"]


EXTRA = [
    # tail calls with arguments of another type than the parameter (the compiler must reject or the run must be sound)
    "f = #'int { | =0 => 0 | 0x01 ^ }, 3 f",
    "g = #'bin { $ }, f = #'int { | =0 => 0x00 | [~, 1] __integer_subtract__ ^g }, 2 f",
    "f = #['int, 'int] { | =[0, y] => y | =[x, y] => [[x, 1] __integer_subtract__, [x, y] __integer_multiply__] ^ }, [4, 1] f",
    "g = #{ 10 }, f = #'int { &g ^~ }, 5 f",
    "f = #('int | []) { | =[] => 0 | =0 => [] ^ | [~, 1] __integer_subtract__ ^ }, 2 f",
    # function values in higher-order positions: parameters are CONTRAVARIANT - a function that accepts less than the
    # declared function type must be rejected, one that accepts more must be accepted (seeded change C01-3: the
    # parameter comparison of the callable-vs-callable relation ended up in declaration order)
    "ap = #[(#('int | 'bin) -> 'int), 'bin] { $.1 $.0 }, f = #'int { [~, 1] __integer_add__ }, [&f, 0x01] ap",
    "ap = #[(#('int | 'bin) -> 'int), 'int] { $.1 $.0 }, f = #'int { [~, 1] __integer_add__ }, [&f, 4] ap",
    "ap = #[(#'int -> 'int), 'int] { $.1 $.0 }, f = #('int | 'bin) { | ='int => [~, 1] __integer_add__ | 0 }, [&f, 4] ap",
    "hs = [on_a: #'int { [~, 1] __integer_add__ }, on_b: #'bin { 2 }], run = #[on_a: (#('int | 'bin) -> 'int), on_b: (#'bin -> 'int)] { 0x05 $.on_a }, hs run",
    "w = #(#(A['int] | B) -> 'int) { B $ }, g = #A['int] { .0 }, &g w",
    "w = #(#A['int] -> 'int) { A[3] $ }, g = #(A['int] | B) { | =A[n] => n | 0 }, &g w",
    "k = #'int { [~, 1] __integer_add__ }, p = &k @#(#('int | 'bin) -> 'int) { =h, 0x01 h }, !p",
    # generics applied at union and non-union arguments
    "id = #<'t>'t { $ }, [1 id, 0x01 id, [] id, R[1] id]",
    "'opt<'t> = 't | []\nget = #<'t>['opt<'t>, 't] { | =[[], d] => d | =[v, _] => v }, [[[], 5] get, [7, 5] get]",
    "'list<'t> = Nil | Cons['t, ^]\nhead = #<'t>'list<'t> { | =Cons[h, _] => h }, [Cons[1, Nil] head, Nil head]",
    "'list<'t> = Nil | Cons['t, ^]\nlast = #<'t>'list<'t> { | =Cons[h, Nil] => h | =Cons[_, t] => t ^ }, Cons[1, Cons[0x02, Nil]] last",
    # declared return types, narrowing by complement
    "f = #('int | 'bin | []) -> 'int { | ='int => $ | ='bin => 1 | 0 }, [3 f, 0x01 f, [] f]",
    "f = #('int | R['int]) { | =R[m] => m | $ }, [R[4] f, 4 f]",
    "f = #('int | R['int] | []) { | =R[m] => m | ='int => $ }, [R[4] f, 4 f, [] f]",
    # typed spawn / send / select
    "p = @#{ !#('int | 'bin) { | ='int => 1 | 2 } }, 0x01 p, !p",
    "p = 3 @#'int { [~, 1] __integer_add__ }, q = @#{ !#['int, 'bin] .1 }, [!p, 0x05] q, !q",
    "w = @#{ ! [#'int, #'bin { =0x01 => Ok }, 5] }, 0x01 w, !w",
]


def spread_cases():
    """every tuple literal built from one or two spread sources and one explicit field, over colliding and fresh
    labels, the explicit field before / after / between the spreads, with field values of other types than the
    source's (the TYPE of a field and the VALUE it gets must come from the same place)"""
    srcs = [("a", "A[x: 5, y: 2]"), ("b", "[x: 0x01, z: Q]"), ("c", "C[7, y: [1, 2]]")]
    vals = ["0x00", "9", "R[1]", "[]"]
    out = []
    for (n1, e1) in srcs:
        for l in ("x", "y", "z", ""):
            for v in vals:
                f = ("%s: %s" % (l, v)) if l else v
                for lit in ("[%s, ...%s]" % (f, n1), "[...%s, %s]" % (n1, f), "%s[..., %s]" % (n1, f), "P[%s, ...%s]" % (f, n1)):
                    out.append("%s = %s, r = %s, [r]" % (n1, e1, lit))
                for (n2, e2) in srcs:
                    if n2 != n1:
                        for lit in ("[%s, ...%s, ...%s]" % (f, n1, n2), "[...%s, %s, ...%s]" % (n1, f, n2), "[...%s, ...%s, %s]" % (n1, n2, f)):
                            out.append("%s = %s, %s = %s, r = %s, [r]" % (n1, e1, n2, e2, lit))
    return out


def access_cases():
    """field access on values whose static type is a union of tuple variants of different arities / label sets:
    every access the compiler accepts must be valid for EVERY variant (positional and named, on the parameter,
    on a variable, nested); most of these are rejected, which is fine - the accepted ones must not get stuck
    (seeded change C01-2: a positional access was accepted when at least one variant had the position)"""
    unions = [("Circle['int] | Rect['int, 'int]", ["Circle[3]", "Rect[2, 5]"]),
              ("[] | ['int, 'int]", ["[]", "[1, 2]"]),
              ("A[x: 'int] | B[x: 'int, y: 'bin]", ["A[x: 1]", "B[x: 2, y: 0x01]"]),
              ("P['int, 'bin] | P['int]", ["P[1, 0x02]", "P[7]"]),
              ("W[['int, 'int]] | W[['int]]", ["W[[1, 2]]", "W[[3]]"]),
              ("['int] | ['int, 'int] | ['int, 'int, 'int]", ["[1]", "[1, 2]", "[1, 2, 3]"])]
    forms = ["{ .0 }", "{ .1 }", "{ .2 }", "{ $.1 }", "{ =v => v.1 }", "{ .x }", "{ .y }", "{ .0.1 }", "{ =v => [v.0, v.1] }",
             "{ | =Circle[r] => r | .1 }", "{ | =[] => 0 | .1 }", "{ | =A[x: n] => n | .y }"]
    out = []
    for ty, args in unions:
        for form in forms:
            for a in args:
                out.append("f = #(%s) %s, %s f" % (ty, form, a))
        # ... and on a variable bound to a block whose branches have different shapes
    out += ["x = 2 { | =2 => [1] | [1, 2] }, x.1", "x = 3 { | =2 => [1] | [1, 2] }, x.1",
            "x = 2 { | =2 => A[x: 1] | B[x: 1, y: 2] }, x.y", "x = 2 { | =2 => [1] | [1, 2] }, [x.0, x.1]"]
    return out


def cross_product(rnd, limit):
    out = []
    for nv in (2, 3):
        for vs in itertools.combinations(range(len(VARIANTS)), nv):
            # names must not clash structurally in a confusing way: keep all, the compiler decides
            for np in (1, 2, 3):
                for ps in itertools.permutations(range(len(PATTERNS)), np):
                    out.append((vs, ps))
    rnd.shuffle(out)
    return out[:limit]


def render_case(vs, ps, fb, arg):
    ty = " | ".join(VARIANTS[v][0] for v in vs)
    branches = " ".join("| %s => %s" % PATTERNS[p] for p in ps)
    if fb:
        branches += " | " + fb
    return "f = #(%s) { %s }, %s f" % (ty, branches, arg)


def run(prop, tier):
    check = Check(prop, tier)
    rnd = random.Random(common.seed())
    reqs = []
    ncp = 1800 if tier == "quick" else 30000
    for n, (vs, ps) in enumerate(cross_product(rnd, ncp)):
        fb = FALLBACKS[n % 2]
        for v in vs:
            for arg in VARIANTS[v][1][:1]:
                reqs.append({"id": "x%d_%d" % (n, v), "src": render_case(vs, ps, fb, arg), "kind": "cross"})
    for n, src in enumerate(EXTRA):
        reqs.append({"id": "t%d" % n, "src": src, "kind": "extra"})
    for n, src in enumerate(spread_cases()):
        reqs.append({"id": "s%d" % n, "src": src, "kind": "spreads"})
    import extra_sources
    for n, src in enumerate(extra_sources.EXTRA_SOURCES):
        reqs.append({"id": "e%d" % n, "src": src, "kind": "extra"})
    for n, src in enumerate(access_cases()):
        reqs.append({"id": "a%d" % n, "src": src, "kind": "access"})
    progs = [s for _, s in corpus.test_sources() + corpus.spec_blocks()]
    rnd.shuffle(progs)
    for n, src in enumerate(progs[:400 if tier == "quick" else len(progs)]):
        reqs.append({"id": "c%d" % n, "src": src, "kind": "corpus"})
    try:
        import seqgen, seqast
        # a FIXED corpus (generator seed 1 whatever VERIF_SEED is): the compiler's open typing defects are dense
        # enough that every fresh 20 000-program sample meets a few unpinned instances; the ones this corpus
        # meets are pinned one by one in known_findings.json
        for g in seqgen.generate_programs(1, 1500 if tier == "quick" else 20000):
            if g["known"]:
                continue        # syntactic trigger of a language defect pinned under C02
            reqs.append({"id": "g" + g["id"], "src": seqast.render(g["ast"]), "kind": "generated"})
    except Exception as e:      # the language engine is optional here
        check.cov["generated_programs_unavailable"] = str(e)[:100]
    # typed spawn / send / select: the runtime engine's scenario families and seeded random process systems
    # (2-4 processes, receives with filters and timeouts, awaits, captured pids); the value of the entry process
    # must inhabit the type inferred for the whole program
    import families, scn
    seen_src = set()
    fams = [f for f in families.all_families((2,)) if not f.get("io") and not f.get("has_refs") and not f.get("no_mc")]
    fams += [families.random_scenario(common.seed() * 1000 + i, 2) for i in range(40 if tier == "quick" else 600)]
    fams += families.select_product(common.seed(), 20 if tier == "quick" else 300, 2)
    for f in fams:
        try:
            src = scn.render(f)
        except Exception:
            continue
        if src in seen_src:
            continue
        seen_src.add(src)
        reqs.append({"id": "p%d" % len(seen_src), "src": src, "kind": "processes"})
    outs = {}
    for i in range(0, len(reqs), 500):
        p = common.run_bin("typerun", stdin="\n".join(json.dumps({"id": r["id"], "src": r["src"]}) for r in reqs[i:i + 500]) + "\n",
                           timeout=3000)
        for line in p.stdout.splitlines():
            if line.startswith("{"):
                r = json.loads(line)
                outs[r["id"]] = r
        if p.returncode != 0:
            raise ToolError("typerun died: " + p.stderr[-500:])
    tf = os.path.join(WORK, "sound_trace_%d.ndjson" % os.getpid())
    byid = {r["id"]: r for r in reqs}
    nrec, rejected, crashed = 0, 0, []
    kinds = {}
    with open(tf, "w") as f:
        for r in reqs:
            o = outs.get(r["id"])
            if o is None:
                continue
            if o["outcome"]["t"] in ("rejected", "nocode"):
                rejected += 1
                continue
            if o["crashes"]:
                if any("no implementation in this host" in c for c in o["crashes"]):
                    continue        # an IO builtin: this harness has no effect backend (C14 runs those)
                crashed.append(r["id"])
            if o["outcome"]["t"] == "none":
                continue            # non-termination / blocked: not judged
            kinds[r["kind"]] = kinds.get(r["kind"], 0) + 1
            out = o["outcome"] if o["outcome"]["t"] != "value" else {"t": "value"}
            f.write(json.dumps({"id": r["id"], "outcome": out, "rich": o["rich"], "type": o["type"], "type_text": o["type_text"],
                                "nilok": r["kind"] in ("generated", "processes")}) + "\n")
            nrec += 1
    res = tlc("Soundness", "Soundness.cfg", env={"SOUND_TRACE": tf}, workers=1, timeout=3000)
    check.add_tlc("judge:Soundness", res)
    if "INCOMPLETE" in res.out or (not res.ok and "MISMATCH|" not in res.out):
        raise ToolError("Soundness did not consume the records: " + res.out[-1500:])
    check.cov["traces_validated_against_impl"] = nrec
    check.cov["evaluations"] = len(reqs)
    check.cov["accepted_and_judged"] = nrec
    check.cov["rejected_by_compiler"] = rejected
    check.cov["per_kind"] = kinds
    check.cov["distinct_nontrivial"] = len({r["src"] for r in reqs if r["id"] in outs and outs[r["id"]]["outcome"]["t"] in ("value", "error")
                                            and r["kind"] != "corpus"})
    check.cov["rule"] = ("one evaluation = one program offered to the compiler; judged = accepted programs that terminated; cross = "
                         "(union of 2-3 variants from %d) x (1-3 branch patterns from %d, ordered) x (fallback or not) x (one argument "
                         "per variant), sampled by seed; non-trivial = distinct accepted non-corpus programs" % (len(VARIANTS), len(PATTERNS)))
    for r in reqs[:2] + reqs[-2:]:
        if r["id"] in outs:
            check.sample({"program": r["src"][:200], "outcome": outs[r["id"]]["outcome"], "type": outs[r["id"]]["type_text"]})
    seen = set()
    for m in re.finditer(r'^"MISMATCH\|([^|]*)\|(\w+)\|(.*)"$', res.out, re.M):
        rid, rule, detail = m.group(1), m.group(2), m.group(3)
        r = byid.get(rid, {})
        # one report per (rule, pattern list) for the cross product, per program otherwise
        key = "%s:%s" % (rule, re.sub(r"\s+", " ", r.get("src", rid))[:160])
        if key in seen:
            continue
        seen.add(key)
        if len(seen) > int(os.environ.get("SOUND_MAX", "25")):
            break
        check.violation({"property": prop, "rule": rule, "program": r.get("src"), "detail": detail[:1200],
                         "outcome": outs.get(rid, {}).get("outcome"), "type": outs.get(rid, {}).get("type_text")},
                        name=rule, key=key, what="%s: %s  -> %s" % (rule, r.get("src", "")[:200], detail[:200]))
    for rid in crashed[:5]:
        check.violation({"property": prop, "rule": "NotStuck", "program": byid[rid]["src"], "crashes": outs[rid]["crashes"]},
                        name="Crash", key="crash:" + byid[rid]["src"][:100], what="a worker crashed: %s" % outs[rid]["crashes"][0][:200])
    os.remove(tf)
    check.assumptions += ["recursive back-references (cycle) and type variables inside the inferred type are not judged",
                          "functions/processes/resources inhabit by kind only"]
    return check.finish()


def narrowing_programs():
    """C09, end to end: branch conditions that test ONE value several times, over every pair of non-trivial
    subsets T, U of four nullary tags; the value that falls through must inhabit the type the compiler
    computed for the fall-through (narrowing by intersection, then the complement handed to later branches).
    (seeded change C09-3: a repeated check on the same value replaced the original type by the already narrowed
    one, so the complement lost every value the FIRST check had excluded.)"""
    import itertools
    tags = ["A", "B", "C", "D"]
    subs = [c for k in (1, 2, 3) for c in itertools.combinations(tags, k)]
    conds = [("tu", "x ='t, x ='u"), ("tut", "x ='t, x ='u, x ='t"), ("t", "x ='t")]
    out = []
    for T in subs:
        for U in subs:
            head = "'t = %s, 'u = %s, mk = #'int { | =0 => A | =1 => B | =2 => C | D }" % (" | ".join(T), " | ".join(U))
            for cn, cond in conds:
                if cn == "t" and U != subs[0]:
                    continue
                for n in range(4):
                    out.append("%s, x = %d mk, { %s => Hit | x }" % (head, n, cond))
                    out.append("%s, g = #(A | B | C | D) { =x, { %s => Hit | x ='t => [x] | x } }, %d mk g" % (head, cond, n))
    return out


def judge_narrowing(check, prop, programs=None):
    """runs narrowing_programs() through the real compiler and VM (harness bin typerun) and has TLC (Soundness.tla)
    judge each observed (value, inferred type); returns the number judged"""
    reqs = [{"id": "n%d" % i, "src": src} for i, src in enumerate(programs or narrowing_programs())]
    outs = {}
    for i in range(0, len(reqs), 500):
        p = common.run_bin("typerun", stdin="\n".join(json.dumps(r) for r in reqs[i:i + 500]) + "\n", timeout=3000)
        for line in p.stdout.splitlines():
            if line.startswith("{"):
                r = json.loads(line)
                outs[r["id"]] = r
        if p.returncode != 0:
            raise ToolError("typerun died: " + p.stderr[-500:])
    tf = os.path.join(WORK, "narrow_trace_%d.ndjson" % os.getpid())
    byid = {r["id"]: r for r in reqs}
    nrec = rejected = 0
    with open(tf, "w") as f:
        for r in reqs:
            o = outs.get(r["id"])
            if o is None or o["outcome"]["t"] == "none":
                continue
            if o["outcome"]["t"] in ("rejected", "nocode"):
                rejected += 1
                continue
            out = o["outcome"] if o["outcome"]["t"] != "value" else {"t": "value"}
            f.write(json.dumps({"id": r["id"], "outcome": out, "rich": o["rich"], "type": o["type"],
                                "type_text": o["type_text"], "nilok": False}) + "\n")
            nrec += 1
    res = tlc("Soundness", "Soundness.cfg", env={"SOUND_TRACE": tf}, workers=1, timeout=3000)
    check.add_tlc("judge:Soundness(narrowing programs)", res)
    if "INCOMPLETE" in res.out or (not res.ok and "MISMATCH|" not in res.out):
        raise ToolError("Soundness did not consume the records: " + res.out[-1500:])
    os.remove(tf)
    check.cov["narrowing_programs"] = {"offered": len(reqs), "judged": nrec, "rejected_by_compiler": rejected}
    seen = set()
    for m in re.finditer(r'^"MISMATCH\|([^|]*)\|(\w+)\|(.*)"$', res.out, re.M):
        rid, rule, detail = m.group(1), m.group(2), m.group(3)
        src = byid[rid]["src"]
        key = "narrowing:%s:%s" % (rule, src[:160])
        if key in seen or len(seen) >= 5:
            continue
        seen.add(key)
        check.violation({"property": prop, "kind": "narrowing-program", "rule": rule, "program": src, "detail": detail[:800],
                         "outcome": outs.get(rid, {}).get("outcome"), "type": outs.get(rid, {}).get("type_text")},
                        name="NarrowingKeepsValues", key=key,
                        what="the value that reaches a branch does not inhabit the narrowed type: %s -> %s" % (src[:200], detail[:160]))
    return nrec


def replay(prop, path):
    r = json.load(open(path))
    p = common.run_bin("typerun", stdin=json.dumps({"id": "replay", "src": r["program"]}) + "\n")
    print(p.stdout[:3000])
    o = json.loads(p.stdout.splitlines()[0])
    if o["outcome"]["t"] == "error" and o["outcome"]["e"].split(":")[0] in (
            "TypeMismatch", "FieldAccessInvalid", "CallInvalid", "ArityMismatch", "StackUnderflow", "VariableUndefined",
            "FunctionUndefined", "FrameUnderflow"):
        print("VIOLATION property=%s replay=%s" % (prop, path))
        return 1
    return 0
