#!/usr/bin/env python3
"""Self-test of the C02 judge WITHOUT touching /repo: errors are seeded on the SPECIFICATION side.

The same records of real runs (generated + tiny-scope + corpus) are judged against mutated copies of
spec/SeqLang.tla, each of which gets one rule of the language wrong.  A live judge must report
disagreements for every mutant and none (beyond the known findings) for the original.

usage: engines/seqlang_selftest.py [n_generated]       (exit 0 = every mutant was noticed)
"""
import collections
import json
import os
import shutil
import sys

HERE = os.path.dirname(os.path.abspath(__file__))
sys.path.insert(0, os.path.join(os.path.dirname(HERE), "lib"))
sys.path.insert(0, HERE)
import common
import seqast
import seqgen
import seqlang

MUTANTS = [
    ("nil_consequence_falls_through",
     "a consequence that evaluates to nil falls through to the next branch (spec.md: it commits)",
     "          ELSE EvalSeq(bs[i].cons[1], 1, v, c.env, cx)",
     "          ELSE LET k == EvalSeq(bs[i].cons[1], 1, v, c.env, cx)\n"
     "               IN IF k.st = \"ok\" /\\ k.v.k = \"nil\" THEN EvalBranches(bs, i + 1, v, env, cx) ELSE k"),
    ("consequence_starts_from_condition_value",
     "the consequence starts from the condition's value instead of the block parameter",
     "          ELSE EvalSeq(bs[i].cons[1], 1, v, c.env, cx)",
     "          ELSE EvalSeq(bs[i].cons[1], 1, c.v, c.env, cx)"),
    ("sequence_does_not_short_circuit",
     "a nil step does not short-circuit the rest of the sequence",
     "          ELSE IF r.v.k = \"nil\" THEN r\n          ELSE EvalSeq(chains, i + 1, r.v, r.env, cx)",
     "          ELSE EvalSeq(chains, i + 1, r.v, r.env, cx)"),
    ("chain_short_circuits_on_nil",
     "a chain stops at nil (spec.md: a chain is an infallible pipe)",
     "       IN IF r.st # \"ok\" THEN r ELSE EvalTerms(terms, i + 1, r.v, r.env, cx)",
     "       IN IF r.st # \"ok\" \\/ r.v.k = \"nil\" THEN r ELSE EvalTerms(terms, i + 1, r.v, r.env, cx)"),
    ("block_bindings_escape",
     "bindings made inside a block escape into the enclosing scope",
     "  IN [r EXCEPT !.env = env]          \\* bindings made inside a block do not escape",
     "  IN r"),
    ("field_bindings_do_not_flow_left_to_right",
     "what one tuple field binds is not visible in the next field (evaluation order of fields)",
     "               ELSE EvalFields(fields, i + 1, AddField(acc, fd.label, r.v), v, r.env, cx)",
     "               ELSE EvalFields(fields, i + 1, AddField(acc, fd.label, r.v), v, env, cx)"),
    ("nilary_function_receives_flowing_value",
     "a nilary function is called with the flowing value instead of nil",
     "  ELSE LET a == IF Nilary(f) THEN NilV ELSE arg",
     "  ELSE LET a == arg"),
    ("spread_appends_instead_of_overriding",
     "a spread / later field with an existing label is appended instead of replacing in place",
     "  LET pos == IF l = \"\" THEN 0 ELSE LabelPos(acc.ls, l)",
     "  LET pos == 0"),
    ("repeated_binder_not_compared",
     "the same binder twice in one pattern is not required to hold equal values",
     "BindVar(name, v, ms) == IF name \\in DOMAIN ms.b THEN EqCheck(ms, ms.b[name], v)\n"
     "                        ELSE [ms EXCEPT !.b = Bind(ms.b, name, v)]",
     "BindVar(name, v, ms) == [ms EXCEPT !.b = Bind(ms.b, name, v)]"),
    ("tail_call_is_a_plain_call",
     "`^` is an ordinary call whose result keeps flowing / falls through like any value",
     "  LET r == Call(f, arg, cx) IN IF r.st = \"ok\" THEN R(\"ret\", r.v, env) ELSE [r EXCEPT !.env = env]",
     "  LET r == Call(f, arg, cx) IN [r EXCEPT !.env = env]"),
    ("dynamic_scoping",
     "a function body sees the caller's current bindings instead of the scope captured by its literal",
     "CallFrom(f, arg, env, cx) == [Call(f, arg, cx) EXCEPT !.env = env]",
     "CallFrom(f, arg, env, cx) == [Call([f EXCEPT !.env = Merge(f.env, env)], arg, cx) EXCEPT !.env = env]"),
    ("partial_pattern_requires_all_fields",
     "a partial pattern also requires the value to have no other fields",
     "         IF /\\ IsTup(v) /\\ (p.name = \"\" \\/ p.name = TName(v))\n"
     "            /\\ \\A i \\in 1..Len(p.fields) : LabelPos(TLs(v), p.fields[i].label) > 0",
     "         IF /\\ IsTup(v) /\\ (p.name = \"\" \\/ p.name = TName(v)) /\\ Len(p.fields) = Len(TFs(v))\n"
     "            /\\ \\A i \\in 1..Len(p.fields) : LabelPos(TLs(v), p.fields[i].label) > 0"),
    ("division_by_zero_is_nil",
     "division by zero yields nil instead of the documented error",
     "                 IF y = 0 THEN R(\"err\", ErrV(\"InvalidArgument:Division by zero\"), EmptyEnv)",
     "                 IF y = 0 THEN Ok(NilV, EmptyEnv)"),
]


def main(argv):
    n = int(argv[1]) if len(argv) > 1 else 2000
    common.build_harness()
    progs = seqgen.generate_programs(common.seed() * 1000003, n)
    progs += seqgen.tiny_programs(5) + seqgen.tiny_programs(6, focus=True)
    for p in progs:
        p["src"] = seqast.render(p["ast"])
    progs = seqlang.adopt_parser_ast(progs)
    corpus, _ = seqlang.corpus_programs()
    progs += corpus
    real = seqlang.run_real(progs)
    records, rejected, _ = seqlang.build_records(progs, real)
    byid = {p["id"]: p for p in progs}
    print("%d records of real runs (%d programs rejected by the compiler)" % (len(records), len(rejected)))
    base, _, _ = seqlang.judge(records, name="selftest_base")
    base_ids = {m["id"] for m in base}
    keys = seqlang.classify(base, byid) if base else {}
    print("original specification: %d disagreements, attributed to known findings: %s, unexplained: %d"
          % (len(base), dict(collections.Counter(k for k in keys.values() if k)),
             sum(1 for k in keys.values() if k is None)))
    src = open(os.path.join(common.SPEC, "SeqLang.tla")).read()
    missed = []
    for name, what, old, new in MUTANTS:
        if src.count(old) != 1:
            print("MUTANT %-45s cannot be applied (text not found exactly once)" % name)
            missed.append(name)
            continue
        d = os.path.join(seqlang.WORKDIR, "mut_" + name)
        os.makedirs(d, exist_ok=True)
        open(os.path.join(d, "SeqLang.tla"), "w").write(src.replace(old, new))
        for f in ("SeqLangTrace.tla", "SeqLangTrace.cfg"):
            shutil.copy(os.path.join(common.SPEC, f), d)
        mm, sk, _ = seqlang.judge(records, name="selftest_" + name, cwd=d)
        new_mm = [m for m in mm if m["id"] not in base_ids]
        ex = ""
        if new_mm:
            m = min(new_mm, key=lambda m: len(byid[m["id"]]["src"]))
            ex = "e.g. `%s`: real run %s, mutant expects %s" % (
                byid[m["id"]]["src"].replace("\n", " <nl> ")[:120], json.dumps(m["obs"])[:90], json.dumps(m["exp"])[:90])
        print("MUTANT %-45s %5d real runs reported as mismatches  %s" % (name, len(new_mm), ex))
        if not new_mm:
            missed.append(name)
        shutil.rmtree(d, ignore_errors=True)
    print("self-test: %d of %d seeded specification errors were noticed%s"
          % (len(MUTANTS) - len(missed), len(MUTANTS), "" if not missed else "; MISSED: " + ", ".join(missed)))
    return 1 if missed else 0


if __name__ == "__main__":
    sys.exit(main(sys.argv))
