#!/usr/bin/env python3
"""Mutation self-test of the C20 engine (run by hand: `python3 engines/num_selftest.py`).

Takes the text of /repo/std/num.qv (read only), applies one realistic single-site mutation at a time
and serves the mutated text as the in-memory module `%numm` (qrun "modules"); the engine then tests
`%numm.<op>` while operands are still built with the standard `%num`.  Expectation: the unmutated
copy passes (exit 0), every mutant is reported (exit 1 with VIOLATION lines), and a stored replay of
a mutant still fails on replay.  Nothing under /repo is touched; evidence/C20.json is preserved by
the engine for runs with NUM_MODULE_SRC set; replay files written for mutants are removed again.
"""
import os
import re
import subprocess
import sys
import time

VERIF = os.path.dirname(os.path.dirname(os.path.abspath(__file__)))
SRC = "/repo/std/num.qv"
OUT = os.path.join(VERIF, "work", "num_mut")

MUTANTS = [
    ("identity", "unmutated copy of std/num.qv", None, None),
    ("reduce-forgets-sign", "reduce never normalises the sign of the denominator (seen through div by a negative)",
     "| [d, 0] __integer_compare__ =-1 => {\n      Rational[[n, -1]",
     "| [d, 0] __integer_compare__ =-2 => {\n      Rational[[n, -1]"),
    ("rmul-skips-gcd", "rational multiply does not reduce to lowest terms",
     "Rational[[a, c] __integer_multiply__, [b, d] __integer_multiply__] reduce",
     "Rational[[a, c] __integer_multiply__, [b, d] __integer_multiply__]"),
    ("ssign-negative-part", "sign of a + b*sqrt(n) wrong when a < 0 < b (ordering of surds with a negative rational part)",
     "| [sa, 0] __integer_compare__ =-1 => [dsign, -1] __integer_multiply__",
     "| [sa, 0] __integer_compare__ =-1 => dsign"),
    ("mixed-radicals-value", "mixed radicals yield a value (the first radical) instead of nil",
     "| [n1, n2] __integer_compare__ =0 => n1\n    | []",
     "| [n1, n2] __integer_compare__ =0 => n1\n    | n1"),
    ("surd-div-zero", "division of a surd by zero is not guarded",
     "| dd rsign =0 => []",
     "| dd rsign =2 => []"),
    ("round-tie-negative", "round breaks a negative tie toward zero instead of away from it",
     "| [f, 0] __integer_compare__ =-1 => f\n",
     "| [f, 0] __integer_compare__ =-1 => [f, 1] __integer_add__\n"),
    ("to_int-surd-off-by-one", "truncation of a surd with a negative radical part is off by one",
     "| [p, [s, 1] __integer_add__] __integer_subtract__",
     "| [p, s] __integer_subtract__"),
    ("add-lowers-rational", "rational + x is lowered to an int when integral (kind rule broken)",
     "| =[Rational[a, b], y] => [Rational[a, b], y to_rational] radd\n",
     "| =[Rational[a, b], y] => [Rational[a, b], y to_rational] radd lower\n"),
]


def main():
    os.makedirs(OUT, exist_ok=True)
    text = open(SRC).read()
    env = dict(os.environ, NUM_MODULE="numm", NUM_CASE_CACHE="1", NUM_SKIP_LAWS="1")
    rows, ok_all, a_replay = [], True, None
    for name, what, old, new in MUTANTS:
        src = text
        if old is not None:
            assert text.count(old) == 1, "mutation site of %s not unique/present" % name
            src = text.replace(old, new)
        path = os.path.join(OUT, name + ".qv")
        with open(path, "w") as f:
            f.write(src)
        env["NUM_MODULE_SRC"] = path
        t0 = time.time()
        p = subprocess.run([os.path.join(VERIF, "check"), "C20"], cwd=VERIF, env=env,
                           stdout=subprocess.PIPE, stderr=subprocess.STDOUT, text=True)
        dt = time.time() - t0
        viol = re.findall(r"^VIOLATION property=C20 replay=(\S+)$", p.stdout, re.M)
        firsts = [l.strip() for l in p.stdout.splitlines() if l.startswith("  ") and "observed" in l][:2]
        expect = 0 if old is None else 1
        good = (p.returncode == expect) and (bool(viol) == bool(expect))
        if name != "identity" and viol and a_replay is None:
            a_replay = (name, viol[0], path)
            r = subprocess.run([os.path.join(VERIF, "check"), "C20", "--replay", viol[0]], cwd=VERIF,
                               env=dict(os.environ), stdout=subprocess.PIPE, stderr=subprocess.STDOUT, text=True)
            good = good and r.returncode == 1 and "VIOLATION property=C20" in r.stdout
            print("%-26s rc=%d  (stored replay re-run against the mutant: %s)"
                  % ("replay " + name, r.returncode, "still fails" if r.returncode == 1 else "UNEXPECTED"))
        ok_all = ok_all and good
        rows.append((name, "rc=%d" % p.returncode, "%d VIOLATION line(s), %.0f s" % (len(viol), dt),
                     "OK" if good else "UNEXPECTED"))
        print("%-26s %-5s %-28s %s   -- %s" % (rows[-1] + (what,)))
        for l in firsts:
            print("      " + l[:200])
        if not good:
            print(p.stdout[-3000:])
        for v in viol:
            if os.path.exists(v):
                os.remove(v)
    print("self-test %s" % ("PASSED: identity passes, every mutant caught" if ok_all else "FAILED"))
    return 0 if ok_all else 1


if __name__ == "__main__":
    sys.exit(main())
