"""C20 - the num module computes exactly and propagates absence.

TLC is the oracle at both ends:

  1. spec/MC_NumLaws.tla  - the field and order laws hold of the specification itself;
  2. spec/MC_Num.tla      - TLC enumerates every (operation, operands) case over the operand
                            universes of spec/Num.tla, one state per case, and prints the case with
                            its specified result and a boundary flag;
  3. this file            - renders the cases as Quiver programs (operands are literals such as
                            `3/4`, `[]`, or surds built by earlier `%num` results; many cases per
                            program), runs them through the real compiler + runtime (common.qrun) and
                            records {id, op, args, obs} in abstract JSON form;
  4. spec/NumTrace.tla    - TLC recomputes the specified canonical result of every record and
                            requires the observation to be exactly that value (kind, lowest terms,
                            positive denominator, nil where specified; an error is a mismatch).

Python only moves data: it never computes an expected value.

Environment: NUM_MODULE (module whose operations are tested, default `num`), NUM_MODULE_SRC (path
of a source text served as that in-memory module - used by the mutation self-test,
engines/num_selftest.py), NUM_BATCH (cases per program, default 80), NUM_SAMPLE (quick-tier sample
size, default 12000), NUM_CASE_CACHE=1 (reuse the last TLC enumeration while the spec files are
unchanged; self-test only), NUM_SKIP_LAWS=1 (self-test only).
"""
import collections
import concurrent.futures
import hashlib
import json
import os
import random
import threading
import time

import common

CASE_PREFIX = '<<"CASE", '
MISMATCH_PREFIX = '<<"MISMATCH", '

# The "huge magnitude" literals behind the Huge(id, kind, sgn) placeholders of MC_Num.tla.  Only the
# implementation sees them; kind and sign are asserted against the placeholder when rendering.
HUGE = {
    1: ("int", 1, str(2 ** 70)),
    2: ("int", -1, str(-(3 ** 50))),
    3: ("rat", 1, "%d/7" % (10 ** 30 + 1)),
    4: ("rat", -1, "-%d/3" % (2 ** 80 + 1)),
}

RULE = ("for every enumerated case (operation, operands): the value observed from std/num.qv equals "
        "Spec(op, operands) of spec/Num.tla exactly - exact value in Q(sqrt r), canonical form (lowest "
        "terms, positive denominator, int op int stays int under add/sub/mul, a rational is never "
        "lowered, div always a rational, surd results collapsed to the simplest form), nil for a nil "
        "operand, division by zero, mixed radicals, sqrt of a negative or of a surd; a runtime error "
        "never equals a specified result.  Judged by TLC (NumTrace.tla, invariant Conforms).")

UNARY = {"neg", "abs", "sqrt", "numer", "denom", "floor", "ceil", "round", "to_int", "sign"}
BINARY = {"add", "sub", "mul", "div", "min", "max", "eq?", "lt?", "le?", "gt?", "ge?"}


def module_under_test():
    name = os.environ.get("NUM_MODULE", "num")
    path = os.environ.get("NUM_MODULE_SRC")
    return name, path


# ---------------------------------------------------------------------------
# 1/2. TLC: laws and case enumeration
# ---------------------------------------------------------------------------
def spec_hash():
    h = hashlib.sha1()
    for f in ("Num.tla", "MC_Num.tla", "MC_Num.cfg"):
        h.update(open(os.path.join(common.SPEC, f), "rb").read())
    return h.hexdigest()[:12]


def enumerate_cases(check):
    """Run MC_Num; return the list of cases {"op", "args", "exp", "b"} in a canonical order."""
    cache = os.path.join(common.WORK, "num_cases_%s.json" % spec_hash())
    if os.environ.get("NUM_CASE_CACHE") == "1" and os.path.exists(cache):
        cases = json.load(open(cache))
        check.cov["enumeration"] = "cached TLC enumeration (self-test mode)"
        return cases
    res = common.tlc("MC_Num", "MC_Num.cfg", workers=12, timeout=900)
    check.add_tlc("MC_Num(enumerate cases)", res)
    if not res.ok:
        print(res.out[-3000:])
        raise common.ToolError("MC_Num failed: the specification violates its own sanity invariants %s"
                               % (res.violated,))
    cases = []
    for p in res.prints:
        if p.startswith(CASE_PREFIX):
            cases.append(json.loads(json.loads(p[len(CASE_PREFIX):-2])))
    if not cases or len({case_sort_key(c) for c in cases}) != len(cases):
        raise common.ToolError("MC_Num printed no cases or duplicate cases")
    cases.sort(key=case_sort_key)
    if os.environ.get("NUM_CASE_CACHE") == "1":
        json.dump(cases, open(cache, "w"))
    return cases


def case_sort_key(c):
    return (c["op"], json.dumps(c["args"], sort_keys=True))


def run_laws(out):
    try:
        out["res"] = common.tlc("MC_NumLaws", "MC_NumLaws.cfg", workers=6, timeout=900, extra=["-continue"])
    except Exception as e:  # re-raised in the main thread
        out["exc"] = e


def select(cases, tier):
    if tier == "thorough":
        return list(cases)
    rnd = random.Random(common.seed())
    want = int(os.environ.get("NUM_SAMPLE", "12000"))
    chosen = [c for c in cases if c["b"]]
    rest = collections.defaultdict(list)
    for c in cases:
        if not c["b"]:
            rest[c["op"]].append(c)
    total = sum(len(v) for v in rest.values()) or 1
    for op in sorted(rest):
        v = rest[op]
        k = min(len(v), max(120, int(want * len(v) / total)))
        chosen.extend(rnd.sample(v, k))
    chosen.sort(key=case_sort_key)
    return chosen


# ---------------------------------------------------------------------------
# 3. rendering and running
# ---------------------------------------------------------------------------
def lit_coef(c):
    if c["k"] == "int":
        return "%d" % c["n"]
    if c["k"] == "rat":
        return "%d/%d" % (c["n"], c["d"])
    raise ValueError("not a coefficient: %r" % (c,))


class Prelude:
    """Bindings that build the operands of one program.  Surds are obtained from earlier results
    of the STANDARD %num (sqrt, mul, add) so that the operands are what the specification says
    even when the module under test is a mutant; every operand is separately checked by the
    `lit` cases."""

    def __init__(self, mod):
        self.mod = mod
        self.lines = []
        self.roots = {}
        self.surds = {}
        self.cmp = False

    def root(self, r):
        if r not in self.roots:
            self.roots[r] = "s%d" % r
            self.lines.append("s%d = %d %%num.sqrt" % (r, r))
        return self.roots[r]

    def operand(self, v):
        k = v["k"]
        if k in ("int", "rat"):
            return lit_coef(v)
        if k == "nil":
            return "[]"
        if k == "huge":
            kind, sgn, text = HUGE[v["id"]]
            assert kind == v["kind"] and sgn == v["sgn"], "huge literal table out of step with MC_Num.tla"
            return text
        if k == "surd":
            key = json.dumps(v, sort_keys=True)
            if key not in self.surds:
                s = self.root(v["r"])
                a, b = v["a"], v["b"]
                term = s if (b["k"] == "int" and b["n"] == 1) else "[%s, %s] %%num.mul" % (lit_coef(b), s)
                if not (a["k"] == "int" and a["n"] == 0):
                    term = "[%s, %s] %%num.add" % (lit_coef(a), term)
                name = "v%d" % len(self.surds)
                if term == s:
                    name = s
                else:
                    self.lines.append("%s = %s" % (name, term))
                self.surds[key] = name
            return self.surds[key]
        raise ValueError("cannot render operand %r" % (v,))

    def compare(self):
        """num.qv does not export `compare`; it is observed through the public predicates."""
        if not self.cmp:
            self.cmp = True
            m = self.mod
            self.lines.append("cmp = #['%%%s.opt, '%%%s.opt] { | %%%s.lt? => -1 | %%%s.eq? => 0 | %%%s.gt? => 1 }"
                              % (m, m, m, m, m))
        return "cmp"


def render_case(c, pre):
    op, a, m = c["op"], c["args"], pre.mod
    x = [pre.operand(v) for v in a]
    if op == "lit":
        return ("&" + x[0]) if a[0]["k"] == "surd" else x[0]
    if op in UNARY:
        return "%s %%%s.%s" % (x[0], m, op)
    if op in BINARY:
        return "[%s, %s] %%%s.%s" % (x[0], x[1], m, op)
    if op == "compare":
        return "[%s, %s] %s" % (x[0], x[1], pre.compare())
    if op == "clamp":
        return "[%s, %s, %s] %%%s.clamp" % (x[0], x[1], x[2], m)
    if op == "h_addsub":      # (x + M) - M
        return "[[%s, %s] %%%s.add, %s] %%%s.sub" % (x[0], x[1], m, x[1], m)
    if op == "h_subadd":      # (x - M) + M
        return "[[%s, %s] %%%s.sub, %s] %%%s.add" % (x[0], x[1], m, x[1], m)
    if op == "h_muldiv":      # (x * M) / M
        return "[[%s, %s] %%%s.mul, %s] %%%s.div" % (x[0], x[1], m, x[1], m)
    if op == "h_sign":        # sign(x * M)
        return "[%s, %s] %%%s.mul %%%s.sign" % (x[0], x[1], m, m)
    if op == "h_scalediv":    # (x M) / (y M)
        return "[[%s, %s] %%%s.mul, [%s, %s] %%%s.mul] %%%s.div" % (x[0], x[2], m, x[1], x[2], m, m)
    if op == "h_shiftcmp":    # x + M ? y + M
        return "[[%s, %s] %%%s.add, [%s, %s] %%%s.add] %s" % (x[0], x[2], m, x[1], x[2], m, pre.compare())
    if op == "h_scalecmp":    # x M ? y M
        return "[[%s, %s] %%%s.mul, [%s, %s] %%%s.mul] %s" % (x[0], x[2], m, x[1], x[2], m, pre.compare())
    raise ValueError("unknown operation %r" % op)


def render_program(cases, mod):
    """One program for many cases: every result is bound (a binding yields Ok, so a nil result
    does not short-circuit the sequence) and the program returns the tuple of all results."""
    pre = Prelude(mod)
    body = []
    for i, c in enumerate(cases):
        body.append("r%d = %s" % (i, render_case(c, pre)))
    steps = pre.lines + body + ["[" + ", ".join("&r%d" % i for i in range(len(cases))) + "]"]
    return ", ".join(steps)


INT32 = 2 ** 31 - 1


def abstract(v):
    """Runtime JSON value -> the abstract value form of Num.tla (a pure re-encoding)."""
    def other():
        return {"k": "other", "s": json.dumps(v, sort_keys=True)[:300]}
    k = v.get("k")
    if k == "int":
        return {"k": "int", "n": v["n"]} if abs(v["n"]) <= INT32 else other()
    if k == "nil":
        return {"k": "nil"}
    if k == "tup":
        name, fs = v.get("name"), v.get("fs", [])
        if name == "Ok" and not fs:
            return {"k": "ok"}
        if name == "Rational" and len(fs) == 2:
            n, d = abstract(fs[0]), abstract(fs[1])
            if n["k"] == "int" and d["k"] == "int":
                return {"k": "rat", "n": n["n"], "d": d["n"]}
        if name == "Surd" and len(fs) == 3:
            a, b, r = abstract(fs[0]), abstract(fs[1]), abstract(fs[2])
            if a["k"] in ("int", "rat") and b["k"] in ("int", "rat") and r["k"] == "int":
                return {"k": "surd", "a": a, "b": b, "r": r["n"]}
    return other()


class Runner:
    def __init__(self, mod, mod_src):
        self.mod, self.mod_src = mod, mod_src
        self.lock = threading.Lock()
        self.programs = 0
        self.isolated = 0
        self.batch_only_errors = []
        self.ids = 0

    def _prog(self, cases):
        with self.lock:
            self.ids += 1
            pid = self.ids
        p = {"id": pid, "src": render_program(cases, self.mod)}
        if self.mod_src is not None:
            p["modules"] = {self.mod: self.mod_src}
        return p

    def _qrun(self, progs):
        with self.lock:
            self.programs += len(progs)
        try:
            return common.qrun(progs, timeout=900)
        except common.ToolError:
            if len(progs) == 1:
                return {progs[0]["id"]: {"outcomes": [{"t": "error", "e": "runtime-aborted"}], "crashes": []}}
            out = {}
            for p in progs:
                out.update(self._qrun([p]))
            return out

    @staticmethod
    def _failure(rec):
        if rec is None:
            return {"k": "error", "e": "no-result"}
        if rec.get("crashes"):
            return {"k": "error", "e": "crash: " + json.dumps(rec["crashes"])[:200]}
        o = rec["outcomes"][-1] if rec.get("outcomes") else {"t": "nocode"}
        if o["t"] == "error":
            return {"k": "error", "e": str(o.get("e"))}
        if o["t"] == "rejected":
            return {"k": "error", "e": "rejected: " + str(o.get("m"))[:200]}
        return {"k": "error", "e": o["t"]}

    def run_batches(self, batches):
        """batches: list of lists of cases; returns a parallel list of lists of observations."""
        progs = [self._prog(b) for b in batches]
        recs = self._qrun(progs)
        result = []
        for b, p in zip(batches, progs):
            rec = recs.get(p["id"])
            obs = None
            if rec and not rec.get("crashes") and rec.get("outcomes"):
                o = rec["outcomes"][-1]
                if o["t"] == "value" and o["v"].get("k") == "tup" and o["v"].get("name") == "" \
                        and len(o["v"]["fs"]) == len(b):
                    obs = [abstract(v) for v in o["v"]["fs"]]
            if obs is None:
                if len(b) == 1:
                    obs = [self._failure(rec)]
                    with self.lock:
                        self.isolated += 1
                else:
                    # one case failed the whole program: isolate it by splitting
                    q = max(1, (len(b) + 3) // 4)
                    parts = [b[i:i + q] for i in range(0, len(b), q)]
                    sub = self.run_batches(parts)
                    obs = [x for part in sub for x in part]
                    if all(x["k"] != "error" for x in obs):
                        with self.lock:
                            self.batch_only_errors.append({"failure": self._failure(rec), "program": p["src"][:2000]})
            result.append(obs)
        return result


def run_cases(cases, mod, mod_src, batch, threads=10):
    runner = Runner(mod, mod_src)
    batches = [cases[i:i + batch] for i in range(0, len(cases), batch)]
    per_job = 12
    jobs = [batches[i:i + per_job] for i in range(0, len(batches), per_job)]
    obs = []
    with concurrent.futures.ThreadPoolExecutor(max_workers=threads) as ex:
        for part in ex.map(runner.run_batches, jobs):
            for b in part:
                obs.extend(b)
    assert len(obs) == len(cases)
    return obs, runner


# ---------------------------------------------------------------------------
# 4. judging with TLC
# ---------------------------------------------------------------------------
def judge(records, tag, check=None):
    """Write the records and let TLC judge them.  Returns (TlcResult, {id: expected})."""
    path = os.path.join(common.WORK, "num_trace_%s.ndjson" % tag)
    with open(path, "w") as f:
        for r in records:
            f.write(json.dumps(r) + "\n")
    res = common.tlc("NumTrace", "NumTrace.cfg", env={"NUM_TRACE": path}, workers=12, timeout=1800,
                     extra=["-continue"], metadir=os.path.join(common.WORK, "tlc_NumTrace_%s_%d" % (tag, os.getpid())))
    if check is not None:
        check.add_tlc("NumTrace(judge records)", res)
    if res.eval_error or (res.rc != 0 and not res.violated):
        print(res.out[-3000:])
        raise common.ToolError("NumTrace could not evaluate the records (%s)" % path)
    n = len(records)
    expected_states = 1 + (n + 399) // 400 + n
    if res.distinct != expected_states:
        print(res.out[-2000:])
        raise common.ToolError("NumTrace judged %d states, expected %d" % (res.distinct, expected_states))
    bad = {}
    for p in res.prints:
        if p.startswith(MISMATCH_PREFIX):
            j = json.loads(json.loads(p[len(MISMATCH_PREFIX):-2]))
            bad[j["id"]] = j["exp"]
    if bool(bad) != bool(res.violated):
        print(res.out[-2000:])
        raise common.ToolError("NumTrace: violations and MISMATCH lines disagree")
    return res, bad


def arg_class(args):
    nums = [a for a in args if a["k"] != "huge"]
    if any(a["k"] == "nil" for a in nums):
        return "nil"
    rad = {a["r"] for a in nums if a["k"] == "surd"}
    if len(rad) > 1:
        return "mixed-radicals"
    return ",".join(a["k"] for a in nums)


def finding_key(case):
    return "%s:%s" % (case["op"], arg_class(case["args"]))


def show(v):
    k = v.get("k")
    if k == "int":
        return str(v["n"])
    if k == "rat":
        return "%d/%d" % (v["n"], v["d"])
    if k == "surd":
        return "Surd[%s, %s, %d]" % (show(v["a"]), show(v["b"]), v["r"])
    if k == "nil":
        return "[]"
    if k == "ok":
        return "Ok"
    if k == "huge":
        return "M%d" % v["id"]
    if k == "error":
        return "runtime error %s" % v.get("e")
    return "<%s>" % v.get("s", k)


def describe(case, obs, exp):
    return "%s(%s): observed %s, specified %s" % (case["op"], ", ".join(show(a) for a in case["args"]),
                                                   show(obs), show(exp))


# ---------------------------------------------------------------------------
# entry points
# ---------------------------------------------------------------------------
def run(prop, tier):
    mod, mod_path = module_under_test()
    mod_src = open(mod_path).read() if mod_path else None
    ev_path = os.path.join(common.EVIDENCE, prop + ".json")
    saved_evidence = open(ev_path).read() if (mod_path and os.path.exists(ev_path)) else None

    check = common.Check(prop, tier)
    check.cov["rule"] = RULE
    check.cov["module_under_test"] = "%%%s%s" % (mod, " (in-memory source %s)" % mod_path if mod_path else " (std/num.qv)")

    check.assumptions += [
        "TLC integers are 32-bit: operands are small (see operand_universe); magnitudes beyond 32 bits are reached only "
        "through the huge-magnitude scaling laws, whose specified result is the small value",
        "num.qv does not export compare: it is observed as -1/0/1/nil through the public lt?/eq?/gt? (op `compare`)",
        "surd operands are built from earlier results of the standard %num (sqrt, mul, add); each operand is itself "
        "judged by a `lit` case, so a wrong construction is reported, not assumed away",
        "clamp is enumerated only for non-empty ranges (lo <= hi whenever the two are comparable)",
    ]
    laws = {}
    law_thread = None
    if os.environ.get("NUM_SKIP_LAWS") != "1":
        law_thread = threading.Thread(target=run_laws, args=(laws,))
        law_thread.start()

    cases = enumerate_cases(check)
    chosen = select(cases, tier)
    batch = int(os.environ.get("NUM_BATCH", "80"))
    t0 = time.time()
    obs, runner = run_cases(chosen, mod, mod_src, batch)
    t_run = time.time() - t0

    records = [{"id": i, "op": c["op"], "args": c["args"], "obs": o} for i, (c, o) in enumerate(zip(chosen, obs))]
    res, bad = judge(records, "run", check)

    if law_thread is not None:
        law_thread.join()
        if "exc" in laws:
            raise laws["exc"]
        lres = laws["res"]
        check.add_tlc("MC_NumLaws(field and order laws of the oracle)", lres)
        if not lres.ok:
            print(lres.out[-4000:])
            raise common.ToolError("the specification Num.tla violates its own laws: %s" % (lres.violated,))
        check.cov["laws_checked"] = (lres.distinct - 1) // 2

    # ---- coverage -------------------------------------------------------------------------
    per_op = collections.Counter(c["op"] for c in chosen)
    classes = collections.Counter()
    nontrivial = set()
    for c in chosen:
        nums = [a for a in c["args"] if a["k"] != "huge"]
        kinds = {a["k"] for a in nums}
        if c["op"].startswith("h_"):
            classes["huge-magnitude scaling laws (M = 2^70, -3^50, (10^30+1)/7, -(2^80+1)/3)"] += 1
        elif "nil" in kinds:
            classes["nil operand"] += 1
        elif arg_class(c["args"]) == "mixed-radicals":
            classes["mixed radicals"] += 1
        elif "surd" in kinds:
            classes["surd operand (one radical)"] += 1
        elif "rat" in kinds:
            classes["rational operand"] += 1
        else:
            classes["integer operands"] += 1
        if c["exp"]["k"] not in ("nil",) and all(c["exp"] != a for a in nums):
            nontrivial.add(case_sort_key(c))
    cov = check.cov
    cov["traces_validated_against_impl"] = len(records)
    cov["evaluations"] = len(records)
    cov["distinct_nontrivial"] = len(nontrivial)
    cov["cases_enumerated_by_tlc"] = len(cases)
    cov["cases_run"] = len(chosen)
    cov["boundary_cases_run"] = sum(1 for c in chosen if c["b"])
    cov["selection"] = ("all enumerated cases" if tier == "thorough" else
                        "all boundary cases (zero, +-1 in int and rational form, nil, equal operands, mixed radicals "
                        "of representative surds, every unary case) + a seeded per-operation sample of the rest")
    cov["per_operation"] = dict(sorted(per_op.items()))
    cov["operand_classes"] = dict(classes)
    cov["operand_universe"] = ("ints -12..12; rationals n/d |n|<=12, 2<=d<=6 in lowest terms, and n/1; surds a+b*sqrt(r), "
                               "r in {2,3,5,6}, a in {0,1,-2,1/2,-3/2}, b in {1,-1,2,-1/2,2/3}; nil.  Operands beyond "
                               "32 bits are covered only through the huge-magnitude scaling laws.")
    cov["programs_run"] = runner.programs
    cov["cases_isolated_after_program_error"] = runner.isolated
    cov["quiver_wall_s"] = round(t_run, 2)
    cov["mismatches"] = len(bad)
    if runner.batch_only_errors:
        # a batch failed although each of its cases runs alone: not a num.qv matter (compiler/VM),
        # the cases were judged on their individual runs
        cov["batch_only_errors"] = runner.batch_only_errors[:3]
    step = max(1, len(records) // 6)
    for r in records[::step]:
        check.sample({"op": r["op"], "args": [show(a) for a in r["args"]], "observed": show(r["obs"])})

    # ---- verdicts -------------------------------------------------------------------------
    groups = collections.OrderedDict()
    for i in sorted(bad):
        groups.setdefault(finding_key(chosen[i]), []).append(i)
    reported = 0
    for key, ids in groups.items():
        i = min(ids, key=lambda n: (len(render_program([chosen[n]], mod)), n))   # the simplest representative
        c = chosen[i]
        replay_obj = {"property": prop, "engine": "num_engine", "module": mod, "module_src": mod_path,
                      "case": {"op": c["op"], "args": c["args"]}, "observed": obs[i], "specified": bad[i],
                      "program": render_program([c], mod), "class": key, "cases_in_class": len(ids)}
        what = "%s  [%d case(s) of class %s]" % (describe(c, obs[i], bad[i]), len(ids), key)
        if reported >= 12 and common.finding_for(prop, key) is None:
            print("  (further class %s: %d mismatching cases, e.g. %s)" % (key, len(ids), describe(c, obs[i], bad[i])))
            check.violations += 1
            continue
        if check.violation(replay_obj, key=key, what=what):
            reported += 1
    cov["mismatch_classes"] = {k: len(v) for k, v in groups.items()}

    rc = check.finish()
    if saved_evidence is not None:           # a mutant run must not replace the evidence of the real check
        with open(ev_path, "w") as f:
            f.write(saved_evidence)
    print("C20 %s: %d cases enumerated by TLC, %d run against %%%s in %d programs (%.1f s), %d judged by TLC, "
          "%d mismatches in %d classes, %d known findings"
          % (tier, len(cases), len(chosen), mod, runner.programs, t_run, len(records), len(bad), len(groups),
             len(check.seen_known)))
    return rc


def replay(prop, path):
    obj = json.load(open(path))
    mod = os.environ.get("NUM_MODULE") or obj.get("module", "num")
    mod_path = os.environ.get("NUM_MODULE_SRC") or obj.get("module_src")
    mod_src = open(mod_path).read() if mod_path else None
    case = obj["case"]
    obs, _ = run_cases([case], mod, mod_src, 1, threads=1)
    res, bad = judge([{"id": 0, "op": case["op"], "args": case["args"], "obs": obs[0]}], "replay")
    if bad:
        print("  " + describe(case, obs[0], bad[0]))
        print("VIOLATION property=%s replay=%s" % (prop, path))
        return 1
    print("replay: %s(%s) now conforms (observed %s)" % (case["op"], ", ".join(show(a) for a in case["args"]), show(obs[0])))
    return 0
