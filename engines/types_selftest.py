"""Self-test of the C09 / C08 judges WITHOUT touching /repo: the answers of the real code are
corrupted after the replay and TLC (TypesTrace / TypesValTrace) must report each corruption with
a witness.  Run: python3 /verif/engines/types_selftest.py   (exit 0 = every mutation detected,
and the uncorrupted answers of the same cases raise nothing).

  sound   claim is_compatible(A,B) for pairs where the specification has a witness in Vals(A)\\Vals(B)
  over    claim types_overlap(A,B) = false for pairs that share a value
  trans   claim is_compatible(A,B), is_compatible(B,C) and deny is_compatible(A,C)
  refl    deny is_compatible(A,A)
  inter   replace the result of `'a & 'b` by the never type
  compl   replace the type after the failed `='b` branch by the never type
  acc     (C08) turn a rejection into an acceptance and an acceptance into a rejection
"""
import copy
import json
import os
import sys

HERE = os.path.dirname(os.path.abspath(__file__))
sys.path.insert(0, os.path.join(os.path.dirname(HERE), "lib"))
sys.path.insert(0, HERE)
import common
import types_engine as te

INT, BIN = te.INT, te.BIN
LIST_I = te.T_uni(te.T_tup("Nil"), te.T_tup("Cons", ("", INT), ("", ("cyc", 1))))
LIST_IB = te.T_uni(te.T_tup("Nil"), te.T_tup("Cons", ("", te.T_uni(INT, BIN)), ("", ("cyc", 1))))
CLEAN = [
    # cases without partial types (so none of the open findings interferes)
    [INT, te.T_uni(INT, BIN), BIN],
    [te.T_tup("A", ("x", INT)), te.T_tup("A", ("x", te.T_uni(INT, BIN))), te.T_tup("B", ("x", INT))],
    [LIST_I, LIST_IB, te.T_tup("Nil")],
    [("fn", te.T_uni(INT, BIN), INT), ("fn", INT, te.T_uni(INT, BIN)), ("fn", BIN, BIN)],
    [te.T_tup("", ("", te.T_uni(INT, BIN)), ("", te.T_uni(INT, BIN))), te.T_tup("", ("", INT), ("", BIN)), INT],
]


def cases():
    out = []
    for terms in CLEAN:
        g, roots = te.terms_to_graph(terms)
        k = len(roots)
        judge = [[i, j] for i in range(1, k + 1) for j in range(1, k + 1) if i != j]
        out.append({"id": len(out) + 1, "g": g, "roots": roots, "judge": judge,
                    # (i < j only: the list case in the other direction is the open finding
                    #  identity:cycle-bearing-node-shared)
                    "narrow": [[i, j, "inter", "compl"] for i, j in judge if i < j], "src": "selftest"})
    return out


def never_result(x, field):
    x["g"]["types"].append({"k": "uni", "ms": []})
    x[field] = [len(x["g"]["types"])]


def mutate(records, mode):
    recs = copy.deepcopy(records)
    for r in recs:
        n = len(r["roots"])
        if mode == "sound":
            r["compat"] = [[True] * n for _ in range(n)]
        elif mode == "over":
            r["overlap"] = [[False] * n for _ in range(n)]
        elif mode == "refl":
            r["compat"][0][0] = False
        elif mode == "trans":
            r["compat"][0][1] = r["compat"][1][2] = True
            r["compat"][0][2] = False
        elif mode == "inter":
            for x in r["narrow"]:
                if x["inter"]:
                    never_result(x, "inter")
        elif mode == "compl":
            for x in r["narrow"]:
                if x["compl"]:
                    never_result(x, "compl")
    return recs


def main():
    common.build_harness()
    check = common.Check("selftest-types", "quick")
    records, crashed = te.replay_cases(cases())
    assert not crashed
    ok = True
    base, _ = te.judge_c09(check, records, "selftest-base")
    print("unmodified answers of the %d self-test cases: %d mismatches" % (len(records), len(base)))
    ok &= not base
    expect = {"sound": "SOUND", "over": "OVER", "refl": "REFL", "trans": "TRANS", "inter": "INTER", "compl": "COMPL"}
    for mode, rule in expect.items():
        mism, _ = te.judge_c09(check, mutate(records, mode), "selftest-" + mode)
        hits = [m for m in mism if m["rule"] == rule]
        need_wit = rule in ("SOUND", "OVER", "INTER", "COMPL")
        good = bool(hits) and (not need_wit or all(m["wit"] for m in hits))
        print("mutation %-6s -> %3d %s mismatches, e.g. %s" %
              (mode, len(hits), rule, json.dumps(hits[0]) if hits else "NONE"))
        ok &= good
    # C08: flip observed verdicts of a handful of enumerated cases
    vcs = [{"g": {"types": [{"k": "uni", "ms": []}, {"k": "int"}, {"k": "bin"}, {"k": "uni", "ms": [2, 3]}],
                  "tuples": []}, "t": 4, "v": {"k": "int", "n": 0}},
           {"g": {"types": [{"k": "uni", "ms": []}, {"k": "int"}, {"k": "tup", "t": 1}],
                  "tuples": [{"name": "A", "fs": [{"l": "x", "t": 2}]}]}, "t": 3,
            "v": {"k": "tup", "name": "A", "ls": ["x"], "fs": [{"k": "bin", "b": [1]}]}}]
    rows = []
    for i, vc in enumerate(vcs):
        runs = []
        for form, direct, _ in te.render_vcase(vc):
            out = common.qrun([{"id": "x", "src": direct}])["x"]
            runs.append({"cfg": "direct", "form": form, "acc": te.verdict_of(out["outcomes"][-1])})
        rows.append({"id": i + 1, "g": vc["g"], "t": vc["t"], "v": vc["v"], "runs": runs})

    def judge8(rs, name):
        path = os.path.join(te.WORKD, "selftest8.ndjson")
        with open(path, "w") as f:
            for r in rs:
                f.write(json.dumps(r) + "\n")
        res = common.tlc("TypesValTrace", "TypesValTrace.cfg", env={"TYPES_VTRACE": path}, workers=2,
                         timeout=300, extra=["-continue"])
        os.remove(path)
        return te.prints_of(res, te.MISMATCH_PREFIX)

    base8 = judge8(rows, "base")
    print("C08 unmodified: %d mismatches (runs: %s)" % (len(base8), [[x["acc"] for x in r["runs"]] for r in rows]))
    ok &= not base8
    flipped = copy.deepcopy(rows)
    for r in flipped:
        for x in r["runs"]:
            x["acc"] = "rej" if x["acc"] == "acc" else "acc"
    m8 = judge8(flipped, "flipped")
    rules = sorted({m["rule"] for m in m8})
    print("C08 flipped verdicts -> %d mismatches, rules %s, e.g. %s" % (len(m8), rules, json.dumps(m8[0]) if m8 else "NONE"))
    ok &= "ACC" in rules and "MEM" in rules
    one = copy.deepcopy(rows)
    one[0]["runs"].append({"cfg": "shaken", "form": one[0]["runs"][0]["form"], "acc": "rej"})
    m9 = judge8(one, "config")
    print("C08 one configuration disagreeing -> rules %s" % sorted({m["rule"] for m in m9}))
    ok &= any(m["rule"] == "SAME" for m in m9)
    print("SELFTEST %s" % ("passed" if ok else "FAILED"))
    return 0 if ok else 1


if __name__ == "__main__":
    sys.exit(main())
