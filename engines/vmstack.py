"""C07 (well-formed bytecode) and C16 (tail calls in constant space).

Pipeline (Python only moves data; every verdict is TLC's):
  corpus of Quiver programs
    -> harness/bcdump   (real compiler; forms: compiled, shaken, shaken_fn, merged)
    -> TLC spec/VMStack.tla   work-list fixpoint per function; invariants = the C07 clauses and
                              C16's static clause (TailCall heights)
    -> harness/vmtrace  (real executor, one instruction per step)
    -> TLC spec/VMTrace.tla   each observed step must be a transition of the same abstract
                              semantics (spec/VMSem.tla); divergence = model_drift;
                              a runtime StackUnderflow / VariableUndefined / FunctionUndefined /
                              ConstantUndefined / FrameUnderflow is a C07 violation
    -> TLC spec/VMPeaks.tla   C16: peaks at N and 50N equal, heap slots bounded
"""
import json, os, random, re, sys, time, glob, hashlib

HERE = os.path.dirname(os.path.abspath(__file__))
sys.path.insert(0, os.path.join(os.path.dirname(HERE), "lib"))
import common

REPO = "/repo"
WORKDIR = os.path.join(common.WORK, "vmstack")

RULES = {
    "underflow": "NoUnderflow", "jump_range": "JumpsInside", "index_range": "IndicesInRange",
    "type_index": "IndicesInRange", "operand": "IndicesInRange", "load_undefined": "LoadsDefined",
    "reset_range": "ResetInRange", "join_height": "JoinHeightsAgree", "exit_height": "ExitHeightOne",
    "tailcall_height": "TailCallHeights",
}
C07_RUNTIME_ERRORS = ("StackUnderflow", "VariableUndefined", "FunctionUndefined", "ConstantUndefined",
                      "FrameUnderflow")

STD_IMPORT = ("#{ [%dict, %num, %list, %str, %iter, %vec, %path, %range, %bin, %int, %dns, %file, %fs, "
              "%ref] }")


# ---------------------------------------------------------------------------------------------
# corpus: Rust test-suite string literals, spec.md blocks, examples, std
# ---------------------------------------------------------------------------------------------
_SIMPLE_ESC = {"n": "\n", "r": "\r", "t": "\t", "\\": "\\", "0": "\0", '"': '"', "'": "'"}


def rust_literal(text, i):
    """Parse a Rust string literal starting at text[i] ("..", r"..", r#".."#).
    Returns (value, end) or None."""
    n = len(text)
    if i < n and text[i] == "r":
        j = i + 1
        hashes = 0
        while j < n and text[j] == "#":
            hashes += 1
            j += 1
        if j < n and text[j] == '"':
            close = '"' + "#" * hashes
            k = text.find(close, j + 1)
            if k < 0:
                return None
            return text[j + 1:k], k + len(close)
        return None
    if i < n and text[i] == '"':
        out = []
        j = i + 1
        while j < n:
            c = text[j]
            if c == '"':
                return "".join(out), j + 1
            if c == "\\" and j + 1 < n:
                d = text[j + 1]
                if d in _SIMPLE_ESC:
                    out.append(_SIMPLE_ESC[d]); j += 2
                elif d == "x" and j + 3 < n:
                    try:
                        out.append(chr(int(text[j + 2:j + 4], 16)))
                    except ValueError:
                        return None
                    j += 4
                elif d == "u" and j + 2 < n and text[j + 2] == "{":
                    k = text.find("}", j)
                    if k < 0:
                        return None
                    try:
                        out.append(chr(int(text[j + 3:k].replace("_", ""), 16)))
                    except ValueError:
                        return None
                    j = k + 1
                elif d == "\n":      # line continuation: skip the newline and leading blanks
                    j += 2
                    while j < n and text[j] in " \t\r\n":
                        j += 1
                else:
                    return None
            else:
                out.append(c); j += 1
        return None
    return None


def _skip_ws(text, i):
    n = len(text)
    while i < n:
        if text[i] in " \t\r\n":
            i += 1
        elif text.startswith("//", i):
            k = text.find("\n", i)
            i = n if k < 0 else k + 1
        else:
            break
    return i


_FMT_HOLE = re.compile(r"\{\{|\}\}|\{([A-Za-z_][A-Za-z0-9_]*)?(:[^}]*)?\}")


def _format_subst(fmt, consts):
    """Expand a format! string whose holes are all named constants of the file; else None."""
    bad = []

    def rep(m):
        if m.group(0) == "{{":
            return "{"
        if m.group(0) == "}}":
            return "}"
        name = m.group(1)
        if name is None or name not in consts or m.group(2):
            bad.append(m.group(0))
            return ""
        return consts[name]
    s = _FMT_HOLE.sub(rep, fmt)
    return None if bad else s


def argument_literal(text, i, consts):
    """The source string passed at text[i:] (just after the opening parenthesis), or None."""
    i = _skip_ws(text, i)
    if text.startswith("&", i):
        i = _skip_ws(text, i + 1)
    if text.startswith("format!(", i):
        j = _skip_ws(text, i + len("format!("))
        lit = rust_literal(text, j)
        if lit is None:
            return None
        k = _skip_ws(text, lit[1])
        if not text.startswith(")", k):       # positional arguments follow: not a closed literal
            return None
        return _format_subst(lit[0], consts)
    lit = rust_literal(text, i)
    if lit is None:
        # a named constant / local string passed directly, or a one-hole helper `prog("..")`
        m = re.match(r"([A-Za-z_][A-Za-z0-9_]*)\s*(\()?", text[i:])
        if m and not m.group(2) and m.group(1) in consts:
            return consts[m.group(1)]
        if m and m.group(2) and ("fn:" + m.group(1)) in consts:
            inner = argument_literal(text, i + m.end(), consts)
            if inner is None:
                return None
            hole, fmt = consts["fn:" + m.group(1)]
            return _format_subst(fmt, {hole: inner})
        return None
    return lit[0]


_CALL = re.compile(r"\.\s*(then_evaluate|evaluate)\s*\(")
_LET = re.compile(r"\blet\s+(?:mut\s+)?([a-z_][a-z0-9_]*)\s*(?::\s*&(?:'static\s+)?str\s*)?=\s*")
_HELPER = re.compile(r"\bfn\s+([a-z_][a-z0-9_]*)\s*\(\s*([a-z_][a-z0-9_]*)\s*:\s*&str\s*\)\s*->\s*String\s*\{\s*format!\s*\(")


def all_literals(text):
    """Every string literal of a Rust source text (comments and char literals skipped)."""
    out, i, n = [], 0, len(text)
    while i < n:
        c = text[i]
        if text.startswith("//", i):
            k = text.find("\n", i)
            i = n if k < 0 else k + 1
        elif text.startswith("/*", i):
            k = text.find("*/", i)
            i = n if k < 0 else k + 2
        elif c == "'":
            m = re.match(r"'(\\.[^']*|[^\\'])'", text[i:])
            i += m.end() if m else 1
        elif c == '"' or (c == "r" and re.match(r'r#*"', text[i:]) and (i == 0 or not (text[i - 1].isalnum() or text[i - 1] == "_"))):
            lit = rust_literal(text, i)
            if lit is None:
                i += 1
            else:
                out.append((i, lit[0]))
                i = lit[1]
        else:
            i += 1
    return out
_CONST = re.compile(r"const\s+([A-Z_][A-Z0-9_]*)\s*:\s*&(?:'static\s+)?str\s*=\s*")
_INSERT = re.compile(r"\.insert\s*\(\s*vec!\s*\[")


def extract_rust_file(path):
    """Sessions of a test file: [{"id", "lines": [...], "modules": {...}}]; also the number of call
    sites seen and the number whose argument could not be read as a literal."""
    text = open(path, encoding="utf-8", errors="replace").read()
    base = os.path.basename(path)
    consts = {}
    for m in _CONST.finditer(text):
        lit = rust_literal(text, _skip_ws(text, m.end()))
        if lit is not None:
            consts[m.group(1)] = lit[0]
    for m in _HELPER.finditer(text):
        lit = rust_literal(text, _skip_ws(text, m.end()))
        if lit is not None and _skip_ws(text, lit[1]) < len(text) and text[_skip_ws(text, lit[1])] == ")":
            consts["fn:" + m.group(1)] = (m.group(2), lit[0])
    # split into test functions so that modules.insert(..) stay with their evaluate calls
    cuts = [m.start() for m in re.finditer(r"\bfn\s+[a-z_0-9]+\s*\(", text)] + [len(text)]
    if not cuts or cuts[0] != 0:
        cuts = [0] + cuts
    sessions, sites, unread = [], 0, 0
    for a, b in zip(cuts, cuts[1:]):
        chunk = text[a:b]
        modules = {}
        for m in _INSERT.finditer(chunk):
            j = m.end()
            parts = []
            ok = True
            while True:
                j = _skip_ws(chunk, j)
                lit = rust_literal(chunk, j)
                if lit is None:
                    ok = False
                    break
                parts.append(lit[0])
                j = _skip_ws(chunk, lit[1])
                mm = re.match(r"\.\s*(to_string|into|to_owned)\s*\(\s*\)", chunk[j:])
                if mm:
                    j = _skip_ws(chunk, j + mm.end())
                if chunk.startswith(",", j):
                    j = _skip_ws(chunk, j + 1)
                if chunk.startswith("]", j):
                    j += 1
                    break
            if not ok:
                continue
            j = _skip_ws(chunk, j)
            if not chunk.startswith(",", j):
                continue
            src = rust_literal(chunk, _skip_ws(chunk, j + 1))
            if src is not None:
                modules["/".join(parts)] = src[0]
        cur = None
        lets = []
        for m in _LET.finditer(chunk):
            lit = rust_literal(chunk, _skip_ws(chunk, m.end()))
            if lit is not None:
                lets.append((m.start(), m.group(1), lit[0]))
        for m in _CALL.finditer(chunk):
            sites += 1
            env = dict(consts)
            for pos, name, val in lets:
                if pos < m.start():
                    env[name] = val
            src = argument_literal(chunk, m.end(), env)
            line_no = text.count("\n", 0, a + m.start()) + 1
            if m.group(1) == "evaluate" or cur is None:
                cur = {"id": "test:%s:%d" % (base, line_no), "lines": [], "modules": dict(modules),
                       "source": "tests"}
                sessions.append(cur)
            if src is None:
                unread += 1
                cur["lines"].append(None)      # keeps later lines from being read out of context
            else:
                cur["lines"].append(src)
    out = []
    for s in sessions:
        lines = []
        for l in s["lines"]:
            if l is None:
                break
            lines.append(l)
        if lines:
            s["lines"] = lines
            if not s["modules"]:
                del s["modules"]
            out.append(s)
    return out, sites, unread


def corpus_tests():
    """(sessions read at the .evaluate( / .then_evaluate( call sites, call sites, unread sites,
    other string literals of the test files that look like programs)."""
    progs, sites, unread, loose = [], 0, 0, []
    for path in sorted(glob.glob(os.path.join(REPO, "quiver-tests", "tests", "*.rs"))):
        if os.path.basename(path) == "common.rs":
            continue
        s, a, b = extract_rust_file(path)
        progs += s
        sites += a
        unread += b
        seen = {l for x in s for l in x["lines"]}
        for x in s:
            seen.update(x.get("modules", {}).values())
        text = open(path, encoding="utf-8", errors="replace").read()
        for pos, lit in all_literals(text):
            if lit in seen or len(lit.strip()) < 8 or not re.search(r"[\[{,=]", lit):
                continue
            if "{}" in lit or re.search(r"\{[a-z_]+\}", lit):     # an unexpanded format string
                continue
            seen.add(lit)
            loose.append({"id": "lit:%s:%d" % (os.path.basename(path), text.count("\n", 0, pos) + 1),
                          "lines": [lit], "source": "tests_literals"})
    return progs, sites, unread, loose


def corpus_spec():
    text = open(os.path.join(REPO, "docs", "spec.md"), encoding="utf-8").read()
    out = []
    for n, m in enumerate(re.finditer(r"```quiver\n(.*?)```", text, re.S)):
        line_no = text.count("\n", 0, m.start()) + 2
        out.append({"id": "spec:%d" % line_no, "lines": [m.group(1)], "source": "spec"})
    return out


def corpus_examples():
    out = []
    for path in sorted(glob.glob(os.path.join(REPO, "examples", "*.qv"))):
        out.append({"id": "example:" + os.path.basename(path), "lines": [open(path).read()],
                    "source": "examples"})
    return out


def corpus_std():
    out = [{"id": "std:all", "lines": [STD_IMPORT], "io": True, "source": "std"}]
    for path in sorted(glob.glob(os.path.join(REPO, "std", "*.qv"))):
        name = os.path.basename(path)[:-3]
        out.append({"id": "std:" + name, "lines": ["%" + name], "io": True, "source": "std"})
    return out


# ---------------------------------------------------------------------------------------------
# C16: tail-recursive program shapes.  {N} = iteration count, {B} = "" or a statement that creates
# a heap binary which the iteration then drops.
# ---------------------------------------------------------------------------------------------
BIN = "[0x01, 0x02] __binary_concat__, "
SUB = "__integer_subtract__"
ADD = "__integer_add__"
CMP = "__integer_compare__"

TEMPLATES = [
    # --- `^` (self) ---------------------------------------------------------------------------
    ("self_countdown", False, "f = #'int {{ | =0 => 0 | [~, 1] %(SUB)s ^ }}, {N} f"),
    ("self_block", False, "f = #'int {{ | =0 => Done | {{ [~, 1] %(SUB)s ^ }} }}, {N} f"),
    ("self_block2", False, "f = #'int {{ | =0 => Done | {{ {{ [~, 1] %(SUB)s ^ }} }} }}, {N} f"),
    ("self_conseq", True, "f = #'int {{ | =0 => 0 | =n => {B}[n, 1] %(SUB)s ^ }}, {N} f"),
    ("self_conseq_block", True, "f = #'int {{ | =0 => Ok | =n => {{ {B}[n, 1] %(SUB)s ^ }} }}, {N} f"),
    ("self_conseq_block2", True, "f = #'int {{ | =0 => Ok | =n => {{ {{ {B}[n, 1] %(SUB)s }} ^ }} }}, {N} f"),
    ("self_acc", True, "f = #['int, 'int] {{ | =[0, acc] => acc | =[n, acc] => {B}[[n, 1] %(SUB)s, [acc, n] %(ADD)s] ^ }}, [{N}, 0] f"),
    ("self_acc_bin_arg", False, "f = #['int, 'bin] {{ | =[0, b] => b | =[n, b] => [[n, 1] %(SUB)s, [b, 0x02] __binary_concat__ [0x01, 0x02] __binary_concat__] ^ }}, [{N}, 0x00] f"),
    ("self_locals", True, "f = #'int {{ | =0 => 0 | =n => {B}a = [n, 1] %(SUB)s, b = [a, 0] %(ADD)s, c = [b, a], c.0 ^ }}, {N} f"),
    ("self_two_guards", True, "f = #'int {{ | =0 => 0 | =1 => 0 | =n [n, 10] %(CMP)s =1 => {B}[n, 2] %(SUB)s ^ | =n => {B}[n, 1] %(SUB)s ^ }}, {N} f"),
    ("self_named_tuple", True, "'s = S['int, 'int]\nf = #'s {{ | =S[0, a] => a | =S[n, a] => {B}S[[n, 1] %(SUB)s, [a, 1] %(ADD)s] ^ }}, S[{N}, 0] f"),
    ("self_capture", True, "k = 1, f = #'int {{ | =0 => 0 | =n => {B}[n, k] %(SUB)s ^ }}, {N} f"),
    ("self_capture_bin", False, "k = [0x0a, 0x0b] __binary_concat__, f = #'int {{ | =0 => k | =n => [k, 0x01] __binary_concat__, [n, 1] %(SUB)s ^ }}, {N} f"),
    ("self_inner_branch", True, "f = #'int {{ | =0 => 0 | =n => n {{ | =1 => 0 ^ | =m => {B}[m, 1] %(SUB)s ^ }} }}, {N} f"),
    ("self_match_in_chain", False, "f = #'int {{ | =0 => 0 | [~, 1] =[n, d], [n, d] %(SUB)s ^ }}, {N} f"),
    ("self_nilable_step", True, "f = #'int {{ | =0 => 0 | =n => {B}n {{ | =0 => [] | [~, 1] %(SUB)s }} =m, m ^ }}, {N} f"),
    ("self_call_then_tail", True, "dec = #'int {{ [~, 1] %(SUB)s }}, f = #'int {{ | =0 => 0 | =n => {B}n dec ^ }}, {N} f"),
    ("self_partial", True, "f = #[n: 'int, acc: 'int] {{ | =(n: 0) => $.acc | {B}[n: [$.n, 1] %(SUB)s, acc: [$.acc, 2] %(ADD)s] ^ }}, [n: {N}, acc: 0] f"),
    # --- `^f` (named) -------------------------------------------------------------------------
    ("named_hop", True, "g = #'int {{ | =0 => 0 | =n => {B}[n, 1] %(SUB)s ^ }}, f = #'int {{ [~, 1] %(ADD)s ^g }}, {N} f"),
    ("named_mutual", True,
     "even = #[#^ -> 'int, #^ -> 'int, 'int] {{ | =[_, _, 0] => 1 | =[e, o, n] => {B}[&e, &o, [n, 1] %(SUB)s] ^o }}\n"
     "odd = #[#^ -> 'int, #^ -> 'int, 'int] {{ | =[_, _, 0] => 0 | =[e, o, n] => {B}[&e, &o, [n, 1] %(SUB)s] ^e }}\n"
     "[&even, &odd, {N}] even"),
    ("named_mutual_block", True,
     "even = #[#^ -> 'int, #^ -> 'int, 'int] {{ | =[_, _, 0] => 1 | =[e, o, n] => {{ {B}[&e, &o, [n, 1] %(SUB)s] ^o }} }}\n"
     "odd = #[#^ -> 'int, #^ -> 'int, 'int] {{ | =[_, _, 0] => 0 | =[e, o, n] => {{ {{ {B}[&e, &o, [n, 1] %(SUB)s] }} ^e }} }}\n"
     "[&even, &odd, {N}] even"),
    ("named_three_cycle", True,
     "a = #[#^ -> 'int, #^ -> 'int, #^ -> 'int, 'int] {{ | =[_, _, _, 0] => 0 | =[x, y, z, n] => {B}[&x, &y, &z, [n, 1] %(SUB)s] ^y }}\n"
     "b = #[#^ -> 'int, #^ -> 'int, #^ -> 'int, 'int] {{ | =[_, _, _, 0] => 1 | =[x, y, z, n] => {B}[&x, &y, &z, [n, 1] %(SUB)s] ^z }}\n"
     "c = #[#^ -> 'int, #^ -> 'int, #^ -> 'int, 'int] {{ | =[_, _, _, 0] => 2 | =[x, y, z, n] => {B}[&x, &y, &z, [n, 1] %(SUB)s] ^x }}\n"
     "[&a, &b, &c, {N}] a"),
    ("named_back_and_forth", True,
     "g = #[#^ -> 'int, 'int] {{ | =[_, 0] => 0 | =[back, n] => {B}[&back, [n, 1] %(SUB)s] ^back }}\n"
     "f = #[#^ -> 'int, 'int] {{ | =[_, 0] => 0 | =[back, n] => {B}[&back, [n, 1] %(SUB)s] ^g }}\n"
     "[&f, {N}] f"),
    ("named_mutual_inner_branch", True,
     "even = #[#^ -> 'int, #^ -> 'int, 'int] {{ =[e, o, n] => n {{ | =0 => 1 | =m => {B}[&e, &o, [m, 1] %(SUB)s] ^o }} }}\n"
     "odd = #[#^ -> 'int, #^ -> 'int, 'int] {{ =[e, o, n] => n {{ | =0 => 0 | =m => {B}[&e, &o, [m, 1] %(SUB)s] ^e }} }}\n"
     "[&even, &odd, {N}] even"),
    # --- `^~` (ripple) ------------------------------------------------------------------------
    ("ripple_thunk", False,
     "'thunk = #[] -> 'int\n"
     "mk = #[#^ -> 'thunk, 'int] {{ =[self, n], #{{ | n =0 => 0 | n [~, 1] %(SUB)s [&self, ~] self ^~ }} }}, [&mk, {N}] mk =t, t"),
    ("ripple_thunk_bin", False,
     "'thunk = #[] -> 'int\n"
     "mk = #[#^ -> 'thunk, 'int] {{ =[self, n], #{{ | n =0 => 0 | {{ [0x01, 0x02] __binary_concat__, n [~, 1] %(SUB)s [&self, ~] self ^~ }} }} }}, [&mk, {N}] mk =t, t"),
    ("ripple_thunk_block", False,
     "'thunk = #[] -> 'int\n"
     "mk = #[#^ -> 'thunk, 'int] {{ =[self, n], #{{ | n =0 => 0 | {{ {{ n [~, 1] %(SUB)s [&self, ~] self }} ^~ }} }} }}, [&mk, {N}] mk =t, t"),
    ("ripple_thunk_bin_capture", False,
     "'thunk = #[] -> 'bin\n"
     "mk = #[#^ -> 'thunk, 'int, 'bin] {{ =[self, n, b], #{{ | n =0 => b | n [~, 1] %(SUB)s [&self, ~, [b, 0x01] __binary_concat__ [0x02, 0x03] __binary_concat__] self ^~ }} }}, [&mk, {N}, 0x00] mk =t, t"),
]
TEMPLATES = [(name, has_bin, text % {"SUB": SUB, "ADD": ADD, "CMP": CMP}) for name, has_bin, text in TEMPLATES]


def c16_programs(n_small=20, factor=50):
    """[(template id, source at N, source at factor * N)]"""
    out = []
    for name, has_bin, text in TEMPLATES:
        variants = [("", "")] + ([("+bin", BIN)] if has_bin else [])
        for tag, b in variants:
            out.append((name + tag, text.format(N=n_small, B=b), text.format(N=n_small * factor, B=b)))
    return out
