"""C07 (well-formed bytecode) and C16 (tail calls in constant space).

Pipeline (Python only moves data; every verdict is TLC's):
  corpus of Quiver programs
    -> harness/bcdump   (real compiler; forms: compiled, shaken, shaken_fn, merged)
    -> TLC spec/VMStack.tla   work-list fixpoint per function; invariants = the C07 clauses and
                              C16's static clause (TailCall heights)
    -> harness/vmtrace  (real executor, one instruction per step)
    -> TLC spec/VMTrace.tla   each observed step must be a transition of the same abstract
                              semantics (spec/VMSem.tla); divergence = model_drift;
                              a runtime StackUnderflow / VariableUndefined / FunctionUndefined /
                              ConstantUndefined / FrameUnderflow is a C07 violation
    -> TLC spec/VMPeaks.tla   C16: peaks at N and 50N equal, heap slots bounded
"""
import json, os, random, re, sys, time, glob, hashlib

HERE = os.path.dirname(os.path.abspath(__file__))
sys.path.insert(0, os.path.join(os.path.dirname(HERE), "lib"))
import common

REPO = "/repo"
WORKDIR = os.path.join(common.WORK, "vmstack")

RULES = {
    "underflow": "NoUnderflow", "jump_range": "JumpsInside", "index_range": "IndicesInRange",
    "type_index": "IndicesInRange", "operand": "IndicesInRange", "load_undefined": "LoadsDefined",
    "reset_range": "ResetInRange", "join_height": "JoinHeightsAgree", "exit_height": "ExitHeightOne",
    "tailcall_height": "TailCallHeights", "handover": "ReplBindingsSurvive",
}
C07_RUNTIME_ERRORS = ("StackUnderflow", "VariableUndefined", "FunctionUndefined", "ConstantUndefined",
                      "FrameUnderflow")

STD_IMPORT = ("#{ [%dict, %num, %list, %str, %iter, %vec, %path, %range, %bin, %int, %dns, %file, %fs, "
              "%ref] }")


# ---------------------------------------------------------------------------------------------
# corpus: Rust test-suite string literals, spec.md blocks, examples, std
# ---------------------------------------------------------------------------------------------
_SIMPLE_ESC = {"n": "\n", "r": "\r", "t": "\t", "\\": "\\", "0": "\0", '"': '"', "'": "'"}


def rust_literal(text, i):
    """Parse a Rust string literal starting at text[i] ("..", r"..", r#".."#).
    Returns (value, end) or None."""
    n = len(text)
    if i < n and text[i] == "r":
        j = i + 1
        hashes = 0
        while j < n and text[j] == "#":
            hashes += 1
            j += 1
        if j < n and text[j] == '"':
            close = '"' + "#" * hashes
            k = text.find(close, j + 1)
            if k < 0:
                return None
            return text[j + 1:k], k + len(close)
        return None
    if i < n and text[i] == '"':
        out = []
        j = i + 1
        while j < n:
            c = text[j]
            if c == '"':
                return "".join(out), j + 1
            if c == "\\" and j + 1 < n:
                d = text[j + 1]
                if d in _SIMPLE_ESC:
                    out.append(_SIMPLE_ESC[d]); j += 2
                elif d == "x" and j + 3 < n:
                    try:
                        out.append(chr(int(text[j + 2:j + 4], 16)))
                    except ValueError:
                        return None
                    j += 4
                elif d == "u" and j + 2 < n and text[j + 2] == "{":
                    k = text.find("}", j)
                    if k < 0:
                        return None
                    try:
                        out.append(chr(int(text[j + 3:k].replace("_", ""), 16)))
                    except ValueError:
                        return None
                    j = k + 1
                elif d == "\n":      # line continuation: skip the newline and leading blanks
                    j += 2
                    while j < n and text[j] in " \t\r\n":
                        j += 1
                else:
                    return None
            else:
                out.append(c); j += 1
        return None
    return None


def _skip_ws(text, i):
    n = len(text)
    while i < n:
        if text[i] in " \t\r\n":
            i += 1
        elif text.startswith("//", i):
            k = text.find("\n", i)
            i = n if k < 0 else k + 1
        else:
            break
    return i


_FMT_HOLE = re.compile(r"\{\{|\}\}|\{([A-Za-z_][A-Za-z0-9_]*)?(:[^}]*)?\}")


def _format_subst(fmt, consts):
    """Expand a format! string whose holes are all named constants of the file; else None."""
    bad = []

    def rep(m):
        if m.group(0) == "{{":
            return "{"
        if m.group(0) == "}}":
            return "}"
        name = m.group(1)
        if name is None or name not in consts or m.group(2):
            bad.append(m.group(0))
            return ""
        return consts[name]
    s = _FMT_HOLE.sub(rep, fmt)
    return None if bad else s


def argument_literal(text, i, consts):
    """The source string passed at text[i:] (just after the opening parenthesis), or None."""
    i = _skip_ws(text, i)
    if text.startswith("&", i):
        i = _skip_ws(text, i + 1)
    if text.startswith("format!(", i):
        j = _skip_ws(text, i + len("format!("))
        lit = rust_literal(text, j)
        if lit is None:
            return None
        k = _skip_ws(text, lit[1])
        if not text.startswith(")", k):       # positional arguments follow: not a closed literal
            return None
        return _format_subst(lit[0], consts)
    lit = rust_literal(text, i)
    if lit is None:
        # a named constant / local string passed directly, or a one-hole helper `prog("..")`
        m = re.match(r"([A-Za-z_][A-Za-z0-9_]*)\s*(\()?", text[i:])
        if m and not m.group(2) and m.group(1) in consts:
            return consts[m.group(1)]
        if m and m.group(2) and ("fn:" + m.group(1)) in consts:
            inner = argument_literal(text, i + m.end(), consts)
            if inner is None:
                return None
            hole, fmt = consts["fn:" + m.group(1)]
            return _format_subst(fmt, {hole: inner})
        return None
    return lit[0]


_CALL = re.compile(r"\.\s*(then_evaluate|evaluate)\s*\(")
_LET = re.compile(r"\blet\s+(?:mut\s+)?([a-z_][a-z0-9_]*)\s*(?::\s*&(?:'static\s+)?str\s*)?=\s*")
_HELPER = re.compile(r"\bfn\s+([a-z_][a-z0-9_]*)\s*\(\s*([a-z_][a-z0-9_]*)\s*:\s*&str\s*\)\s*->\s*String\s*\{\s*format!\s*\(")


def all_literals(text):
    """Every string literal of a Rust source text (comments and char literals skipped)."""
    out, i, n = [], 0, len(text)
    while i < n:
        c = text[i]
        if text.startswith("//", i):
            k = text.find("\n", i)
            i = n if k < 0 else k + 1
        elif text.startswith("/*", i):
            k = text.find("*/", i)
            i = n if k < 0 else k + 2
        elif c == "'":
            m = re.match(r"'(\\.[^']*|[^\\'])'", text[i:])
            i += m.end() if m else 1
        elif c == '"' or (c == "r" and re.match(r'r#*"', text[i:]) and (i == 0 or not (text[i - 1].isalnum() or text[i - 1] == "_"))):
            lit = rust_literal(text, i)
            if lit is None:
                i += 1
            else:
                out.append((i, lit[0]))
                i = lit[1]
        else:
            i += 1
    return out
_CONST = re.compile(r"const\s+([A-Z_][A-Z0-9_]*)\s*:\s*&(?:'static\s+)?str\s*=\s*")
_INSERT = re.compile(r"\.insert\s*\(\s*vec!\s*\[")


def extract_rust_file(path):
    """Sessions of a test file: [{"id", "lines": [...], "modules": {...}}]; also the number of call
    sites seen and the number whose argument could not be read as a literal."""
    text = open(path, encoding="utf-8", errors="replace").read()
    base = os.path.basename(path)
    consts = {}
    for m in _CONST.finditer(text):
        lit = rust_literal(text, _skip_ws(text, m.end()))
        if lit is not None:
            consts[m.group(1)] = lit[0]
    for m in _HELPER.finditer(text):
        lit = rust_literal(text, _skip_ws(text, m.end()))
        if lit is not None and _skip_ws(text, lit[1]) < len(text) and text[_skip_ws(text, lit[1])] == ")":
            consts["fn:" + m.group(1)] = (m.group(2), lit[0])
    # split into test functions so that modules.insert(..) stay with their evaluate calls
    cuts = [m.start() for m in re.finditer(r"\bfn\s+[a-z_0-9]+\s*\(", text)] + [len(text)]
    if not cuts or cuts[0] != 0:
        cuts = [0] + cuts
    sessions, sites, unread = [], 0, 0
    for a, b in zip(cuts, cuts[1:]):
        chunk = text[a:b]
        modules = {}
        for m in _INSERT.finditer(chunk):
            j = m.end()
            parts = []
            ok = True
            while True:
                j = _skip_ws(chunk, j)
                lit = rust_literal(chunk, j)
                if lit is None:
                    ok = False
                    break
                parts.append(lit[0])
                j = _skip_ws(chunk, lit[1])
                mm = re.match(r"\.\s*(to_string|into|to_owned)\s*\(\s*\)", chunk[j:])
                if mm:
                    j = _skip_ws(chunk, j + mm.end())
                if chunk.startswith(",", j):
                    j = _skip_ws(chunk, j + 1)
                if chunk.startswith("]", j):
                    j += 1
                    break
            if not ok:
                continue
            j = _skip_ws(chunk, j)
            if not chunk.startswith(",", j):
                continue
            src = rust_literal(chunk, _skip_ws(chunk, j + 1))
            if src is not None:
                modules["/".join(parts)] = src[0]
        cur = None
        lets = []
        for m in _LET.finditer(chunk):
            lit = rust_literal(chunk, _skip_ws(chunk, m.end()))
            if lit is not None:
                lets.append((m.start(), m.group(1), lit[0]))
        for m in _CALL.finditer(chunk):
            sites += 1
            env = dict(consts)
            for pos, name, val in lets:
                if pos < m.start():
                    env[name] = val
            src = argument_literal(chunk, m.end(), env)
            line_no = text.count("\n", 0, a + m.start()) + 1
            if m.group(1) == "evaluate" or cur is None:
                cur = {"id": "test:%s:%d" % (base, line_no), "lines": [], "modules": dict(modules),
                       "source": "tests"}
                sessions.append(cur)
            if src is None:
                unread += 1
                cur["lines"].append(None)      # keeps later lines from being read out of context
            else:
                cur["lines"].append(src)
    out = []
    for s in sessions:
        lines = []
        for l in s["lines"]:
            if l is None:
                break
            lines.append(l)
        if lines:
            s["lines"] = lines
            if not s["modules"]:
                del s["modules"]
            out.append(s)
    return out, sites, unread


def corpus_tests():
    """(sessions read at the .evaluate( / .then_evaluate( call sites, call sites, unread sites,
    other string literals of the test files that look like programs)."""
    progs, sites, unread, loose = [], 0, 0, []
    for path in sorted(glob.glob(os.path.join(REPO, "quiver-tests", "tests", "*.rs"))):
        if os.path.basename(path) == "common.rs":
            continue
        s, a, b = extract_rust_file(path)
        progs += s
        sites += a
        unread += b
        seen = {l for x in s for l in x["lines"]}
        for x in s:
            seen.update(x.get("modules", {}).values())
        text = open(path, encoding="utf-8", errors="replace").read()
        for pos, lit in all_literals(text):
            if lit in seen or len(lit.strip()) < 8 or not re.search(r"[\[{,=]", lit):
                continue
            if "{}" in lit or re.search(r"\{[a-z_]+\}", lit):     # an unexpanded format string
                continue
            seen.add(lit)
            loose.append({"id": "lit:%s:%d" % (os.path.basename(path), text.count("\n", 0, pos) + 1),
                          "lines": [lit], "source": "tests_literals"})
    return progs, sites, unread, loose


def corpus_spec():
    text = open(os.path.join(REPO, "docs", "spec.md"), encoding="utf-8").read()
    out = []
    for n, m in enumerate(re.finditer(r"```quiver\n(.*?)```", text, re.S)):
        line_no = text.count("\n", 0, m.start()) + 2
        out.append({"id": "spec:%d" % line_no, "lines": [m.group(1)], "source": "spec"})
    return out


def corpus_examples():
    out = []
    for path in sorted(glob.glob(os.path.join(REPO, "examples", "*.qv"))):
        out.append({"id": "example:" + os.path.basename(path), "lines": [open(path).read()],
                    "source": "examples"})
    return out


def corpus_std():
    out = [{"id": "std:all", "lines": [STD_IMPORT], "io": True, "source": "std"}]
    for path in sorted(glob.glob(os.path.join(REPO, "std", "*.qv"))):
        name = os.path.basename(path)[:-3]
        out.append({"id": "std:" + name, "lines": ["%" + name], "io": True, "source": "std"})
    return out


# ---------------------------------------------------------------------------------------------
# C16: tail-recursive program shapes.  {N} = iteration count, {B} = "" or a statement that creates
# a heap binary which the iteration then drops.
# ---------------------------------------------------------------------------------------------
BIN = "[0x01, 0x02] __binary_concat__, "
SUB = "__integer_subtract__"
ADD = "__integer_add__"
CMP = "__integer_compare__"

TEMPLATES = [
    # --- `^` (self) ---------------------------------------------------------------------------
    ("self_countdown", False, "f = #'int {{ | =0 => 0 | [~, 1] %(SUB)s ^ }}, {N} f"),
    ("self_block", False, "f = #'int {{ | =0 => Done | {{ [~, 1] %(SUB)s ^ }} }}, {N} f"),
    ("self_block2", False, "f = #'int {{ | =0 => Done | {{ {{ [~, 1] %(SUB)s ^ }} }} }}, {N} f"),
    ("self_conseq", True, "f = #'int {{ | =0 => 0 | =n => {B}[n, 1] %(SUB)s ^ }}, {N} f"),
    ("self_conseq_block", True, "f = #'int {{ | =0 => Ok | =n => {{ {B}[n, 1] %(SUB)s ^ }} }}, {N} f"),
    ("self_conseq_block2", True, "f = #'int {{ | =0 => Ok | =n => {{ {{ {B}[n, 1] %(SUB)s }} ^ }} }}, {N} f"),
    ("self_acc", True, "f = #['int, 'int] {{ | =[0, acc] => acc | =[n, acc] => {B}[[n, 1] %(SUB)s, [acc, n] %(ADD)s] ^ }}, [{N}, 0] f"),
    ("self_acc_bin_arg", False, "f = #['int, 'bin] {{ | =[0, b] => b | =[n, b] => [[n, 1] %(SUB)s, [b, 0x02] __binary_concat__ [0x01, 0x02] __binary_concat__] ^ }}, [{N}, 0x00] f"),
    ("self_locals", True, "f = #'int {{ | =0 => 0 | =n => {B}a = [n, 1] %(SUB)s, b = [a, 0] %(ADD)s, c = [b, a], c.0 ^ }}, {N} f"),
    ("self_two_guards", True, "f = #'int {{ | =0 => 0 | =1 => 0 | =n [n, 10] %(CMP)s =1 => {B}[n, 2] %(SUB)s ^ | =n => {B}[n, 1] %(SUB)s ^ }}, {N} f"),
    ("self_named_tuple", True, "'s = S['int, 'int]\nf = #'s {{ | =S[0, a] => a | =S[n, a] => {B}S[[n, 1] %(SUB)s, [a, 1] %(ADD)s] ^ }}, S[{N}, 0] f"),
    ("self_capture", True, "k = 1, f = #'int {{ | =0 => 0 | =n => {B}[n, k] %(SUB)s ^ }}, {N} f"),
    ("self_capture_bin", False, "k = [0x0a, 0x0b] __binary_concat__, f = #'int {{ | =0 => k | =n => [k, 0x01] __binary_concat__, [n, 1] %(SUB)s ^ }}, {N} f"),
    ("self_inner_branch", True, "f = #'int {{ | =0 => 0 | =n => n {{ | =1 => 0 ^ | =m => {B}[m, 1] %(SUB)s ^ }} }}, {N} f"),
    ("self_match_in_chain", False, "f = #'int {{ | =0 => 0 | [~, 1] =[n, d], [n, d] %(SUB)s ^ }}, {N} f"),
    ("self_nilable_step", True, "f = #'int {{ | =0 => 0 | =n => {B}n {{ | =0 => [] | [~, 1] %(SUB)s }} =m, m ^ }}, {N} f"),
    ("self_call_then_tail", True, "dec = #'int {{ [~, 1] %(SUB)s }}, f = #'int {{ | =0 => 0 | =n => {B}n dec ^ }}, {N} f"),
    ("self_partial", True, "f = #[n: 'int, acc: 'int] {{ | =(n: 0) => $.acc | {B}[n: [$.n, 1] %(SUB)s, acc: [$.acc, 2] %(ADD)s] ^ }}, [n: {N}, acc: 0] f"),
    # --- bare `^` in a NILARY function: a server loop driven by messages (the program's own process
    # sends to itself, `n .`; the first round finds the mailbox empty and posts the count) ------------
    ("nilary_server", True, "srv = #{{ ! [#'int, 0] {{ | =0 => Done | =('int)n => {B}[n, 1] %(SUB)s ., [] ^ | {N} ., [] ^ }} }}, srv"),
    ("nilary_server_flowing_arg", True, "srv = #{{ ! [#'int, 0] {{ | =0 => Done | =('int)n => {B}[n, 1] %(SUB)s ., ^ | {N} ., ^ }} }}, srv"),
    ("nilary_server_block2", False, "srv = #{{ ! [#'int, 0] {{ | =0 => Done | ='int => {{ {{ [~, 1] %(SUB)s . }}, {{ [] ^ }} }} | {N} ., [] ^ }} }}, srv"),
    ("nilary_server_bound", True, "srv = #{{ ! [#'int, 0] {{ | =[] => -1 | =('int)k => k }} =m, m {{ | =0 => Done | =-1 => {N} ., [] ^ | =n => {B}[n, 1] %(SUB)s ., [] ^ }} }}, srv"),
    ("nilary_server_bin_msg", False, "srv = #{{ ! [#['int, 'bin], 0] {{ | =[0, b] => b | =[n, b] => [[n, 1] %(SUB)s, [b, 0x01] __binary_concat__ [0x02, 0x03] __binary_concat__] ., [] ^ | [{N}, 0x00] ., [] ^ }} }}, srv"),
    # --- the loop state is rebuilt each iteration by a SPREAD whose source is a union of tuple shapes: the compiler
    # emits one tuple-building path per shape combination, all of which must clean their temporaries up (seeded
    # change C16-2: the non-last paths jumped past the clean-up, 2 operands leaked per iteration) -------------
    ("spread_union_state_first", False, "'st = [n: 'int, k: 'int] | [n: 'int]\nf = #'st {{ | $.n =0 => Done | =s => [...s, n: [s.n, 1] %(SUB)s] ^ }}, [n: {N}, k: 7] f"),
    ("spread_union_state_second", False, "'st = [n: 'int, k: 'int] | [n: 'int]\nf = #'st {{ | $.n =0 => Done | =s => [...s, n: [s.n, 1] %(SUB)s] ^ }}, [n: {N}] f"),
    ("spread_union_state_three", False, "'st = [n: 'int, k: 'int] | [n: 'int] | [n: 'int, j: 'bin, k: 'int]\nf = #'st {{ | $.n =0 => Done | =s => [...s, n: [s.n, 1] %(SUB)s] ^ }}, [n: {N}, j: 0x01, k: 2] f"),
    ("spread_union_inner", False, "'opt = [tag: 'int, pad: 'int] | [tag: 'int]\nf = #['int, 'opt] {{ | =[0, _] => Done | =[n, o] => {{ [...o, tag: n] =next, [[n, 1] %(SUB)s, next] ^ }} }}, [{N}, [tag: 0, pad: 0]] f"),
    ("spread_union_named", False, "'st = S[n: 'int, k: 'int] | T[n: 'int]\nf = #'st {{ | $.n =0 => Done | =s => s[..., n: [s.n, 1] %(SUB)s] ^ }}, S[n: {N}, k: 7] f"),
    # --- `^f` (named) -------------------------------------------------------------------------
    ("named_hop", True, "g = #'int {{ | =0 => 0 | =n => {B}[n, 1] %(SUB)s ^ }}, f = #'int {{ [~, 1] %(ADD)s ^g }}, {N} f"),
    ("named_mutual", True,
     "even = #[#^ -> 'int, #^ -> 'int, 'int] {{ | =[_, _, 0] => 1 | =[e, o, n] => {B}[&e, &o, [n, 1] %(SUB)s] ^o }}\n"
     "odd = #[#^ -> 'int, #^ -> 'int, 'int] {{ | =[_, _, 0] => 0 | =[e, o, n] => {B}[&e, &o, [n, 1] %(SUB)s] ^e }}\n"
     "[&even, &odd, {N}] even"),
    ("named_mutual_block", True,
     "even = #[#^ -> 'int, #^ -> 'int, 'int] {{ | =[_, _, 0] => 1 | =[e, o, n] => {{ {B}[&e, &o, [n, 1] %(SUB)s] ^o }} }}\n"
     "odd = #[#^ -> 'int, #^ -> 'int, 'int] {{ | =[_, _, 0] => 0 | =[e, o, n] => {{ {{ {B}[&e, &o, [n, 1] %(SUB)s] }} ^e }} }}\n"
     "[&even, &odd, {N}] even"),
    ("named_three_cycle", True,
     "a = #[#^ -> 'int, #^ -> 'int, #^ -> 'int, 'int] {{ | =[_, _, _, 0] => 0 | =[x, y, z, n] => {B}[&x, &y, &z, [n, 1] %(SUB)s] ^y }}\n"
     "b = #[#^ -> 'int, #^ -> 'int, #^ -> 'int, 'int] {{ | =[_, _, _, 0] => 1 | =[x, y, z, n] => {B}[&x, &y, &z, [n, 1] %(SUB)s] ^z }}\n"
     "c = #[#^ -> 'int, #^ -> 'int, #^ -> 'int, 'int] {{ | =[_, _, _, 0] => 2 | =[x, y, z, n] => {B}[&x, &y, &z, [n, 1] %(SUB)s] ^x }}\n"
     "[&a, &b, &c, {N}] a"),
    ("named_back_and_forth", True,
     "g = #[#^ -> 'int, 'int] {{ | =[_, 0] => 0 | =[back, n] => {B}[&back, [n, 1] %(SUB)s] ^back }}\n"
     "f = #[#^ -> 'int, 'int] {{ | =[_, 0] => 0 | =[back, n] => {B}[&back, [n, 1] %(SUB)s] ^g }}\n"
     "[&f, {N}] f"),
    ("named_mutual_inner_branch", True,
     "even = #[#^ -> 'int, #^ -> 'int, 'int] {{ =[e, o, n] => n {{ | =0 => 1 | =m => {B}[&e, &o, [m, 1] %(SUB)s] ^o }} }}\n"
     "odd = #[#^ -> 'int, #^ -> 'int, 'int] {{ =[e, o, n] => n {{ | =0 => 0 | =m => {B}[&e, &o, [m, 1] %(SUB)s] ^e }} }}\n"
     "[&even, &odd, {N}] even"),
    # --- `^~` (ripple) ------------------------------------------------------------------------
    ("ripple_thunk", False,
     "'thunk = #[] -> 'int\n"
     "mk = #[#^ -> 'thunk, 'int] {{ =[self, n], #{{ | n =0 => 0 | n [~, 1] %(SUB)s [&self, ~] self ^~ }} }}, [&mk, {N}] mk =t, t"),
    ("ripple_thunk_bin", False,
     "'thunk = #[] -> 'int\n"
     "mk = #[#^ -> 'thunk, 'int] {{ =[self, n], #{{ | n =0 => 0 | {{ [0x01, 0x02] __binary_concat__, n [~, 1] %(SUB)s [&self, ~] self ^~ }} }} }}, [&mk, {N}] mk =t, t"),
    ("ripple_thunk_block", False,
     "'thunk = #[] -> 'int\n"
     "mk = #[#^ -> 'thunk, 'int] {{ =[self, n], #{{ | n =0 => 0 | {{ {{ n [~, 1] %(SUB)s [&self, ~] self }} ^~ }} }} }}, [&mk, {N}] mk =t, t"),
    ("ripple_thunk_bin_capture", False,
     "'thunk = #[] -> 'bin\n"
     "mk = #[#^ -> 'thunk, 'int, 'bin] {{ =[self, n, b], #{{ | n =0 => b | n [~, 1] %(SUB)s [&self, ~, [b, 0x01] __binary_concat__ [0x02, 0x03] __binary_concat__] self ^~ }} }}, [&mk, {N}, 0x00] mk =t, t"),
]
TEMPLATES = [(name, has_bin, text % {"SUB": SUB, "ADD": ADD, "CMP": CMP}) for name, has_bin, text in TEMPLATES]


def c16_programs(n_small=20, factor=50):
    """[(template id, source at N, source at factor * N)]"""
    out = []
    for name, has_bin, text in TEMPLATES:
        variants = [("", "")] + ([("+bin", BIN)] if has_bin else [])
        for tag, b in variants:
            out.append((name + tag, text.format(N=n_small, B=b), text.format(N=n_small * factor, B=b)))
    return out


# ---------------------------------------------------------------------------------------------
# C07: seeded generator of extra programs (nested blocks / branches / patterns / closures /
# tail calls over integers and small tuples).  Programs the compiler rejects simply do not count.
# ---------------------------------------------------------------------------------------------
class Gen:
    def __init__(self, rng):
        self.rng = rng
        self.n = 0

    def fresh(self, p="v"):
        self.n += 1
        return "%s%d" % (p, self.n)

    def atom(self, vs):
        if vs and self.rng.random() < 0.6:
            return self.rng.choice(vs)
        return str(self.rng.randint(0, 9))

    def expr(self, d, vs):
        """a chain of type 'int"""
        r = self.rng
        if d <= 0:
            return self.atom(vs)
        k = r.randint(0, 11)
        if k == 0:
            return self.atom(vs)
        if k in (1, 2):
            op = r.choice([ADD, SUB, "__integer_multiply__"])
            return "[%s, %s] %s" % (self.expr(d - 1, vs), self.expr(d - 1, vs), op)
        if k == 3:      # literal branches with a binding fallback
            n = self.fresh("n")
            arms = ["=%d => %s" % (i, self.expr(d - 1, vs)) for i in r.sample(range(6), r.randint(1, 3))]
            arms.append("=%s => %s" % (n, self.expr(d - 1, vs + [n])))
            return "%s { | %s }" % (self.expr(d - 1, vs), " | ".join(arms))
        if k == 4:      # guard with fallback
            return "%s { | [~, %d] %s =%d => %s | %s }" % (
                self.expr(d - 1, vs), r.randint(0, 9), CMP, r.choice([-1, 0, 1]),
                self.expr(d - 1, vs), self.expr(d - 1, vs))
        if k == 5:      # destructuring inside a block
            p, q = self.fresh("p"), self.fresh("q")
            return "{ [%s, %s] =[%s, %s], %s }" % (self.expr(d - 1, vs), self.expr(d - 1, vs), p, q,
                                                    self.expr(d - 1, vs + [p, q]))
        if k == 6:      # closure capturing a local
            c, f = self.fresh("c"), self.fresh("f")
            return "{ %s = %s, %s = #'int { [~, %s] %s }, %s %s }" % (
                c, self.expr(d - 1, vs), f, c, r.choice([ADD, SUB]), self.expr(d - 1, vs + [c]), f)
        if k == 7:      # self tail call
            g, n = self.fresh("g"), self.fresh("n")
            return "{ %s = #'int { | =0 => %s | =%s => [%s, 1] %s ^ }, %d %s }" % (
                g, self.expr(d - 1, vs), n, n, SUB, r.randint(0, 4), g)
        if k == 8:      # named tuple patterns
            x, y = self.fresh("x"), self.fresh("y")
            return "P[%s, %s] { | =P[0, %s] => %s | =P[%s, %s] => %s }" % (
                self.expr(d - 1, vs), self.expr(d - 1, vs), y, self.expr(d - 1, vs + [y]),
                x, y, self.expr(d - 1, vs + [x, y]))
        if k == 9:      # two-argument function with a tail call to an earlier function
            h, g, a, b = self.fresh("h"), self.fresh("g"), self.fresh("a"), self.fresh("b")
            return "{ %s = #'int { [~, %s] %s }, %s = #['int, 'int] { =[%s, %s] => %s ^%s }, [%s, %s] %s }" % (
                g, self.atom(vs), ADD, h, a, b, self.expr(d - 1, vs + [a, b]), g,
                self.expr(d - 1, vs), self.expr(d - 1, vs), h)
        if k == 10:     # nested block shadowing, condition-consequence with a sequence
            t = self.fresh("t")
            return "{ %s = %s, %s { | =0 => { %s = 1, %s } | %s } }" % (
                t, self.expr(d - 1, vs), t, t, self.expr(d - 1, vs + [t]), self.expr(d - 1, vs + [t]))
        # alternation / type patterns
        m = self.fresh("m")
        return "%s { | =(1 | 2 | 3) => %s | =('int)%s => %s }" % (
            self.expr(d - 1, vs), self.expr(d - 1, vs), m, self.expr(d - 1, vs + [m]))

    def program(self):
        vs, steps = [], []
        for _ in range(self.rng.randint(0, 3)):
            v = self.fresh("x")
            steps.append("%s = %s" % (v, self.expr(self.rng.randint(1, 3), vs)))
            vs.append(v)
        steps.append(self.expr(self.rng.randint(2, 4), vs))
        return ", ".join(steps)


def corpus_generated(n, seed):
    rng = random.Random(seed * 7919 + 13)
    out = []
    for i in range(n):
        g = Gen(rng)
        out.append({"id": "gen:%d:%d" % (seed, i), "lines": [g.program()], "source": "generated"})
    return out


# ---------------------------------------------------------------------------------------------
# tools and TLC plumbing
# ---------------------------------------------------------------------------------------------
import threading


def _run_tool_once(name, records, timeout):
    inp = "".join(json.dumps(r) + "\n" for r in records)
    p = common.run_bin(name, stdin=inp, timeout=timeout)
    out = []
    for line in p.stdout.splitlines():
        if line.startswith("{"):
            try:
                out.append(json.loads(line))
            except ValueError:
                pass        # a line cut short by a dying process
    return p.returncode, out, p.stderr


def run_tool(name, records, timeout=1800):
    """Run a harness tool over the records; a process that dies on one program (stack overflow,
    abort) loses only that program: it is reported as crashed and the rest is resumed."""
    out, crashed = [], []
    rest = list(records)
    while rest:
        rc, got, err = _run_tool_once(name, rest, timeout)
        out += got
        if rc == 0:
            break
        seen = {json.dumps(g.get("id")) for g in got}
        k = 0
        while k < len(rest) and json.dumps(rest[k].get("id")) in seen:
            k += 1
        if k >= len(rest):
            break
        crashed.append({"id": rest[k].get("id"), "tool": name, "rc": rc, "stderr": err[-300:]})
        rest = rest[k + 1:]
    return out, crashed


def run_tool_parallel(name, records, jobs=6, timeout=1800):
    common.build_harness()
    if not records:
        return [], []
    jobs = max(1, min(jobs, len(records)))
    parts = [records[i::jobs] for i in range(jobs)]
    res = [None] * jobs

    def work(i):
        try:
            res[i] = run_tool(name, parts[i], timeout)
        except Exception as e:          # re-raised below
            res[i] = e
    ts = [threading.Thread(target=work, args=(i,)) for i in range(jobs)]
    for t in ts:
        t.start()
    for t in ts:
        t.join()
    out, crashed = [], []
    for r in res:
        if isinstance(r, Exception):
            raise r
        out += r[0]
        crashed += r[1]
    return out, crashed


def enc_code(code):
    return [[i["op"], i["a"]] + ([i["b"]] if "b" in i else []) for i in code]


def to_tlc_image(j, only=None):
    """bcdump record -> the compact image VMStack.tla reads (instructions as [op, a] tuples).
    only = [(function position, l0, keep)]: analyse just these items (code of the others blanked)."""
    out = {"id": j["id"], "line": j["line"], "form": j["form"], "nconst": j["nconst"], "arity": j["arity"],
           "ntypes": j["ntypes"], "caps": j["caps"], "tids": j["tids"], "nbuiltins": j["nbuiltins"],
           "entries": [{"fi": e["fi"], "l0": e["l0"], "keep": e["keep"]} for e in j["entries"]]}
    if only is None:
        out["fns"] = [enc_code(f["code"]) for f in j["fns"]]
    else:
        wanted = {o[0] for o in only}
        out["fns"] = [enc_code(f["code"]) if (k + 1) in wanted else [] for k, f in enumerate(j["fns"])]
        out["only"] = [list(o) for o in only]
    return out


def image_items(j):
    """the analysis items of an image, as VMStack.tla's Items: (function position, l0, keep)"""
    entry = {e["fi"] for e in j["entries"]}
    items = [(k + 1, j["caps"][k], 0) for k in range(len(j["fns"])) if k not in entry]
    items += [(e["fi"] + 1, e["l0"], e["keep"]) for e in j["entries"]]
    return items


def shape_key(j, item):
    """Everything VMStack's analysis of an item depends on: the code with the table entries its
    operands select, the function's own captures, entry locals, keep, and whether its type id is in
    range.  Two items with the same key have the same analysis (used only to pick representatives
    in the quick tier; TLC still checks the representative against its raw tables)."""
    k, l0, keep = item
    rc = []
    for i in j["fns"][k - 1]["code"]:
        op, a = i["op"], i["a"]
        if op == "Tuple":
            rc.append((op, j["arity"][a] if 0 <= a < len(j["arity"]) else "oor"))
        elif op == "Function":
            rc.append((op, j["caps"][a] if 0 <= a < len(j["caps"]) else "oor"))
        elif op == "Constant":
            rc.append((op, 0 <= a < j["nconst"]))
        elif op == "IsType":
            rc.append((op, 0 <= a < j["ntypes"]))
        elif op == "Builtin":
            rc.append((op, 0 <= a < j["nbuiltins"]))
        elif op == "Process":
            rc.append((op, a >= 0, 0 <= i.get("b", -1) < len(j["caps"])))
        else:
            rc.append((op, a))
    tid = j["tids"][k - 1]
    head = [l0, keep, j["caps"][k - 1], 0 <= tid < j["ntypes"]]
    return hashlib.sha1(json.dumps([head, rc], separators=(",", ":")).encode()).hexdigest()


def select_representatives(images, raw_ids=()):
    """[(image, only)] keeping one item per distinct shape; images left with nothing are dropped.
    Images of the programs in raw_ids (the standard library, the pinned probes) are always analysed
    whole."""
    seen, out, total, kept = set(), [], 0, 0
    for j in sorted(images, key=lambda j: 0 if j["id"] in raw_ids else 1):
        if j["id"] in raw_ids:
            for it in image_items(j):
                total += 1
                kept += 1
                seen.add(shape_key(j, it))
            out.append((j, None))
            continue
        only = []
        for it in image_items(j):
            total += 1
            key = shape_key(j, it)
            if key not in seen:
                seen.add(key)
                only.append(it)
        kept += len(only)
        if only:
            out.append((j, only))
    return out, total, kept


def to_tlc_trace(r):
    return {"id": r["id"], "end": r["end"], "err": r.get("err") or "", "steps": r["steps"],
            "arity": r["arity"], "caps": r["caps"], "fis": [f["fi"] for f in r["fns"]],
            "fns": [enc_code(f["code"]) for f in r["fns"]], "obs": r["obs"]}


def _split(lines, n):
    """n lists of serialised records, balanced by size (largest first)."""
    n = max(1, min(n, len(lines)))
    bins = [[0, []] for _ in range(n)]
    for s in sorted(lines, key=len, reverse=True):
        b = min(bins, key=lambda b: b[0])
        b[0] += len(s)
        b[1].append(s)
    return [b[1] for b in bins if b[1]]


def tlc_parallel(check, module, cfg, envvar, records, tag, procs=4, workers=4, timeout=3000, xmx="8g",
                 label=None):
    """Run TLC on the records, split over `procs` TLC processes (JSON loading is single-threaded in
    TLC).  Returns the list of TlcResult; every run is added to the evidence."""
    os.makedirs(WORKDIR, exist_ok=True)
    lines = [json.dumps(r, separators=(",", ":")) for r in records]
    parts = _split(lines, procs)
    results = [None] * len(parts)

    def work(i):
        path = os.path.join(WORKDIR, "%s_%s_%d_%d.ndjson" % (module, tag, os.getpid(), i))
        with open(path, "w") as f:
            for s in parts[i]:
                f.write(s + "\n")
        try:
            results[i] = common.tlc(module, cfg, env={envvar: path}, workers=workers, timeout=timeout,
                                    extra=["-continue"], xmx=xmx,
                                    metadir=os.path.join(common.WORK, "tlc_%s_%s_%d_%d" % (module, tag, os.getpid(), i)))
        except Exception as e:
            results[i] = e
        finally:
            if not os.environ.get("VMSTACK_KEEP"):
                try:
                    os.remove(path)
                except OSError:
                    pass
    ts = [threading.Thread(target=work, args=(i,)) for i in range(len(parts))]
    for t in ts:
        t.start()
    for t in ts:
        t.join()
    out = []
    for i, r in enumerate(results):
        if isinstance(r, Exception):
            raise r
        check.add_tlc(label or module, r)
        if r.eval_error or (r.rc != 0 and not r.violated):
            sys.stderr.write("\n".join(l for l in r.out.splitlines() if not l.startswith('<<"STAT"'))[-3000:] + "\n")
            raise common.ToolError("%s could not evaluate its input (%s part %d)" % (module, tag, i))
        out.append((r, [json.loads(s) for s in parts[i]]))
    return out


def prints_of(res, kind):
    prefix = '<<"%s", ' % kind
    out, seen = [], set()
    for p in res.prints:
        # (TLC evaluates the action again when it reconstructs a counterexample: each line twice)
        if p.startswith(prefix) and p not in seen:
            seen.add(p)
            out.append(json.loads(json.loads(p[len(prefix):-2])))
    return out


_STAT = re.compile(r'^<<"STAT", (\d+), (\d+), (\d+), (\d+), (\d+), (\d+)>>$', re.M)


def vmstack_check(check, images, tag, procs=4, workers=4, representatives=False, raw_ids=()):
    """TLC VMStack over bcdump images.  Returns (violations, stats)."""
    stats = {"items": 0, "steps": 0, "join_arrivals": 0, "joins_with_different_local_counts": 0,
             "tailcall_sites": 0, "images": len(images)}
    viols = []
    if not images:
        return viols, stats
    if representatives:
        sel, total, kept = select_representatives(images, raw_ids)
        stats["items_in_corpus"] = total
        stats["items_selected_as_distinct_shapes"] = kept
        records = [to_tlc_image(j, only) for j, only in sel]
    else:
        records = [to_tlc_image(j) for j in images]
    runs = tlc_parallel(check, "VMStack", "MC_VMStack.cfg", "VMSTACK_IN", records,
                        tag, procs=procs, workers=workers, label="VMStack(work-list fixpoint per function)")
    analysed, nontrivial = set(), set()
    for res, part in runs:
        vs = prints_of(res, "VIOL")
        for m in _STAT.finditer(res.out):
            stats["items"] += 1
            stats["steps"] += int(m.group(3))
            stats["join_arrivals"] += int(m.group(4))
            stats["joins_with_different_local_counts"] += int(m.group(5))
            stats["tailcall_sites"] += int(m.group(6))
            # measured on what TLC analysed: distinct code bodies, and those with a join or a
            # branch / call / tail call / spawn / select / send
            code = part[int(m.group(1)) - 1]["fns"][int(m.group(2))]
            h = fn_hash(code)
            analysed.add(h)
            if int(m.group(4)) > 0 or any(i[0] in NONTRIVIAL_OPS for i in code):
                nontrivial.add(h)
        stats["items"] += len(vs)
        if bool(vs) != bool(res.violated):
            sys.stderr.write(res.out[-2000:])
            raise common.ToolError("VMStack: invariant violations and VIOL lines disagree")
        for v in vs:
            v["invariant"] = RULES.get(v["rule"], "?")
            viols.append(v)
    stats["distinct_analysed"] = len(analysed)
    stats["distinct_nontrivial_analysed"] = len(nontrivial)
    return viols, stats


ALL_OPS = ["Constant", "Pop", "Duplicate", "Pick", "Rotate", "Reset", "Load", "Store", "Tuple", "Get", "IsType",
           "Jump", "JumpIf", "Call", "TailCall", "Function", "Builtin", "Equal", "Not", "Spawn", "Send", "Self",
           "Select", "Process"]


def ops_exercised(traces):
    """How many validated steps executed each instruction (the last observation of a trace is
    not followed by a validated step)."""
    n = {}
    for r in traces:
        if r.get("status") != "ok":
            continue
        codes = [[i["op"] for i in f["code"]] for f in r["fns"]]
        obs = r.get("obs", [])
        for o in obs[:-1]:
            if o[0] >= 0 and o[1] < len(codes[o[0]]):
                op = codes[o[0]][o[1]]
                n[op] = n.get(op, 0) + 1
    return n


def vmtrace_check(check, traces, tag, procs=4, workers=4):
    """TLC VMTrace over vmtrace records.  Returns (runtime violations, drifts, observations)."""
    recs = [to_tlc_trace(r) for r in traces if r.get("status") == "ok" and r.get("obs")]
    nobs = sum(len(r["obs"]) for r in recs)
    if not recs:
        return [], [], 0
    runs = tlc_parallel(check, "VMTrace", "VMTrace.cfg", "VMTRACE_IN", recs, tag, procs=procs, workers=workers,
                        label="VMTrace(real VM steps against the stack effects)")
    viols, drifts = [], []
    for res, part in runs:
        viols += prints_of(res, "VIOL")
        drifts += prints_of(res, "DRIFT")
        want = ("RuntimeWellFormed" in res.violated, "NoDrift" in res.violated)
        if want != (bool(prints_of(res, "VIOL")), bool(prints_of(res, "DRIFT"))):
            sys.stderr.write(res.out[-2000:])
            raise common.ToolError("VMTrace: invariant violations and printed lines disagree")
    return viols, drifts, nobs


# ---------------------------------------------------------------------------------------------
# the pipeline
# ---------------------------------------------------------------------------------------------
def tool_record(p, **extra):
    """corpus entry -> input record of bcdump / vmtrace"""
    r = {"id": p["id"], "lines": p["lines"]}
    for k in ("modules", "io"):
        if k in p:
            r[k] = p[k]
    r.update(extra)
    return r


def fn_hash(code):
    return hashlib.sha1(json.dumps(code, separators=(",", ":")).encode()).hexdigest()[:16]


NONTRIVIAL_OPS = {"JumpIf", "Call", "TailCall", "Spawn", "Select", "Send"}


def pipeline(check, programs, tag, group_size=25, trace_keep=3000, trace_max=200000, jobs=6,
             merged=True, tlc_procs=4, tlc_workers=4, static_only=False, representatives=False):
    """Everything C07 does to a list of corpus entries.  Returns a dict with the violations
    (each with the input needed to replay it) and the measurements."""
    by_id = {p["id"]: p for p in programs}
    t0 = time.time()
    # 1. the real compiler: forms compiled / shaken / shaken_fn
    dumps, crashed = run_tool_parallel("bcdump", [tool_record(p) for p in programs], jobs=jobs)
    # 2. merged form: groups of programs evaluated by the real REPL against one environment
    groups = []
    if merged:
        order = list(programs)
        random.Random(common.seed()).shuffle(order)
        for i in range(0, len(order), group_size):
            groups.append({"id": "merged:%s:%d" % (tag, i // group_size),
                           "group": [tool_record(p) for p in order[i:i + group_size]]})
        gd, gc = run_tool_parallel("bcdump", groups, jobs=jobs)
        dumps += gd
        crashed += gc
    group_by_id = {g["id"]: g for g in groups}
    t_dump = time.time() - t0
    images = [d for d in dumps if d.get("status") == "ok"]
    m = {"programs": len(programs), "per_source": {}, "per_form": {}, "rejected": 0, "nocode": 0,
         "compiler_panics": [], "tool_crashes": crashed, "bcdump_s": round(t_dump, 1)}
    status_by_id = {}
    for d in dumps:
        if d["form"] == "-" or d.get("status") != "ok":
            if d.get("status") == "rejected":
                m["rejected"] += 1
            elif d.get("status") == "nocode":
                m["nocode"] += 1
            elif d.get("status") == "panic":
                m["compiler_panics"].append({"id": d["id"], "form": d.get("form"), "msg": d.get("msg", "")[:200]})
        if d.get("status") == "ok" and d["form"] == "compiled":
            status_by_id[d["id"]] = "ok"
    for p in programs:
        s = m["per_source"].setdefault(p.get("source", "?"), {"programs": 0, "compiled": 0})
        s["programs"] += 1
        if status_by_id.get(p["id"]) == "ok":
            s["compiled"] += 1
    distinct, nontrivial = set(), set()
    for d in images:
        f = m["per_form"].setdefault(d["form"], {"images": 0, "functions": 0, "instructions": 0})
        f["images"] += 1
        f["functions"] += len(d["fns"])
        for fn in d["fns"]:
            f["instructions"] += len(fn["code"])
            h = fn_hash(fn["code"])
            distinct.add(h)
            if any(i["op"] in NONTRIVIAL_OPS for i in fn["code"]):
                nontrivial.add(h)
    m["distinct_functions"] = len(distinct)
    m["distinct_nontrivial"] = len(nontrivial)
    # 3. TLC: the static analysis
    t1 = time.time()
    sviol, stats = vmstack_check(check, images, tag, procs=tlc_procs, workers=tlc_workers,
                                 representatives=representatives,
                                 raw_ids={p["id"] for p in programs if p.get("source") in ("std", "probes")})
    m["vmstack_s"] = round(time.time() - t1, 1)
    m["static"] = stats
    violations = []
    member_of = {}
    for d in images:
        if d["form"] == "merged":
            for e in d["entries"]:
                member_of[(d["id"], e["fi"])] = e.get("of")
    for v in sviol:
        src = group_by_id.get(v["id"]) or (tool_record(by_id[v["id"]]) if v["id"] in by_id else None)
        violations.append({"kind": "static", "program": src, "form": v["form"], "line": v["line"],
                           "member": member_of.get((v["id"], v["fi"])),
                           "function": v["fi"], "pc": v["pc"], "rule": v["rule"], "invariant": v["invariant"],
                           "detail": {k: v[k] for k in ("h", "l", "x", "op", "l0")}})
    # 4. the real VM, one instruction per step, and TLC: the binding
    m["traces"] = {"run": 0, "validated": 0, "observations": 0, "ends": {}, "drift": 0}
    drifts = []
    if not static_only:
        t2 = time.time()
        runnable = [p for p in programs if status_by_id.get(p["id"]) == "ok"]
        recs = []
        for p in runnable:
            recs.append(tool_record(p, keep=trace_keep, max_steps=trace_max))
        # every 7th program also runs in its tree-shaken form
        for k, p in enumerate(runnable):
            if k % 7 == 0:
                recs.append(tool_record(p, id=p["id"] + "#shaken", keep=trace_keep, max_steps=trace_max,
                                        form="shaken"))
        traces, tcrashed = run_tool_parallel("vmtrace", recs, jobs=jobs)
        m["tool_crashes"] += tcrashed
        m["vmtrace_s"] = round(time.time() - t2, 1)
        t3 = time.time()
        ok = [r for r in traces if r.get("status") == "ok"]
        for r in ok:
            e = r["end"] + (":" + r["err"] if r["end"] == "error" else "")
            m["traces"]["ends"][e] = m["traces"]["ends"].get(e, 0) + 1
        rviol, drifts, nobs = vmtrace_check(check, ok, tag, procs=tlc_procs, workers=tlc_workers)
        m["vmtrace_tlc_s"] = round(time.time() - t3, 1)
        m["traces"]["run"] = len(ok)
        m["traces"]["validated"] = sum(1 for r in ok if len(r.get("obs", [])) >= 2)
        m["traces"]["observations"] = nobs
        m["traces"]["drift"] = len(drifts)
        ex = ops_exercised(ok)
        m["traces"]["steps_per_instruction"] = ex
        m["traces"]["instructions_bound_by_reading_only"] = [o for o in ALL_OPS if not ex.get(o)]
        for v in rviol:
            pid = v["id"][:-len("#shaken")] if str(v["id"]).endswith("#shaken") else v["id"]
            violations.append({"kind": "runtime", "program": tool_record(by_id[pid]) if pid in by_id else None,
                               "form": "shaken" if str(v["id"]).endswith("#shaken") else "compiled",
                               "line": 1, "function": None, "pc": None, "rule": "runtime_error:" + v["err"],
                               "invariant": "RuntimeWellFormed", "detail": {"steps": v["steps"]}})
    return {"violations": violations, "drifts": drifts, "m": m, "images": images}


RULE_C07 = ("For every function of every bytecode image the real compiler produces (forms: as compiled, "
            "tree-shaken from the wrapper entry, tree-shaken from the program's function value as `quiv "
            "compile` does, merged into a running environment by the real REPL), TLC runs the abstract "
            "machine of VMStack.tla (stack effects of VMSem.tla = DESIGN.md Appendix D, re-read against "
            "executor.rs) to a fixpoint over all control-flow paths; invariants: NoUnderflow, JumpsInside, "
            "IndicesInRange (constant/tuple/type/function/builtin indices, function type ids, Rotate/Equal "
            "operands), LoadsDefined (Load(i) with i < locals defined on ALL paths; only definedness is "
            "judged, the count may differ at joins), ResetInRange, JoinHeightsAgree, ExitHeightOne, "
            "TailCallHeights.  Binding: VMTrace.tla replays per-instruction traces of the real executor "
            "(sync path, step(1)) against the same stack effects (a mismatch is model_drift) and a run "
            "ending in StackUnderflow/VariableUndefined/FunctionUndefined/ConstantUndefined/FrameUnderflow "
            "violates RuntimeWellFormed.")

RULE_C16 = ("Static: in every function of every tail-recursive shape, VMStack.tla's TailCallHeights holds "
            "(TailCall(true) at relative height exactly 1, TailCall(false) at exactly 2: no operand "
            "survives an iteration) together with all C07 clauses.  Dynamic: each shape runs on the real "
            "VM one instruction per step at N = 20 and 50 N = 1000; VMTrace.tla validates the steps "
            "(TailCall keeps the frame count and bases, cuts the locals back to base + captures); "
            "VMPeaks.tla requires equal peak frames / locals / stack at N and 50 N, heap slots at 50 N "
            "<= heap slots at N <= 8, and both runs to complete.")


def describe(v):
    prog = v.get("program") or {}
    src = prog.get("lines") or [m.get("lines") for m in prog.get("group", [])][:1]
    text = json.dumps(src)[:160]
    return "%s: form=%s line=%s function=%s pc=%s rule=%s %s program=%s %s" % (
        v["invariant"], v["form"], v.get("line"), v.get("function"), v.get("pc"), v["rule"],
        json.dumps(v.get("detail", {})), prog.get("id"), text)


# Pinned reproducers of known findings (known_findings.json): they stay in the corpus so that the
# finding is re-observed on every run (KNOWN-FINDING line) and a fix is noticed.
PROBES = [
    {"id": "probe:repl-toplevel-tailcall:self", "lines": ["x = 5", "{ | =1 => x | 1 ^ }"],
     "source": "probes", "known": "repl-toplevel-tailcall", "rules": ["load_undefined"]},
    {"id": "probe:repl-toplevel-tailcall:named",
     "lines": ["f = #'int { [~, 1] __integer_add__ }, y = 3", "5 ^f", "y"],
     "source": "probes", "known": "repl-toplevel-tailcall", "rules": ["handover"]},
]


def known_key(v):
    ids = {(v.get("program") or {}).get("id"), v.get("member")}
    for p in PROBES:
        if p["id"] in ids and v["rule"] in p["rules"]:
            return p["known"]
    return None


def select_c07(tier):
    tests, sites, unread, loose = corpus_tests()
    import extra_sources
    fixed = corpus_std() + corpus_spec() + corpus_examples() + [dict(p) for p in PROBES]
    fixed += [{"id": "extra:%d" % i, "lines": [x], "source": "generated"} for i, x in enumerate(extra_sources.EXTRA_SOURCES)]
    # value-producing terms without an input, in every position where a chain starts with nothing flowing in
    fixed += [{"id": "noinput:%d" % i, "lines": [x], "source": "generated"} for i, x in enumerate(extra_sources.vm_sources())]
    info = {"test_call_sites": sites, "test_call_sites_unread": unread, "test_sessions": len(tests),
            "test_other_literals": len(loose)}
    # Both tiers take the WHOLE corpus.  thorough analyses every function of every image; quick
    # analyses the standard library whole and, of the rest, one representative per distinct function
    # shape (see shape_key) -- the test suite repeats the same library functions thousands of times.
    gen = corpus_generated(1500 if tier == "thorough" else 250, common.seed())
    # the language engine's seeded generator (spreads, nested blocks/branches, patterns, closures, tail calls ...)
    try:
        import seqgen, seqast
        for g in seqgen.generate_programs(common.seed(), 12000 if tier == "thorough" else 2500):
            if g["known"]:
                continue        # syntactic trigger of a language defect pinned under C02 (known_findings.json)
            gen.append({"id": "seq:" + g["id"], "lines": [seqast.render(g["ast"])], "source": "generated"})
    except Exception as e:      # optional
        info["seqgen_unavailable"] = str(e)[:100]
    return fixed + tests + loose + gen, info


def run_c07(tier):
    check = common.Check("C07", tier)
    check.cov["rule"] = RULE_C07
    programs, info = select_c07(tier)
    big = tier == "thorough"
    r = pipeline(check, programs, "c07", trace_keep=20000 if big else 2000,
                 trace_max=200000 if big else 50000, tlc_procs=4, tlc_workers=4, representatives=not big)
    m = r["m"]
    check.cov["corpus"] = info
    check.cov["counts"] = m
    check.cov["evaluations"] = m["static"]["items"]
    check.cov["functions_in_corpus"] = m["static"].get("items_in_corpus", m["static"]["items"])
    check.cov["distinct_nontrivial"] = m["static"]["distinct_nontrivial_analysed"]
    check.cov["tailcall_sites_checked"] = m["static"]["tailcall_sites"]
    check.cov["traces_validated_against_impl"] = m["traces"]["validated"]
    check.cov["model_drift"] = m["traces"]["drift"]
    check.cov["drift_samples"] = r["drifts"][:5]
    for d in r["images"][:400:80]:
        check.sample({"program": d["id"], "form": d["form"], "functions": len(d["fns"])})
    check.sample({"program": "std:all", "note": "whole standard library via one import program"})
    for d in r["drifts"][:5]:
        print("  MODEL-DRIFT (not a violation): %s" % json.dumps(d)[:300])
    reported = 0
    for v in r["violations"]:
        obj = dict(v, prop="C07")
        if check.violation(obj, name=v["kind"], key=known_key(v), what=describe(v) if known_key(v) is None else ""):
            reported += 1
    probes_seen = {(v.get("program") or {}).get("id") for v in r["violations"]} | {v.get("member") for v in r["violations"]}
    for p in PROBES:
        if p["id"] not in probes_seen and common.finding_for("C07", p["known"]) is not None:
            print("  NOTE: known finding %s was NOT reproduced by %s (fixed? then mark it fixed in known_findings.json)"
                  % (p["known"], p["id"]))
    check.cov["known_finding_probes"] = [p["id"] for p in PROBES]
    print("C07 %s: %d programs (%s), %d images holding %d functions; %d analysed by TLC (%d distinct code "
          "bodies, %d of them nontrivial), "
          "%d TailCall sites, %d real traces validated (%d observations), drift=%d, violations=%d"
          % (tier, m["programs"], ", ".join("%s %d/%d" % (k, v["compiled"], v["programs"]) for k, v in sorted(m["per_source"].items())),
             m["static"]["images"], m["static"].get("items_in_corpus", m["static"]["items"]), m["static"]["items"],
             m["static"]["distinct_analysed"], m["static"]["distinct_nontrivial_analysed"],
             m["static"]["tailcall_sites"], m["traces"]["validated"], m["traces"]["observations"],
             m["traces"]["drift"], reported))
    return check.finish()


def peaks_check(check, pairs, tag):
    """pairs: [(id, small trace record, large trace record)] -> VIOL records of VMPeaks."""
    recs = []
    for tid, a, b in pairs:
        def side(r, n):
            return {"n": n, "end": r.get("end", r.get("status", "?")), "steps": r.get("steps", 0),
                    "frames": r.get("peak", {}).get("frames", 0), "locals": r.get("peak", {}).get("locals", 0),
                    "stack": r.get("peak", {}).get("stack", 0), "slots": r.get("heap", {}).get("slots", 0)}
        recs.append({"id": tid, "small": side(a, 1), "large": side(b, 50)})
    runs = tlc_parallel(check, "VMPeaks", "VMPeaks.cfg", "VMPEAKS_IN", recs, tag, procs=1, workers=4,
                        label="VMPeaks(peaks at N vs 50N)")
    out = []
    for res, part in runs:
        vs = prints_of(res, "VIOL")
        if bool(vs) != bool(res.violated):
            raise common.ToolError("VMPeaks: invariant violations and VIOL lines disagree")
        out += vs
    return out


def c16_pipeline(check, shapes, tag, keep_large, static=True):
    """shapes: [(id, source at N, source at 50N)].  Returns (violations, measurements, drifts)."""
    m = {}
    violations, drifts = [], []
    progs = []
    for tid, a, b in shapes:
        progs.append({"id": tid + "@N", "lines": [a], "source": "c16"})
        progs.append({"id": tid + "@50N", "lines": [b], "source": "c16"})
    src_of = {tid: (a, b) for tid, a, b in shapes}
    if static:
        r = pipeline(check, progs, tag, group_size=23, static_only=True, tlc_procs=2, tlc_workers=6)
        m["static"] = r["m"]
        for v in r["violations"]:
            violations.append(v)
        compiled = r["m"]["per_source"].get("c16", {}).get("compiled", 0)
        if compiled != len(progs):
            raise common.ToolError("C16: %d of %d template instances were rejected by the compiler"
                                   % (len(progs) - compiled, len(progs)))
    # dynamic part
    t0 = time.time()
    recs = []
    for tid, a, b in shapes:
        recs.append({"id": tid + "@N", "lines": [a], "keep": 100000, "max_steps": 400000})
        recs.append({"id": tid + "@50N", "lines": [b], "keep": keep_large, "max_steps": 3000000})
    traces, crashed = run_tool_parallel("vmtrace", recs, jobs=8)
    m["vmtrace_s"] = round(time.time() - t0, 1)
    m["tool_crashes"] = crashed
    by = {t["id"]: t for t in traces}
    ok = [t for t in traces if t.get("status") == "ok"]
    rviol, drifts, nobs = vmtrace_check(check, ok, tag, procs=4, workers=4)
    m["observations"] = nobs
    m["traces_validated"] = sum(1 for r in ok if len(r.get("obs", [])) >= 2)
    m["steps_per_instruction"] = ops_exercised(ok)
    for v in rviol:
        tid = v["id"].rsplit("@", 1)[0]
        violations.append({"kind": "runtime", "program": {"id": v["id"], "lines": [src_of[tid][0 if v["id"].endswith("@N") else 1]]},
                           "form": "compiled", "line": 1, "function": None, "pc": None,
                           "rule": "runtime_error:" + v["err"], "invariant": "RuntimeWellFormed",
                           "detail": {"steps": v["steps"]}})
    pairs = []
    for tid, a, b in shapes:
        pairs.append((tid, by.get(tid + "@N", {"status": "missing"}), by.get(tid + "@50N", {"status": "missing"})))
    m["peaks"] = {tid: {"N": [x.get("peak"), x.get("heap"), x.get("steps")],
                        "50N": [y.get("peak"), y.get("heap"), y.get("steps")]} for tid, x, y in pairs}
    for v in peaks_check(check, pairs, tag):
        a, b = src_of[v["id"]]
        violations.append({"kind": "peaks", "program": {"id": v["id"], "lines": [a]}, "large": b,
                           "form": "compiled", "line": 1, "function": None, "pc": None, "rule": v["rule"],
                           "invariant": {"incomplete": "Completes", "frames_grow": "FramesConstant",
                                         "locals_grow": "LocalsConstant", "stack_grows": "StackConstant",
                                         "heap_grows": "HeapBounded"}.get(v["rule"], "?"),
                           "detail": {"small": v["small"], "large": v["large"]}})
    return violations, m, drifts


def run_c16(tier):
    check = common.Check("C16", tier)
    check.cov["rule"] = RULE_C16
    shapes = c16_programs()
    extra = []
    if tier == "thorough":
        # the test-suite and std programs with tail calls: static clause only
        tests, _, _, loose = corpus_tests()
        extra = [p for p in tests + loose if "^" in " ".join(p["lines"])] + corpus_std()[:1]
    violations, m, drifts = c16_pipeline(check, shapes, "c16", keep_large=200000 if tier == "thorough" else 20000)
    if extra:
        r = pipeline(check, extra, "c16x", static_only=True, tlc_procs=2, tlc_workers=6)
        violations += [v for v in r["violations"] if v["rule"] == "tailcall_height"]
        m["extra_static"] = r["m"]
    st = m["static"]["static"]
    check.cov["shapes"] = len(shapes)
    check.cov["shape_ids"] = [s[0] for s in shapes]
    check.cov["counts"] = {k: v for k, v in m.items() if k != "peaks"}
    check.cov["peaks"] = m["peaks"]
    check.cov["evaluations"] = st["items"] + (m.get("extra_static", {}).get("static", {}).get("items", 0))
    check.cov["distinct_nontrivial"] = st["distinct_nontrivial_analysed"]
    check.cov["tailcall_sites_checked"] = st["tailcall_sites"] + (m.get("extra_static", {}).get("static", {}).get("tailcall_sites", 0))
    check.cov["traces_validated_against_impl"] = m["traces_validated"]
    check.cov["model_drift"] = len(drifts)
    check.cov["drift_samples"] = drifts[:5]
    for s in shapes[:6]:
        check.sample({"shape": s[0], "program_at_N": s[1]})
    for d in drifts[:5]:
        print("  MODEL-DRIFT (not a violation): %s" % json.dumps(d)[:300])
    for v in violations:
        check.violation(dict(v, prop="C16"), name=v["kind"], key=None, what=describe(v))
    print("C16 %s: %d tail-recursive shapes x {N=20, 50N=1000}; %d functions analysed, %d TailCall sites at "
          "their exact heights; %d real traces validated (%d observations), drift=%d; violations=%d"
          % (tier, len(shapes), check.cov["evaluations"], check.cov["tailcall_sites_checked"],
             m["traces_validated"], m["observations"], len(drifts), len(violations)))
    # ... and space that the EXECUTOR (not the bytecode) can leak around a select: the runtime engine's select
    # scenarios under seeded schedules, monitor rule ParkedStackEmpty (a process parks in a select with an empty
    # operand stack: a stranded filter verdict or select result would grow a receive loop's stack by one cell
    # per iteration - seeded change C16-3)
    import runtime
    return runtime.run("C16", tier, check=check)


def run(prop, tier):
    if prop == "C07":
        return run_c07(tier)
    if prop == "C16":
        return run_c16(tier)
    raise common.ToolError("vmstack engine does not decide " + prop)


def replay(prop, path):
    """Re-run the stored program through the same pipeline: 1 + VIOLATION line if it still fails."""
    obj = json.load(open(path))
    check = common.Check(prop, "replay")
    prog = obj.get("program") or {}
    violations = []
    if obj.get("kind") == "peaks":
        violations, _, _ = c16_pipeline(check, [(prog["id"], prog["lines"][0], obj["large"])], "replay",
                                        keep_large=3000, static=False)
        violations = [v for v in violations if v["kind"] == "peaks"]
    elif "image" in obj:
        # a stored (possibly hand-edited) bytecode image: the static analysis alone
        sviol, _ = vmstack_check(check, [obj["image"]], "replay", procs=1, workers=4)
        violations = [{"kind": "static", "program": prog, "form": v["form"], "line": v["line"],
                       "function": v["fi"], "pc": v["pc"], "rule": v["rule"], "invariant": v["invariant"],
                       "detail": {k: v[k] for k in ("h", "l", "x", "op", "l0")}} for v in sviol]
    elif "group" in prog:
        gd, _ = run_tool_parallel("bcdump", [prog], jobs=1)
        sviol, _ = vmstack_check(check, [d for d in gd if d.get("status") == "ok"], "replay", procs=1, workers=4)
        violations = [{"kind": "static", "program": prog, "form": v["form"], "line": v["line"],
                       "function": v["fi"], "pc": v["pc"], "rule": v["rule"], "invariant": v["invariant"],
                       "detail": {k: v[k] for k in ("h", "l", "x", "op", "l0")}} for v in sviol]
    else:
        p = dict(prog, source="replay")
        r = pipeline(check, [p], "replay", merged=True, jobs=1, tlc_procs=1, tlc_workers=4)
        violations = r["violations"]
    if violations:
        for v in violations[:3]:
            print("  " + describe(v))
        print("VIOLATION property=%s replay=%s" % (prop, path))
        return 1
    print("replay: %s no longer violates %s" % (path, prop))
    return 0
