"""Runtime engine: decides C03, C04, C05, C15 (and serves C13 refs / C14 / C06 scenario runs).

1. TLC explores the mechanism model spec/Runtime.tla exhaustively for every scenario of the
   families (all interleavings of worker steps, environment steps and clock ticks, all slice
   lengths, all prefix visibilities) and checks the properties of spec/RuntimeProps.tla.
2. The REAL Environment/Workers run the same scenarios (rendered to Quiver) under seeded random
   schedules in the simulator; every atomic step is recorded.
3. spec/RuntimeObs.tla (property monitor, L1) judges the properties on the recorded executions:
   only these produce VIOLATION lines.
4. spec/RuntimeTrace.tla validates the recorded executions against the mechanism model (L2):
   a rejected trace is reported as model drift in the evidence, not as a violation.
"""
import itertools, json, os, re, sys, time, concurrent.futures as cf
import common
from common import Check, tlc, WORK, ToolError
import scn, families

PROP_RULES = {
    "C03": {"Confluent", "NoHang", "ScriptFollowed"},
    "C04": {"ExactlyOnce", "SenderFIFO", "Settled", "NoLostWakeup", "SpawnerGetsPid", "SpawnExactlyOnce"},
    "C05": {"SelectPriority", "EarliestAccepted", "MailboxPreserved", "TimeoutNotEarly", "AwaitYieldsResult",
            "AwaitResultNotDropped", "FilterIsVerdict", "SelectOpen"},
    "C15": {"NoWorkerCrash", "NoInternalError", "FailureContained", "AwaitersFail", "ResultStable"},
    "C13": {"RefsUnique"},
    "C16": {"ParkedStackEmpty"},
    "C14": {"UseOnlyByOwner", "NeverReachesBackend", "NoCloseWhileOwnerAlive", "ClosedExactlyOnceAtExit", "OwnerCanUse",
            "ContentPreserved", "ClosedAtExitNeverReported", "ClosedAtExitDeliveredToFinished"},
    "C06": {"Counted", "NoReachableFreed", "FreeList", "NoOrphan", "ContentStable", "ContentPreserved",
            "RefcountAssertion"},
}
MC_INVARIANTS = {
    "C03": ["NoInternalError", "NoLostWakeup", "SpawnerGetsPid"],
    "C04": ["ExactlyOnce", "Settled", "NoLostWakeup", "SpawnerGetsPid", "SpawnExactlyOnce"],
    "C05": ["SelectPriority", "EarliestAccepted", "MailboxPreserved", "TimeoutNotEarly", "AwaitYieldsResult",
            "AwaitResultNotDropped"],
    "C15": ["NoInternalError", "FailureContained", "AwaitersFail"],
    "C06": ["NoInternalError", "NoLostWakeup", "ExactlyOnce"],
    "C13": ["RefsUnique", "NoInternalError"],
    "C16": ["NoInternalError"],
    "C14": ["ClosedAtExit", "BackendCallsLegal", "OwnerKnown", "NoInternalError", "NoLostWakeup"],
}
# behaviours of the tree before the corresponding `fix:` commits (none once they are in)
CODE_DEFECTS = json.load(open(os.path.join(common.VERIF, "spec", "code_defects.json")))["defects"]


_JOB = itertools.count()


def write_cfg(path, invariants, properties=()):
    with open(path, "w") as f:
        f.write("SPECIFICATION Spec\nCONSTANTS\n  NW <- MC_NW\n  Scripts <- MC_Scripts\n  MaxTick <- MC_MaxTick\n"
                "  MaxPid <- MC_MaxPid\n  MaxFuel <- MC_MaxFuel\n  Placement <- MC_Placement\n  Defects <- MC_Defects\n  IOModes <- MC_IOModes\n  Lines <- MC_Lines\n"
                "CHECK_DEADLOCK FALSE\n")
        if invariants:
            f.write("INVARIANTS\n  " + " ".join(invariants) + "\n")
        if properties:
            f.write("PROPERTIES\n  " + " ".join(properties) + "\n")


def model_check(s, prop, workers=4, timeout=900):
    """Exhaustive TLC run of one scenario; returns (TlcResult, expected-or-None)."""
    # (unique per job: the select cases carry the same name for every worker count)
    tag = "%s_nw%s_%d_%d" % (s["name"], s.get("nw"), os.getpid(), next(_JOB))
    sfile = os.path.join(WORK, "scn_%s.json" % tag)
    efile = os.path.join(WORK, "exp_%s.json" % tag)
    json.dump(dict(s, defects=list(s.get("defects", []))), open(sfile, "w"))
    env = {"SCENARIO": sfile, "EXPECTED": efile}
    invs = list(MC_INVARIANTS[prop])
    props = ["ResultStable"] if prop == "C15" else []
    extra = None
    expected_outcome = None
    expected_results = None
    if prop in ("C03", "C06", "C14") and s.get("confluent"):
        # pass 1: one simulated behaviour fixes the expected canonical results
        cfg1 = os.path.join(WORK, "mc1_%s.cfg" % tag)
        write_cfg(cfg1, ["DumpExpected"])
        r1 = tlc("MC_Runtime", cfg1, env=env, workers=1, timeout=120, simulate="num=1", depth=400,
                 seed_=common.seed(), metadir=os.path.join(WORK, "tlc_" + tag + "_1"))
        if not os.path.exists(efile):
            raise ToolError("model of %s never becomes quiescent in simulation" % s["name"])
        invs += ["Confluent"] + (["NoHang"] if s.get("terminates") else [])
        try:
            ej = json.load(open(efile + ".json"))
            o = ej["outcome"]
            if o and o[0].get("ok"):
                expected_outcome = o[0]["v"]
            expected_results = ej.get("results")
            os.remove(efile + ".json")
        except (OSError, ValueError, KeyError):
            pass
    cfg = os.path.join(WORK, "mc_%s.cfg" % tag)
    write_cfg(cfg, invs, props)
    res = tlc("MC_Runtime", cfg, env=env, workers=workers, timeout=timeout,
              metadir=os.path.join(WORK, "tlc_" + tag), coverage=True)
    for f in (sfile, efile, cfg):
        if os.path.exists(f):
            os.remove(f)
    res.expected_outcome = expected_outcome
    res.expected_results = expected_results
    return res


def apalache_heap(check):
    """spec/HeapInd.tla: the accounting invariant is INDUCTIVE (behaviours of any length, unbounded counters),
    discharged by Apalache; TLC ties HeapInd to Heap.tla through the invariant IndInvOnHeap.  A failure here is
    a statement about the design (MODEL-COUNTEREXAMPLE), never a VIOLATION of the code."""
    import subprocess, shutil
    exe = shutil.which("apalache-mc")
    out = {}
    if not exe:
        check.cov["apalache"] = "apalache-mc not found"
        return
    obligations = [("Init=>IndInv", ["--init=Init", "--inv=IndInv", "--length=0"]),
                   ("IndInv/\\Next=>IndInv'", ["--init=IndInit", "--inv=IndInv", "--length=1"]),
                   ("IndInv=>C06 clauses", ["--init=IndInit", "--inv=Props", "--length=0"])]
    od = os.path.join(WORK, "apalache_%d" % os.getpid())
    for name, args in obligations:
        t0 = time.time()
        try:
            p = subprocess.run([exe, "check"] + args + ["--out-dir=" + od, "HeapInd.tla"], cwd=common.SPEC,
                               stdout=subprocess.PIPE, stderr=subprocess.STDOUT, text=True, timeout=900)
            verdict = "NoError" if "The outcome is: NoError" in p.stdout else ("Error" if "The outcome is: Error" in p.stdout
                                                                               else "tool problem (exit %d)" % p.returncode)
        except subprocess.TimeoutExpired:
            verdict = "timeout"
        out[name] = {"outcome": verdict, "wall_s": round(time.time() - t0, 1)}
        if verdict == "Error":
            print("MODEL-COUNTEREXAMPLE spec=HeapInd.tla obligation=%s (Apalache)" % name)
            check.cov.setdefault("model_counterexamples", []).append(("HeapInd", name))
    shutil.rmtree(od, ignore_errors=True)
    check.cov["apalache_inductive_invariant(HeapInd.tla)"] = out


def batch_scripts(scenarios):
    """One script table for a batch of scenarios; returns (table, {name: entry index})."""
    table, entry = [], {}
    for s in scenarios:
        off = len(table)
        entry[s["name"]] = off + 1
        for ops in s["scripts"]:
            table.append([dict(op, script=op["script"] + off) if op["op"] == "spawn" else op for op in ops])
    return table, entry


QUANTA = [1, 2, 3, 5, 8, 13, 50, 1000]


def make_requests(scenarios, entry, nsched, seed0, nws=None, keep=10, rare_max=6):
    reqs = []
    for s in scenarios:
        src = scn.render(s)
        lines = scn.render_lines(s) if s.get("lines") else None
        for i in range(nsched):
            nw = s["nw"] if nws is None else nws[(i + len(s["name"])) % len(nws)]
            m = {"scenario": s["name"], "entry": entry[s["name"]], "confluent": bool(s.get("confluent")),
                 "terminates": bool(s.get("terminates"))}
            if s.get("expected_outcome") is not None:
                m["expected_outcome"] = s["expected_outcome"]
            if s.get("expected_results") is not None:
                m["expected_results"] = s["expected_results"]
            if lines:
                # a REPL session: the entry scripts of the lines (batch numbering), and the host submits a line
                # as soon as the previous result is in (schedule 0: only at quiescence)
                m["lines"] = [entry[s["name"]] + k - 1 for k in s["lines"]]
                m["entry"] = m["lines"][0]
            driver = "default" if i == 0 else ("pct" if i % 3 == 2 else "random")
            reqs.append({"id": "%s#%d" % (s["name"], i), "group": s["name"], "keep": keep, "rare_max": rare_max,
                         "src": src, "nw": nw, "driver": driver,
                         "seed": seed0 * 1000003 + i * 7919 + len(reqs), "quanta": QUANTA if i else [1000],
                         "max_steps": 6000, "meta": m, "io": bool(s.get("io")), "pct_changes": i % 4,
                         "deferred_io": bool(s.get("deferred_io"))})
            if lines:
                reqs[-1]["lines"] = lines
                reqs[-1]["early_lines"] = i > 0
    return reqs


def run_sim(reqs, tracefile):
    p = common.run_bin("sim", [tracefile], stdin="\n".join(json.dumps(r) for r in reqs) + "\n", timeout=1200)
    if p.returncode != 0:
        raise ToolError("sim failed: " + p.stderr[-800:])
    return [json.loads(x) for x in p.stdout.splitlines() if x.startswith("{")]


VIOL_RE = re.compile(r'^"VIOL\|([^|]*)\|(\d+)\|(C\d+)\|(\w+)\|(.*)"$', re.M)


def monitor(tracefile, scriptsfile):
    res = tlc("RuntimeObs", "RuntimeObs.cfg", env={"TRACE": tracefile, "SCRIPTS": scriptsfile}, workers=1,
              timeout=1800, metadir=os.path.join(WORK, "tlc_obs_%d" % os.getpid()))
    if "INCOMPLETE" in res.out or (not res.ok and not VIOL_RE.search(res.out)):
        raise ToolError("the property monitor did not consume the trace: " + res.out[-1500:])
    viols = [{"run": m.group(1), "record": int(m.group(2)), "prop": m.group(3), "rule": m.group(4),
              "detail": m.group(5)[:600]} for m in VIOL_RE.finditer(res.out)]
    return res, viols


def validate(tracefile, scriptsfile, defects):
    """L2 trace validation.  Returns (TlcResult, index of first unexplained record or None)."""
    res = tlc("RuntimeTrace", "RuntimeTrace.cfg", env={"TRACE": tracefile, "SCRIPTS": scriptsfile}, workers=1,
              timeout=1800, dfs=True, metadir=os.path.join(WORK, "tlc_trace_%d" % os.getpid()))
    m = re.search(r'<<"REJECTED", (\d+), (\d+)>>', res.out)
    if m:
        return res, int(m.group(1))
    if res.violated or res.eval_error:
        return res, -1
    return res, None


def split_traces(tracefile):
    """Split a batch trace file into runs: list of (id, [lines])."""
    runs, cur = [], None
    with open(tracefile) as f:
        for line in f:
            if line.startswith('{"id"') or '"k":"init"' in line[:200]:
                r = json.loads(line)
                if r.get("k") == "init":
                    cur = (r["id"], [line])
                    runs.append(cur)
                    continue
            cur[1].append(line)
    return runs


def select_scenarios(prop, tier):
    nws = (2,) if tier == "quick" else (1, 2, 3)
    fams = [s for s in families.all_families(nws) if prop in s["props"]]
    if prop in ("C04", "C05", "C06", "C15"):
        # seeded random well-typed systems (no promise about termination or confluence)
        k = 25 if tier == "quick" else 160
        fams += [families.random_scenario(common.seed() * 1000 + i, 2) for i in range(k)]
    if prop == "C14":
        # seeded random resource systems (open / use / close / send / receive handles; refused uses; failures)
        fams += [families.random_resource_scenario(common.seed() * 1000 + i, 2) for i in range(20 if tier == "quick" else 200)]
    if os.environ.get("RT_ONLY"):       # development aid: only the scenarios whose name contains the given text
        return [s for s in fams if os.environ["RT_ONLY"] in s["name"]]
    if prop == "C05":
        # seeded sample of the cross product (source lists of length <= 3) x (mailbox pre-loads) x (late arrivals)
        fams += families.select_product(common.seed(), 30 if tier == "quick" else 120, 2)
    return fams


def run(prop, tier, check=None):
    merged = check is not None
    if check is None:
        check = Check(prop, tier)
    scenarios = select_scenarios(prop, tier)
    seed = common.seed()
    # ---- 1. exhaustive model checking
    t0 = time.time()
    mc_fail = []
    mc_scenarios = [s for s in scenarios if not s.get("no_mc") and (tier != "quick" or not s.get("large"))]
    check.cov["model_checked_scenarios"] = [s["name"] for s in mc_scenarios]
    # thorough: at most 15 min per scenario and 45 min for starting new ones (what does not fit is listed under
    # model_check_timeouts and is still run on the real code and monitored below)
    budget_end = t0 + (900 if tier == "quick" else 2700)

    def mc_job(s):
        if time.time() > budget_end:
            raise ToolError("timeout: model-checking budget of the tier is used up")
        return model_check(dict(s, defects=[]), prop, 3, 240 if tier == "quick" else 900)
    mc_scenarios.sort(key=lambda s: (bool(s.get("large")), s["name"]))
    with cf.ThreadPoolExecutor(max_workers=5) as ex:
        futs = {ex.submit(mc_job, s): s for s in mc_scenarios}
        for fut in cf.as_completed(futs):
            s = futs[fut]
            try:
                res = fut.result()
            except ToolError as e:
                if "timeout" not in str(e):
                    raise
                # too large for this tier's budget: the scenario is still run on the real code below
                check.cov.setdefault("model_check_timeouts", []).append(s["name"])
                continue
            check.add_tlc("mc:" + s["name"] + ("" if re.search(r"_w\d+$", s["name"]) else "_w%s" % s.get("nw")), res)
            if getattr(res, "expected_outcome", None) is not None:
                s["expected_outcome"] = res.expected_outcome
            if prop == "C06" and getattr(res, "expected_results", None) and not s.get("has_refs"):
                s["expected_results"] = res.expected_results
            if not res.ok:
                mc_fail.append((s["name"], res.violated, res.out[-3000:]))
    check.cov["model_check_wall_s"] = round(time.time() - t0, 1)
    check.cov["scenarios"] = [s["name"] for s in scenarios]
    if mc_fail:
        # a counter-example on the model is a candidate defect, not a verdict about the code
        check.cov["model_counterexamples"] = [(n, v) for n, v, _ in mc_fail]
        for n, v, out in mc_fail:
            print("MODEL-COUNTEREXAMPLE scenario=%s invariants=%s (replayed on the real code below)" % (n, v))
    if prop == "C06":
        # the accounting design itself: spec/Heap.tla, exhaustive at small scope
        cfg = os.path.join(WORK, "MC_Heap_%d.cfg" % os.getpid())
        txt = open(os.path.join(common.SPEC, "MC_Heap.cfg")).read()
        open(cfg, "w").write(re.sub(r"MaxOps = \d+", "MaxOps = %d" % (10 if tier == "quick" else 12), txt))
        hres = tlc("Heap", cfg, workers=12, timeout=3000, xmx="12g")
        check.add_tlc("mc:Heap", hres)
        os.remove(cfg)
        if not hres.ok:
            print("MODEL-COUNTEREXAMPLE spec=Heap.tla invariants=%s" % hres.violated)
            check.cov.setdefault("model_counterexamples", []).append(("Heap", hres.violated))
        apalache_heap(check)
    # ---- 2. the real code under random schedules
    table, entry = batch_scripts(scenarios)
    scriptsfile = os.path.join(WORK, "scripts_%s_%d.json" % (prop, os.getpid()))      # (per process: checks may run side by side)
    json.dump({"scripts": table, "defects": CODE_DEFECTS}, open(scriptsfile, "w"))
    nsched = 150 if tier == "quick" else 900
    nws = [1, 2, 3, 4, 2, 3]
    reqs = make_requests(scenarios, entry, nsched, seed, nws, keep=8 if tier == "quick" else 40,
                         rare_max=6 if tier == "quick" else 20)
    if prop == "C06":
        for i, lines in enumerate(families.HEAP_SESSIONS):
            for k in range(4 if tier == "quick" else 40):
                reqs.append({"id": "session%d#%d" % (i, k), "group": "session%d" % i, "keep": 4, "rare_max": 4,
                             "lines": lines, "nw": nws[k % len(nws)], "driver": "random" if k else "default",
                             "seed": seed * 7907 + i * 101 + k, "quanta": QUANTA if k else [1000], "max_steps": 6000,
                             "meta": {"scenario": "session%d" % i, "entry": 0, "confluent": False, "terminates": False}})
    if prop == "C06":
        for i, src in enumerate(families.HEAP_PROGRAMS):
            for k in range(8 if tier == "quick" else 60):
                reqs.append({"id": "heapprog%d#%d" % (i, k), "group": "heapprog%d" % i, "keep": 6, "rare_max": 4,
                             "lines": [src], "nw": nws[k % len(nws)], "driver": ("pct" if k % 3 == 2 else "random") if k else "default",
                             "seed": seed * 7907 + i * 131 + k, "quanta": QUANTA if k else [1000], "max_steps": 6000, "pct_changes": k % 4,
                             "meta": {"scenario": "heapprog%d" % i, "entry": 0, "confluent": False, "terminates": False,
                                      "expected_outcome": families.HEAP_PROGRAMS_EXPECT}})
    tracefile = os.path.join(WORK, "trace_%s_%d.ndjson" % (prop, os.getpid()))
    t1 = time.time()
    summaries = run_sim(reqs, tracefile)
    check.cov["sim_wall_s"] = round(time.time() - t1, 1)
    check.cov["executions_run"] = len(summaries)
    # an execution whose end state is rare within its scenario is always kept for judgement
    check.cov["executions_end_in_crash_or_error"] = sum(1 for s in summaries if s["crashes"])
    summaries_all = summaries
    summaries = [s for s in summaries if s.get("kept", True)]
    check.cov["traces_validated_against_impl"] = check.cov.get("traces_validated_against_impl", 0) * merged + len(summaries)
    check.cov["evaluations"] = check.cov.get("evaluations", 0) * merged + len(summaries_all)
    check.cov["distinct_nontrivial"] = (check.cov.get("distinct_nontrivial", 0) * merged +
                                        len({json.dumps(s["schedule"]) for s in summaries if s["steps"] > 5}))
    check.cov["rule"] = (check.cov.get("rule", "") + " | ") * merged + ("one evaluation = one recorded execution of the real Environment/Workers on a family scenario under a "
                         "seeded schedule (worker count 1-4, slice length from %s, random prefix visibility and tick placement); "
                         "distinct = distinct schedules of more than 5 atomic steps" % QUANTA)
    for s in summaries[:3]:
        check.sample({"run": s["id"], "outcome": s["outcomes"], "steps": s["steps"], "schedule_prefix": s["schedule"][:12]})
    # ---- 3. property monitor (L1): the only source of violations
    res, viols = monitor(tracefile, scriptsfile)
    check.add_tlc("monitor:RuntimeObs", res)
    for v in viols:
        if v["rule"] == "NoWorkerCrash" and re.search(r"refcount invariant|use-after-free|release underflow|freed heap slot", v["detail"]):
            v["also"] = "C06"
    mine = [v for v in viols if v["rule"] in PROP_RULES[prop] or v["prop"] == prop or v.get("also") == prop]
    check.cov["monitor_violations_other_properties"] = len(viols) - len(mine)
    by_id = {r["id"]: r for r in reqs}
    sched = {s["id"]: s["schedule"] for s in summaries}
    reported = set()
    for v in mine:
        key = "%s:%s" % (re.sub(r"_w\d+$", "", v["run"].split("#")[0]), v["rule"])
        if v["rule"] == "ClosedAtExitNeverReported":
            # the pinned finding, identified by its history (the owner's completion never reached the environment),
            # in whatever scenario it occurs
            key = "res_owner_unawaited:ClosedExactlyOnceAtExit"
        if v["rule"] == "ClosedAtExitDeliveredToFinished":
            key = "res_delivered_to_finished:ClosedExactlyOnceAtExit"
        if key in reported:
            continue
        reported.add(key)
        req = by_id.get(v["run"], {})
        check.violation({"property": prop, "rule": v["rule"], "detail": v["detail"], "run": v["run"],
                         "record": v["record"], "src": req.get("src"), "lines": req.get("lines"), "nw": req.get("nw"),
                         "schedule": sched.get(v["run"]), "scenario": req.get("meta", {}).get("scenario")},
                        name=v["rule"], key=key,
                        what="%s violated in run %s at record %d: %s" % (v["rule"], v["run"], v["record"], v["detail"][:300]))
    # ---- 4. trace validation against the mechanism model (L2): drift is reported, not alarmed
    l2file = tracefile
    no_l2 = {s["name"] for s in scenarios if s.get("no_l2")}
    check.cov["scenarios_judged_by_the_monitor_only"] = sorted(no_l2)
    if no_l2 or any(r["meta"]["entry"] == 0 for r in reqs):
        # unscripted REPL sessions, and scenarios that use a mechanism the model does not describe (no_l2: effects
        # issued from inside a filter body), have no mechanism-model counterpart: only the monitor judges them
        l2file = tracefile + ".scripted"
        keep = True
        with open(tracefile) as fi, open(l2file, "w") as fo:
            for line in fi:
                if '"k":"init"' in line:
                    m_ = json.loads(line)["meta"]
                    keep = m_["entry"] != 0 and m_.get("scenario") not in no_l2
                if keep:
                    fo.write(line)
    if os.path.getsize(l2file) == 0:
        res2, bad = None, None          # nothing for the mechanism model to explain (monitor-only scenarios)
    else:
        res2, bad = validate(l2file, scriptsfile, CODE_DEFECTS)
        check.add_tlc("trace:RuntimeTrace", res2)
    if bad is not None:
        check.cov["model_drift"] = 1
        check.cov["model_drift_at_record"] = bad
        print("MODEL-DRIFT: a recorded execution is not a behaviour of spec/Runtime.tla (first unexplained record %s of %s)" % (bad, l2file))
    # scratch files are per process; they are kept only when there is something to look at
    if bad is None and not check.violations:
        for f in {tracefile, l2file, scriptsfile}:
            if os.path.exists(f):
                os.remove(f)
    check.assumptions += ["atomicity of Worker::step / Environment::handle_event (Lipton reduction, DESIGN 1)",
                          "scenario scripts are rendered faithfully to Quiver (lib/scn.py); checked by ScriptFollowed and by L2 validation"]
    return check.finish()


def replay(prop, path):
    r = json.load(open(path))
    s = next((x for x in families.all_families((1, 2, 3, 4)) if x["name"] == r.get("scenario")), None)
    if s is None and r.get("lines") and str(r.get("scenario", "")).startswith(("heapprog", "session")):
        # an unscripted session / program: the stored lines under the stored schedule, judged by the state-based rules
        meta_ = {"scenario": r["scenario"], "entry": 0, "confluent": False, "terminates": False}
        if r["scenario"].startswith("heapprog"):
            meta_["expected_outcome"] = families.HEAP_PROGRAMS_EXPECT
        scriptsfile = os.path.join(WORK, "scripts_replay_%d.json" % os.getpid())
        json.dump({"scripts": [], "defects": CODE_DEFECTS}, open(scriptsfile, "w"))
        req = {"id": r["run"], "lines": r["lines"], "nw": r["nw"], "driver": "replay", "schedule": r["schedule"],
               "quanta": [1000], "meta": meta_}
        tracefile = os.path.join(WORK, "trace_replay_%d.ndjson" % os.getpid())
        run_sim([req], tracefile)
        res, viols = monitor(tracefile, scriptsfile)
        for f in (tracefile, scriptsfile):
            if os.path.exists(f):
                os.remove(f)
        if any(v["rule"] == r["rule"] for v in viols):
            print("VIOLATION property=%s replay=%s" % (prop, path))
            return 1
        print("replay no longer violates", r["rule"])
        return 0
    if s is None:
        print("unknown scenario in replay file")
        return 2
    table, entry = batch_scripts([s])
    scriptsfile = os.path.join(WORK, "scripts_replay_%d.json" % os.getpid())
    json.dump({"scripts": table, "defects": CODE_DEFECTS}, open(scriptsfile, "w"))
    req = {"id": r["run"], "src": r["src"], "nw": r["nw"], "driver": "replay", "schedule": r["schedule"],
           "quanta": [1000], "meta": {"scenario": s["name"], "entry": 1, "confluent": False,
                                      "terminates": bool(s.get("terminates"))}}
    if r.get("lines"):
        req["lines"] = r["lines"]
        req["meta"]["lines"] = list(s["lines"])
        req["meta"]["entry"] = s["lines"][0]
    tracefile = os.path.join(WORK, "trace_replay_%d.ndjson" % os.getpid())
    run_sim([req], tracefile)
    res, viols = monitor(tracefile, scriptsfile)
    mine = [v for v in viols if v["rule"] == r["rule"]]
    for f in (tracefile, scriptsfile):
        if os.path.exists(f):
            os.remove(f)
    if mine:
        print("VIOLATION property=%s replay=%s" % (prop, path))
        return 1
    print("replay no longer violates", r["rule"])
    return 0
