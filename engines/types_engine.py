"""C09 / C08 - the type-system engine.

TLC is the oracle at both ends (spec/Types.tla = type semantics by bounded value sets):

C09  1. spec/MC_Types.tla (invariant Emit)  - TLC ENUMERATES every closed, contractive type graph with
        <= 3 nodes over 2 tuple names / 2 labels (BFS) and prints, per pair / triple of roots, the
        graph and the specification's verdicts Contained / Overlap at depth 3 with witnesses;
     2. a seeded sample of larger SHAPES (recursive families and random terms, each with two
        mutants -> triples) drawn by this file from a grammar - only shapes, no verdicts;
     3. harness bin `typesreplay`            - builds every graph in a fresh quiver_core Program via
        register_tuple / register_type and records is_compatible / types_overlap for every ordered
        pair of roots, `'a & 'b` (intersect_types) and the type the compiler gives the value after
        a failed `='b` branch (compute_complement), exported back as graphs;
     4. spec/TypesTrace.tla                  - TLC recomputes the value sets and judges REFL, SOUND
        (is_compatible => Contained), TRANS, OVER (Overlap => types_overlap), INTER, COMPL; every
        mismatch carries the specification's witness value;
     5. findings are confirmed END-TO-END by a rendered Quiver program through common.qrun.
C08  1. spec/MC_Types.tla (invariant Emit8) - TLC enumerates (pattern type T, value v of depth <= 2)
        with the verdicts must / may / sc (static type of the expression contained in T);
     2. this file renders each case for the pattern forms `='t`, `=('t)x`, typed tuple pattern,
        partial pattern as `f = #(S | Zq) { | =<pattern> => Ok | No }, <value> f` and runs it
        (i) directly (qrun), (ii) tree-shaken (harness bin `typesrun`: the `quiv compile` + `quiv
        run` path in-process), (iii) as the last line of a session that merged k in {1,2} other
        generated programs first;
     3. spec/TypesValTrace.tla               - TLC judges SAME / ACC / MEM.

Python only moves data: it renders, runs, and routes mismatches to known-finding keys; it never
computes a verdict.  Environment: TYPES_SAMPLE (number of sampled triples), TYPES_VMOD / TYPES_CMOD
(residue-class sampling of the 3- / 4-node graphs), TYPES_VCASES (cap on C08 cases), TYPES_DUMP=1
(write every routed mismatch to work/types/mismatches.json).  Self-test of the judges (answers of
the real code corrupted after the replay): engines/types_selftest.py.
"""
import collections
import json
import os
import random
import subprocess
import time

import common

WORKD = os.path.join(common.WORK, "types")
CASE_PREFIX = '<<"CASE", '
VCASE_PREFIX = '<<"VCASE", '
MISMATCH_PREFIX = '<<"MISMATCH", '
STAT_PREFIX = '<<"STAT", '

RULE_C09 = ("for every enumerated / sampled pair and triple of closed, contractive type graphs: "
            "is_compatible(A,A); is_compatible(A,B) => Vals_3(A) subset Vals_3(B) (else the spec's witness "
            "in Vals(A)\\Vals(B)); is_compatible(A,B) /\\ is_compatible(B,C) => is_compatible(A,C); "
            "Vals_3(A) cap Vals_3(B) # {} => types_overlap(A = value type, B = pattern type) (witness); "
            "Vals(A) cap Vals(B) subset Vals('a & 'b); Vals(A)\\Vals(B) subset Vals(type of the value after "
            "a failed ='b branch).  Judged by TLC (TypesTrace.tla, invariant Conforms) on the answers "
            "of the real code (typesreplay); send side of processes / receive of callables kept equal.  "
            "Plus, end to end: compiled programs whose branch conditions test one value several times (all pairs "
            "of non-trivial subsets of four tags); the value reaching each branch must inhabit the type the compiler "
            "narrowed it to (TLC, Soundness.tla).")
RULE_C08 = ("for every enumerated (pattern type T, value v, pattern form) and configuration in {direct, "
            "tree-shaken, merged after 1 / 2 other programs}: the verdict is the same in all "
            "configurations; accepted => v structurally inhabits T; every value of the static type "
            "of the expression inhabits T => accepted.  Judged by TLC (TypesValTrace.tla).")


# ---------------------------------------------------------------------------
# plumbing
# ---------------------------------------------------------------------------
def tla_json(line, prefix):
    """<<"TAG", "escaped json">>  ->  object"""
    return json.loads(json.loads(line[len(prefix):-2]))


def prints_of(res, prefix):
    return [tla_json(p, prefix) for p in res.prints if p.startswith(prefix)]


def write_cfg(name, invariant, max_nodes, d=3, mod=1, rem=0):
    os.makedirs(WORKD, exist_ok=True)
    path = os.path.join(WORKD, name)
    with open(path, "w") as f:
        f.write("SPECIFICATION Spec\nCHECK_DEADLOCK FALSE\nCONSTANTS\n  MaxNodes = %d\n  D = %d\n"
                "  SampleMod = %d\n  SampleRem = %d\nINVARIANTS\n  %s\n" % (max_nodes, d, mod, rem, invariant))
    return path


def run_stream_bin(name, lines, args=()):
    """Feed ndjson lines to a harness bin that answers one line per input line.  If the code under
    test kills the process (stack overflow), the case is recorded as a crash and the run resumes
    after it.  Returns (answers aligned with lines: dict or None, crashed indices)."""
    common.build_harness()
    path = os.path.join(common.BIN, name)
    out = [None] * len(lines)
    crashed = []
    pos = 0
    while pos < len(lines):
        p = subprocess.run([path] + list(args), input="".join(lines[pos:]), stdout=subprocess.PIPE,
                           stderr=subprocess.PIPE, text=True, timeout=900)
        got = [l for l in p.stdout.splitlines() if l.startswith("{")]
        for k, l in enumerate(got):
            out[pos + k] = json.loads(l)
        pos += len(got)
        if pos < len(lines):
            if p.returncode == 0:
                raise common.ToolError("%s stopped early without an error" % name)
            crashed.append((pos, p.stderr.strip().splitlines()[-1:] or ["died"]))
            pos += 1
    return out, crashed


# ---------------------------------------------------------------------------
# graphs: rendering to Quiver source, census, facing pairs
# ---------------------------------------------------------------------------
class Unrenderable(Exception):
    pass


def kids(g, n):
    t = g["types"][n - 1]
    k = t["k"]
    if k == "tup":
        return [f["t"] for f in g["tuples"][t["t"] - 1]["fs"]]
    if k == "par":
        return [f["t"] for f in t["fs"]]
    if k == "uni":
        return list(t["ms"])
    if k == "fn":
        return [t["p"], t["r"], t["rc"]]
    if k == "proc":
        return [t["s"], t["r"]]
    return []


def kinds_below(g, n, seen=None):
    seen = set() if seen is None else seen
    if n in seen:
        return set()
    seen.add(n)
    out = {g["types"][n - 1]["k"]}
    for c in kids(g, n):
        out |= kinds_below(g, c, seen)
    return out


def render_type(g, n, b=0, top=True):
    """Quiver type expression for node n under b enclosing boundaries (for `^k`)."""
    t = g["types"][n - 1]
    k = t["k"]
    if k == "int":
        return "'int"
    if k == "bin":
        return "'bin"
    if k == "ref":
        return "'ref"
    if k == "res":
        return "\\" + t["r"]
    if k == "cyc":
        tgt = b - t["n"]
        if tgt < 0:
            raise Unrenderable("dangling cycle")
        return "^" if tgt == 0 else "^%d" % tgt
    if k in ("tup", "par"):
        info = g["tuples"][t["t"] - 1] if k == "tup" else t
        fs = ", ".join((f["l"] + ": " if f["l"] else "") + render_type(g, f["t"], b, False) for f in info["fs"])
        if k == "tup":
            if not info["fs"]:
                return info["name"] or "[]"
            return "%s[%s]" % (info["name"], fs)
        return "%s(%s)" % (info["name"], fs)
    if k == "uni":
        if len(t["ms"]) < 2:
            raise Unrenderable("union with fewer than two members")
        s = " | ".join(render_type(g, m, b + 1, False) for m in t["ms"])
        return s if top else "(" + s + ")"
    if k == "fn":
        if g["types"][t["rc"] - 1] != {"k": "uni", "ms": []}:
            raise Unrenderable("receive component")
        s = "#%s -> %s" % (render_type(g, t["p"], b + 1, False), render_type(g, t["r"], b + 1, False))
        return s if top else "(" + s + ")"
    if k == "proc":
        return "(@%s -> %s)" % (render_type(g, t["s"], b, False), render_type(g, t["r"], b, False))
    raise Unrenderable(k)


def graph_esc(g, n):
    """boundaries above node n that its Cycle nodes reach (0 = closed)"""
    t = g["types"][n - 1]
    if t["k"] == "cyc":
        return t["n"]
    m = max([graph_esc(g, c) for c in kids(g, n)] or [0])
    return max(m - 1, 0) if t["k"] in ("uni", "fn") else m


def facing(g, a, b):
    """Tags of the constructor pairs that face each other when the relation walks (self a, pattern b):
    only used to ROUTE a TLC-found mismatch to a known-finding key, never to judge."""
    tags = set()
    seen = set()

    def walk(x, y):
        if (x, y) in seen:
            return
        seen.add((x, y))
        if x == y:
            # one registry id, two contexts: the relation / narrowing treat them as the same type
            if graph_esc(g, x) > 0:
                tags.add("same-open-id")
            return
        tx, ty = g["types"][x - 1], g["types"][y - 1]
        kx, ky = tx["k"], ty["k"]
        if kx == "cyc" or ky == "cyc":
            if kx != ky:
                tags.add("cyc|other")
            return
        if kx == "uni":
            for m in tx["ms"]:
                walk(m, y)
            return
        if ky == "uni":
            for m in ty["ms"]:
                walk(x, m)
            return
        if kx == "tup" and ky == "tup":
            ix, iy = g["tuples"][tx["t"] - 1], g["tuples"][ty["t"] - 1]
            if ix["name"] == iy["name"] and len(ix["fs"]) == len(iy["fs"]):
                if [f["l"] for f in ix["fs"]] != [f["l"] for f in iy["fs"]]:
                    tags.add("tup~tup:labels-differ")       # same name and arity, other labels: different types
                for fx, fy in zip(ix["fs"], iy["fs"]):
                    walk(fx["t"], fy["t"])
        elif kx in ("tup", "par") and ky in ("tup", "par"):
            fx = g["tuples"][tx["t"] - 1]["fs"] if kx == "tup" else tx["fs"]
            fy = g["tuples"][ty["t"] - 1]["fs"] if ky == "tup" else ty["fs"]
            if kx == "par" and ky == "tup":
                tags.add("par<tup")
            if kx == "tup" and ky == "par":
                tags.add("tup~par")
            if kx == "par" and ky == "par":
                tags.add("par~par")
                if tx["name"] == "" and ty["name"] != "":
                    tags.add("par~par:name-right-only")
            for p in fx:
                for q in fy:
                    if p["l"] and p["l"] == q["l"]:
                        walk(p["t"], q["t"])
        elif kx == "fn" and ky == "fn":
            tags.add("fn~fn")
            walk(ty["p"], tx["p"])
            walk(tx["r"], ty["r"])
        elif kx == "proc" and ky == "proc":
            tags.add("proc~proc")
            walk(tx["s"], ty["s"])
            walk(tx["r"], ty["r"])

    walk(a, b)
    return tags


K_PT = "overlap:partial-vs-tuple"
K_PP = "overlap:partial-vs-partial"
K_NAME = "compat:partial-name-right-only"
K_CYC = "compat:cycle-on-value-side"
K_DIV = "relation:callable-cycle-diverges"
K_IDENT = "identity:cycle-bearing-node-shared"
K_WIDE = "narrow:complement-of-widened-intersection"
K_SHIFT = "narrow:cycle-depth-shift"
K_LABEL = "narrow:tuple-difference-ignores-labels"


def has_nested_open_union(g, a):
    """a union strictly below root a with a cycle-bearing member (its boundary carries Cycle depths)"""
    for n in reach_ids(g, a):
        t = g["types"][n - 1]
        if n != a and t["k"] == "uni" and any(graph_esc(g, m) > 0 for m in t["ms"]):
            return True
    return False

PINNED = {
    # key -> (types, tuples, roots): the minimal pair of each finding, replayed on every run
    K_PT: ([{"k": "uni", "ms": []}, {"k": "int"}, {"k": "par", "name": "", "fs": [{"l": "x", "t": 2}]},
            {"k": "tup", "t": 1}], [{"name": "A", "fs": [{"l": "x", "t": 2}]}], [3, 4]),
    K_PP: ([{"k": "uni", "ms": []}, {"k": "int"}, {"k": "par", "name": "", "fs": [{"l": "x", "t": 2}]},
            {"k": "par", "name": "", "fs": [{"l": "y", "t": 2}]}], [], [3, 4]),
    K_NAME: ([{"k": "uni", "ms": []}, {"k": "int"}, {"k": "par", "name": "", "fs": [{"l": "x", "t": 2}]},
              {"k": "par", "name": "A", "fs": [{"l": "x", "t": 2}]}], [], [3, 4]),
    K_CYC: ([{"k": "uni", "ms": []}, {"k": "int"}, {"k": "cyc", "n": 1}, {"k": "tup", "t": 1}, {"k": "tup", "t": 2},
             {"k": "uni", "ms": [4, 5]}, {"k": "par", "name": "", "fs": [{"l": "y", "t": 2}]}],
            [{"name": "A", "fs": [{"l": "y", "t": 2}]}, {"name": "B", "fs": [{"l": "y", "t": 3}]}], [6, 7]),
    K_DIV: ([{"k": "uni", "ms": []}, {"k": "cyc", "n": 1}, {"k": "fn", "p": 2, "r": 2, "rc": 1},
             {"k": "fn", "p": 3, "r": 2, "rc": 1}], [], [3, 4]),
    K_IDENT: ([{"k": "uni", "ms": []}, {"k": "int"}, {"k": "bin"}, {"k": "cyc", "n": 1}, {"k": "tup", "t": 1},
               {"k": "tup", "t": 2}, {"k": "tup", "t": 3}, {"k": "uni", "ms": [5, 7]}, {"k": "uni", "ms": [6, 7]}],
              [{"name": "A", "fs": [{"l": "", "t": 2}]}, {"name": "A", "fs": [{"l": "", "t": 3}]},
               {"name": "B", "fs": [{"l": "", "t": 4}]}], [8, 9]),
    K_LABEL: ([{"k": "uni", "ms": []}, {"k": "bin"}, {"k": "tup", "t": 1}, {"k": "tup", "t": 2}, {"k": "uni", "ms": [2, 3]}],
              [{"name": "", "fs": [{"l": "", "t": 2}]}, {"name": "", "fs": [{"l": "y", "t": 2}]}], [5, 4]),
    K_WIDE: ([{"k": "uni", "ms": []}, {"k": "int"}, {"k": "bin"}, {"k": "ref"}, {"k": "tup", "t": 1},
              {"k": "tup", "t": 2}, {"k": "uni", "ms": [2, 3]}, {"k": "fn", "p": 2, "r": 5, "rc": 1},
              {"k": "fn", "p": 4, "r": 6, "rc": 1}, {"k": "fn", "p": 7, "r": 5, "rc": 1},
              {"k": "uni", "ms": [8, 9]}],
             [{"name": "A", "fs": []}, {"name": "", "fs": []}], [11, 10]),
    K_SHIFT: ([{"k": "uni", "ms": []}, {"k": "int"}, {"k": "bin"}, {"k": "cyc", "n": 1}, {"k": "cyc", "n": 2},
               {"k": "tup", "t": 1}, {"k": "tup", "t": 2}, {"k": "tup", "t": 3}, {"k": "uni", "ms": [7, 6]},
               {"k": "uni", "ms": [8, 6]}, {"k": "tup", "t": 4}, {"k": "tup", "t": 5}, {"k": "tup", "t": 6},
               {"k": "uni", "ms": [2, 11, 13]}, {"k": "uni", "ms": [3, 12, 13]}],
              [{"name": "Nil", "fs": []},
               {"name": "A", "fs": [{"l": "", "t": 5}, {"l": "", "t": 4}]},
               {"name": "Cons", "fs": [{"l": "", "t": 5}, {"l": "", "t": 4}]},
               {"name": "B", "fs": [{"l": "", "t": 9}]}, {"name": "B", "fs": [{"l": "", "t": 10}]},
               {"name": "", "fs": []}], [14, 15]),
}

E2E = {
    # key -> (program, what a correct implementation gives, how the defect shows)
    K_PT: ("f = #(x: 'int) { | =Point[x: n] => n | 0 }, Point[x: 5] f", {"k": "int", "n": 5}),
    K_PP: ("f = #(x: 'int) { | =(y: 'int) => 1 | 0 }, [x: 1, y: 2] f", {"k": "int", "n": 1}),
    K_NAME: ("g = #P(x: 'int) { | =P(x: n) => n | 7 }, f = #(x: 'int) { g }, Q[x: 5] f", "rejected"),
    K_CYC: ("'s = A[y: 'int] | B[y: ^]\nf = #(y: 'int) { [~.y, 1] __integer_add__ }\ng = #'s { f }\n"
            "B[y: A[y: 1]] g", "rejected"),
    K_DIV: ("'f = #^ -> ^\n'g = #'f -> ^\nh = #('f | 'int) { | ='g => 1 | 2 }\n5 h", {"k": "int", "n": 2}),
    K_IDENT: ("'x = A['int] | B[^]\n'y = A['bin] | B[^]\nf = #'x { | ='y => 1 | =A[n] => 2 | 3 }\nB[A[0]] f",
              {"k": "int", "n": 3}),
    K_WIDE: ("f = #((#'int -> A) | (#'ref -> [])) { | =(#('int | 'bin) -> A) => 1 | =(#'ref -> []) => 2 | 3 }, "
             "#'int { A } f", {"k": "int", "n": 3}),
    K_LABEL: ("'za = 'bin | ['bin]\n'zb = [y: 'bin]\nf = #'za { | ='zb => Zq | =['bin] => 2 | 3 }, [0x01] f", {"k": "int", "n": 2}),
    K_SHIFT: ("'j = 'int | B[(A[^, ^1] | Nil)] | []\n'k = 'bin | B[(Cons[^, ^1] | Nil)] | []\n"
              "f = #'j { | ='k => 1 | =B[A[h, t]] => t { | =Nil => 2 | 3 } | 4 }\nB[A[0, Nil]] f",
              {"k": "int", "n": 2}),
}


def route(rule, g, roots, i, j, k=0):
    """known-finding key a mismatch is routed to, or None (then it is reported as a VIOLATION)."""
    if rule in ("OVER", "INTER"):
        tags = facing(g, roots[i - 1], roots[j - 1])
        if "par<tup" in tags:
            return K_PT
        if "par~par" in tags:
            return K_PP
        if "same-open-id" in tags:
            return K_IDENT
        return None
    if rule in ("SOUND", "COMPL"):
        tags = facing(g, roots[i - 1], roots[j - 1])
        if "par~par:name-right-only" in tags:
            return K_NAME
        if "cyc|other" in tags:
            return K_CYC
        if "same-open-id" in tags:
            return K_IDENT
        if rule == "COMPL" and "tup~tup:labels-differ" in tags:
            return K_LABEL
        if rule == "COMPL" and has_nested_open_union(g, roots[i - 1]):
            return K_SHIFT
        if rule == "COMPL" and tags & {"fn~fn", "proc~proc", "par~par", "tup~par"}:
            return K_WIDE
        return None
    if rule == "TRANS":
        # i <= j <= k claimed, i <= k denied: blame an unsound premise
        for a, b in ((i, j), (j, k)):
            key = route("SOUND", g, roots, a, b)
            if key:
                return key
        return None
    return None


# ---------------------------------------------------------------------------
# seeded sample of larger shapes (terms -> graphs)
# ---------------------------------------------------------------------------
NAMES = ["", "A", "B"]
LABELS = ["", "x", "y"]


def T_tup(name, *fs):
    return ("tup", name, tuple(fs))


def T_par(name, *fs):
    return ("par", name, tuple(fs))


def T_uni(*ms):
    return ("uni", tuple(ms))


INT, BIN, REF = ("int",), ("bin",), ("ref",)
NIL = T_tup("")


def term_kids(t):
    k = t[0]
    if k in ("tup", "par"):
        return [f[1] for f in t[2]]
    if k == "uni":
        return list(t[1])
    if k in ("fn", "proc"):
        return [t[1], t[2]]
    return []


def rebuild(t, new_kids):
    k = t[0]
    if k in ("tup", "par"):
        return (k, t[1], tuple((f[0], c) for f, c in zip(t[2], new_kids)))
    if k == "uni":
        return ("uni", tuple(new_kids))
    if k in ("fn", "proc"):
        return (k, new_kids[0], new_kids[1])
    return t


def esc(t):
    """boundaries above t that its cycles reach (0 = closed)"""
    if t[0] == "cyc":
        return t[1]
    m = max([esc(c) for c in term_kids(t)] or [0])
    return max(m - 1, 0) if t[0] in ("uni", "fn") else m


def contractive(t, guarded=False):
    if t[0] == "cyc":
        return guarded
    if t[0] == "uni":
        return all(c[0] != "uni" and contractive(c, False) for c in t[1])
    return all(contractive(c, True) for c in term_kids(t))


def well_formed(t):
    if t[0] == "uni":
        if len(set(t[1])) != len(t[1]) or len(t[1]) < 1:
            return False
    return esc(t) == 0 and contractive(t) and all(sub_ok(c) for c in term_kids(t))


def sub_ok(t):
    if t[0] == "uni" and (len(set(t[1])) != len(t[1]) or len(t[1]) < 1):
        return False
    if t[0] in ("tup", "par"):
        labs = [f[0] for f in t[2] if f[0]]
        if len(labs) != len(set(labs)):
            return False
        if t[0] == "par" and any(not f[0] for f in t[2]):
            return False
    return all(sub_ok(c) for c in term_kids(t))


def gen_term(rng, depth, b, guarded, in_union=False):
    leaves = [INT, INT, BIN, REF, ("res", "R"), NIL, T_tup("A"), T_tup("B"), T_par(""), T_par("A")]
    if guarded and b >= 1:
        leaves += [("cyc", rng.randint(1, b))] * 3
    if depth <= 0 or rng.random() < 0.25:
        return rng.choice(leaves)
    kind = rng.choices(["tup", "par", "uni", "fn", "proc"], [5, 3, 0 if in_union else 4, 2, 1])[0]
    if kind == "tup":
        n = rng.choice([1, 1, 2, 2, 3])
        labs = rng.choice([[""] * n, ["x", "y", ""][:n], ["x", "", ""][:n]])
        return T_tup(rng.choice(NAMES), *[(l, gen_term(rng, depth - 1, b, True)) for l in labs])
    if kind == "par":
        labs = rng.choice([["x"], ["y"], ["x", "y"]])
        return T_par(rng.choice(NAMES), *[(l, gen_term(rng, depth - 1, b, True)) for l in labs])
    if kind == "uni":
        ms = []
        for _ in range(rng.choice([2, 2, 3])):
            m = gen_term(rng, depth - 1, b + 1, False, in_union=True)
            if m not in ms:
                ms.append(m)
        return T_uni(*ms) if len(ms) >= 2 else ms[0]
    if kind == "fn":
        return ("fn", gen_term(rng, depth - 1, b + 1, True), gen_term(rng, depth - 1, b + 1, True))
    return ("proc", gen_term(rng, depth - 1, b, True), gen_term(rng, depth - 1, b, True))


def families(rng):
    e = rng.choice([INT, BIN, T_uni(INT, BIN), T_tup("A", ("x", INT)), T_par("", ("x", INT))])
    lab = rng.choice(["", "y"])
    return rng.choice([
        T_uni(T_tup("Nil"), T_tup("Cons", ("", e), ("", ("cyc", 1)))),                   # list
        T_uni(T_tup("A", ("", e)), T_tup("B", ("", ("cyc", 1)), ("", ("cyc", 1)))),       # tree
        T_uni(T_tup("A", (lab, INT)), T_tup("B", (lab, ("cyc", 1)))),                     # nest
        T_uni(NIL, INT, T_tup("A", ("", T_uni(T_tup("Nil"), T_tup("Cons", ("", ("cyc", 2)), ("", ("cyc", 1))))))),
        T_uni(T_tup("Nil"), T_tup("A", ("x", ("fn", INT, ("cyc", 2))))),                  # lazy stream
        ("fn", T_uni(INT, T_tup("A", ("", ("cyc", 2)))), INT),
        T_uni(T_tup("A"), T_tup("B", ("x", ("proc", INT, ("cyc", 1))))),
        T_tup("A", ("x", T_uni(T_tup("Nil"), T_tup("Cons", ("", INT), ("", ("cyc", 1)))))),
    ])


def positions(t, path=()):
    yield path, t
    for i, c in enumerate(term_kids(t)):
        yield from positions(c, path + (i,))


def replace_at(t, path, new):
    if not path:
        return new
    ks = term_kids(t)
    ks[path[0]] = replace_at(ks[path[0]], path[1:], new)
    return rebuild(t, ks)


def boundaries_above(t, path):
    b = 0
    for i in path:
        if t[0] in ("uni", "fn"):
            b += 1
        t = term_kids(t)[i]
    return b


def mutate(rng, root):
    """one small edit of a random subterm; the result is re-checked for well-formedness"""
    for _ in range(40):
        path, s = rng.choice(list(positions(root)))
        k = s[0]
        parent_is_union = False
        if path:
            p = root
            for i in path[:-1]:
                p = term_kids(p)[i]
            parent_is_union = p[0] == "uni"
        new = None
        r = rng.random()
        if k == "uni" and r < 0.5:
            ms = list(s[1])
            ms.pop(rng.randrange(len(ms)))
            new = T_uni(*ms) if len(ms) >= 2 else ms[0]
        elif k == "uni":
            extra = rng.choice([INT, BIN, NIL, T_tup("A"), T_tup("B", ("x", INT)), T_par("", ("x", INT))])
            if extra not in s[1]:
                new = T_uni(*(s[1] + (extra,)))
        elif k == "tup" and r < 0.35 and s[2] and all(f[0] for f in s[2]):
            fs = [f for f in s[2] if rng.random() < 0.7] or [s[2][0]]
            new = T_par(rng.choice([s[1], ""]), *fs)                       # tuple -> partial
        elif k == "tup" and r < 0.55:
            new = ("tup", rng.choice(NAMES), s[2])                         # rename
        elif k == "tup" and r < 0.75 and s[2]:
            i = rng.randrange(len(s[2]))
            fs = list(s[2])
            fs[i] = (rng.choice(LABELS), fs[i][1])
            new = ("tup", s[1], tuple(fs))                                 # relabel
        elif k == "tup" and r < 0.9:
            new = ("tup", s[1], s[2] + ((rng.choice(["", "y"]), rng.choice([INT, BIN])),))
        elif k == "par" and r < 0.4:
            new = ("par", rng.choice(NAMES), s[2])                         # toggle the name
        elif k == "par" and r < 0.7 and s[2]:
            fs = list(s[2])
            fs.pop(rng.randrange(len(fs)))
            new = ("par", s[1], tuple(fs))
        elif k == "par":
            new = ("par", s[1], s[2] + ((rng.choice(["x", "y"]), rng.choice([INT, BIN, T_par("")])),))
        elif k == "cyc" and r < 0.7:
            # unfold: a closed enclosing boundary may be copied verbatim in place of the reference
            t, chain = root, []
            for i in path:
                if t[0] in ("uni", "fn"):
                    chain.append(t)
                t = term_kids(t)[i]
            if s[1] <= len(chain) and esc(chain[-s[1]]) == 0 and not parent_is_union:
                new = chain[-s[1]]
        elif k in ("int", "bin") and not parent_is_union and r < 0.5:
            new = T_uni(INT, BIN)                                          # widen a leaf
        elif k in ("int", "bin"):
            new = BIN if k == "int" else INT
        elif k in ("fn", "proc") and r < 0.5:
            new = (k, s[2], s[1]) if esc(s[1]) == esc(s[2]) else None
        if new is None or new == s:
            continue
        if parent_is_union and new[0] in ("uni", "cyc"):
            continue
        cand = replace_at(root, path, new)
        if cand != root and well_formed(cand):
            return cand
    return root


def terms_to_graph(terms):
    """hash-consed graph (never at node 1, children first) and the root ids"""
    types = [{"k": "uni", "ms": []}]
    tuples = []
    memo = {}

    def add(t):
        if t in memo:
            return memo[t]
        k = t[0]
        if k in ("int", "bin", "ref"):
            node = {"k": k}
        elif k == "res":
            node = {"k": "res", "r": t[1]}
        elif k == "cyc":
            node = {"k": "cyc", "n": t[1]}
        elif k == "tup":
            fs = [{"l": l, "t": add(c)} for l, c in t[2]]
            tuples.append({"name": t[1], "fs": fs})
            node = {"k": "tup", "t": len(tuples)}
        elif k == "par":
            node = {"k": "par", "name": t[1], "fs": [{"l": l, "t": add(c)} for l, c in t[2]]}
        elif k == "uni":
            node = {"k": "uni", "ms": [add(c) for c in t[1]]}
        elif k == "fn":
            node = {"k": "fn", "p": add(t[1]), "r": add(t[2]), "rc": 1}
        else:
            node = {"k": "proc", "s": add(t[1]), "r": add(t[2])}
        types.append(node)
        memo[t] = len(types)
        return memo[t]

    roots = [add(t) for t in terms]
    return {"types": types, "tuples": tuples}, roots


def fixed_triples():
    """hand-written triples of shapes the sampler rarely draws: unions of FUNCTION types below a recursive type
    (seeded change C09-2: a function-vs-function comparison that failed on the parameter left the rejected type
    on the stack that `^` is resolved against, so a later back-reference in the same call pointed at it)"""
    fi, fb = ("fn", INT, INT), ("fn", BIN, BIN)
    nil_ = T_tup("Nil")
    hs = T_uni(nil_, T_tup("Cons", ("", T_uni(fi, fb)), ("", ("cyc", 1))))
    hsb = T_uni(nil_, T_tup("Cons", ("", fb), ("", ("cyc", 1))))
    c1 = T_tup("Cons", ("", fb), ("", nil_))
    c2 = T_tup("Cons", ("", fb), ("", T_tup("Cons", ("", fi), ("", nil_))))
    bad = T_tup("Cons", ("", fb), ("", fi))
    ps = T_uni(nil_, T_tup("Cons", ("", T_uni(("proc", INT, INT), ("proc", BIN, BIN))), ("", ("cyc", 1))))
    p1 = T_tup("Cons", ("", ("proc", BIN, BIN)), ("", nil_))
    tree = T_uni(T_tup("A", ("", T_uni(fi, fb))), T_tup("B", ("", ("cyc", 1)), ("", ("cyc", 1))))
    t1 = T_tup("B", ("", T_tup("A", ("", fb))), ("", T_tup("A", ("", fi))))
    return [(c1, hsb, hs), (c2, hs, hsb), (bad, hs, c1), (c1, hs, c2), (p1, ps, hs), (t1, tree, hs),
            (T_uni(fi, fb), fb, fi), (T_tup("A", ("x", T_uni(fi, fb))), T_tup("A", ("x", fb)), T_tup("A", ("x", fi)))]


def sample_triples(n, seed):
    rng = random.Random(seed * 7919 + 17)
    out = []
    for terms in fixed_triples():
        if all(well_formed(t) for t in terms):
            out.append(terms_to_graph(list(terms)))
    while len(out) < n:
        a = families(rng) if rng.random() < 0.45 else gen_term(rng, rng.choice([2, 3]), 0, False)
        if rng.random() < 0.3 and well_formed(a):
            a = mutate(rng, a)
        if not well_formed(a):
            continue
        b = mutate(rng, a)
        c = mutate(rng, b if rng.random() < 0.7 else a)
        if len({a, b, c}) < 2:
            continue
        terms = []
        for t in (a, b, c):
            if t not in terms:
                terms.append(t)
        g, roots = terms_to_graph(terms)
        if len(g["types"]) > 24:
            continue
        out.append((g, roots))
    return out


# ---------------------------------------------------------------------------
# C09
# ---------------------------------------------------------------------------
def c09_cases(check, tier):
    """returns list of cases {"id","g","roots","judge","narrow","src"} and the MC verdicts by id"""
    cases = []
    verdicts = {}
    # (a) TLC enumeration
    cfg = write_cfg("MC_Types_enum.cfg", "Emit", 3)
    res = common.tlc("MC_Types", cfg, workers=8, timeout=1500)
    if not res.ok:
        raise common.ToolError("MC_Types failed: " + res.out[-800:])
    check.add_tlc("MC_Types(enum<=3)", res)
    enum = prints_of(res, CASE_PREFIX)
    for c in enum:
        cid = len(cases) + 1
        roots = c["roots"]
        if len(roots) == 2:
            v = {(x["a"], x["b"]): x for x in c["v"]}
            verdicts[cid] = v
            judge = [[1, 2], [2, 1]]
            # intersection can only lose a value where the spec sees a common one, the
            # complement only where the spec sees a value of A outside B
            # (for disjoint pairs, where the complement must simply keep A, one pair in four)
            narrow = [[i, j, "inter" if v[(i, j)]["overlap"] else "",
                       "compl" if not v[(i, j)]["contained"] and (v[(i, j)]["overlap"] or cid % 4 == 0) else ""]
                      for i, j in ((1, 2), (2, 1))]
            narrow = [x for x in narrow if x[2] or x[3]]
        else:
            judge, narrow = [], []
        cases.append({"id": cid, "g": c["g"], "roots": roots, "judge": judge, "narrow": narrow, "src": "enum"})
    check.cov["enumerated_cases"] = len(enum)
    if tier == "thorough":
        # every 4-node graph is generated; a seeded residue class of them emits cases
        mod = int(os.environ.get("TYPES_CMOD", "400"))
        cfg = write_cfg("MC_Types_enum4.cfg", "Emit", 4, mod=mod, rem=common.seed() % mod)
        res = common.tlc("MC_Types", cfg, workers=8, timeout=20000)
        if not res.ok:
            raise common.ToolError("MC_Types (4 nodes) failed: " + res.out[-800:])
        check.add_tlc("MC_Types(enum<=4, 1/%d of the 4-node graphs)" % mod, res)
        seen = {json.dumps([c["g"], c["roots"]], sort_keys=True) for c in enum}
        extra = 0
        for c in prints_of(res, CASE_PREFIX):
            key = json.dumps([c["g"], c["roots"]], sort_keys=True)
            if key in seen:
                continue
            seen.add(key)
            extra += 1
            judge = [[1, 2], [2, 1]] if len(c["roots"]) == 2 else []
            cases.append({"id": len(cases) + 1, "g": c["g"], "roots": c["roots"], "judge": judge,
                          "narrow": [[i, j, "inter", "compl"] for i, j in judge], "src": "enum4"})
        check.cov["enumerated_cases_4_nodes"] = extra
    # (b) seeded sample of larger shapes
    n = int(os.environ.get("TYPES_SAMPLE", "1200" if tier == "quick" else "20000"))
    for g, roots in sample_triples(n, common.seed()):
        k = len(roots)
        judge = [[i, j] for i in range(1, k + 1) for j in range(1, k + 1) if i != j]
        cases.append({"id": len(cases) + 1, "g": g, "roots": roots, "judge": judge,
                      "narrow": [[i, j, "inter", "compl"] for i, j in judge if abs(i - j) == 1], "src": "sample"})
    check.cov["sampled_triples"] = n
    # (c) pinned reproducers of the known findings
    for key, (types, tuples, roots) in PINNED.items():
        cases.append({"id": len(cases) + 1, "g": {"types": types, "tuples": tuples}, "roots": roots,
                      "judge": [[1, 2], [2, 1]], "narrow": [[1, 2, "inter", "compl"], [2, 1, "inter", "compl"]],
                      "src": "pinned:" + key})
    # (d) LOGGED ONLY: send side of a process / receive component of a callable differ (no variance
    # is specified for them, nothing is judged: judge = [])
    ib = T_uni(INT, BIN)
    for name, terms in (("process send differs", [("proc", INT, INT), ("proc", ib, INT)]),):
        g, roots = terms_to_graph(terms)
        cases.append({"id": len(cases) + 1, "g": g, "roots": roots, "judge": [], "narrow": [], "src": "logged:" + name})
    g = {"types": [{"k": "uni", "ms": []}, {"k": "int"}, {"k": "bin"}, {"k": "uni", "ms": [2, 3]},
                   {"k": "fn", "p": 2, "r": 2, "rc": 2}, {"k": "fn", "p": 2, "r": 2, "rc": 4}], "tuples": []}
    cases.append({"id": len(cases) + 1, "g": g, "roots": [5, 6], "judge": [], "narrow": [],
                  "src": "logged:callable receive differs"})
    return cases, verdicts


def replay_cases(cases):
    lines = [json.dumps({"id": c["id"], "g": c["g"], "roots": c["roots"],
                         "narrow": [[x[0], x[1]] for x in c["narrow"]]}) + "\n" for c in cases]
    answers, crashed = run_stream_bin("typesreplay", lines)
    records = []
    for c, a in zip(cases, answers):
        if a is None:
            continue
        if "error" in a:
            raise common.ToolError("typesreplay rejected case %s: %s" % (c["id"], a["error"]))
        want = {(x[0], x[1]): {x[2], x[3]} - {""} for x in c["narrow"]}
        narrow = []
        for n in a["narrow"]:
            if n["op"] in want.get((n["i"], n["j"]), ()):
                narrow.append({k: n[k] for k in ("i", "j", "g", "a", "b", "inter", "compl")})
        records.append({"id": c["id"], "g": c["g"], "roots": c["roots"], "judge": c["judge"],
                        "compat": a["compat"], "overlap": a["overlap"], "narrow": narrow})
        c["answer"] = a
    return records, [(cases[i], msg) for i, msg in crashed]


def judge_c09(check, records, name="TypesTrace", stat=False):
    """TLC judges the records; large record sets are split into chunks of <= 25 MB judged by up to three TLC
    processes at a time (one TLC process reads its JSON input single-threaded)."""
    import concurrent.futures as cf
    os.makedirs(WORKD, exist_ok=True)
    chunks, cur, size = [], [], 0
    for r in records:
        line = json.dumps(r) + "\n"
        if cur and size + len(line) > 25_000_000:
            chunks.append(cur)
            cur, size = [], 0
        cur.append(line)
        size += len(line)
    chunks.append(cur)

    def one(i):
        path = os.path.join(WORKD, "c09_trace_%d_%d.ndjson" % (os.getpid(), i))
        with open(path, "w") as f:
            f.writelines(chunks[i])
        env = {"TYPES_TRACE": path}
        if stat:
            env["TYPES_STAT"] = "1"
        res = common.tlc("TypesTrace", "TypesTrace.cfg", env=env, workers=8 if len(chunks) == 1 else 5, timeout=3000,
                         extra=["-continue"], metadir=os.path.join(WORKD, "tlc_c09_%d_%d" % (os.getpid(), i)))
        os.remove(path)
        return res
    mism, stats = [], []
    with cf.ThreadPoolExecutor(max_workers=3) as ex:
        for i, res in enumerate(ex.map(one, range(len(chunks)))):
            if res.eval_error or (not res.ok and not res.violated):
                raise common.ToolError("TypesTrace failed: " + res.out[-1500:])
            check.add_tlc(name if len(chunks) == 1 else "%s[%d/%d]" % (name, i + 1, len(chunks)), res)
            m = prints_of(res, MISMATCH_PREFIX)
            if res.violated and not m:
                raise common.ToolError("TypesTrace reports a violation without a MISMATCH line")
            mism += m
            stats += prints_of(res, STAT_PREFIX)
    return mism, stats


def e2e_confirm(check, key):
    """Run the pinned program of a finding through the real compiler + runtime."""
    prog, correct = E2E[key]
    try:
        out = common.qrun([{"id": key, "src": prog}])[key]
        obs = out["outcomes"][-1] if out["outcomes"] else {"t": "none"}
        if out["crashes"]:
            obs = {"t": "crash", "m": out["crashes"][0][:120]}
    except common.ToolError as e:
        obs = {"t": "process-died", "m": str(e)[-160:]}
    if correct == "rejected":
        shows = obs.get("t") != "rejected"
    else:
        shows = not (obs.get("t") == "value" and obs.get("v") == correct)
    check.cov.setdefault("end_to_end", {})[key] = {"program": prog, "observed": obs, "defect_visible": shows}
    return shows, obs


def run_c09(prop, tier):
    check = common.Check(prop, tier)
    check.cov["rule"] = RULE_C09
    t0 = time.time()
    cases, verdicts = c09_cases(check, tier)
    records, crashed = replay_cases(cases)
    check.cov["traces_validated_against_impl"] = len(records)
    check.cov["t_generate_replay_s"] = round(time.time() - t0, 1)
    by_id = {c["id"]: c for c in cases}
    # split so the (expensive, larger) sampled shapes also report verdict statistics
    small = [r for r in records if by_id[r["id"]]["src"] == "enum"]
    big = [r for r in records if by_id[r["id"]]["src"] != "enum"]
    mism, _ = judge_c09(check, small, "TypesTrace(enum)")
    m2, stats = judge_c09(check, big, "TypesTrace(sample)", stat=True)
    mism += m2

    # coverage figures (measured)
    nontrivial = set()
    ctor = collections.Counter()
    pairs = 0
    for c in cases:
        g = c["g"]
        for i, j in c["judge"]:
            a, b = c["roots"][i - 1], c["roots"][j - 1]
            pairs += 1
            ka, kb = kinds_below(g, a), kinds_below(g, b)
            for k in ka | kb:
                ctor[k] += 1
            if a != b and ({"uni", "par", "cyc"} & (ka | kb)):
                nontrivial.add(json.dumps([g, a, b], sort_keys=True))
    check.cov["evaluations"] = pairs
    check.cov["distinct_nontrivial"] = len(nontrivial)
    check.cov["pairs_per_constructor"] = dict(ctor)
    spec_v = collections.Counter()
    for v in verdicts.values():
        for x in v.values():
            spec_v["contained" if x["contained"] else "not_contained"] += 1
            spec_v["overlap" if x["overlap"] else "disjoint"] += 1
    check.cov["spec_verdicts_enum"] = dict(spec_v)
    check.cov["spec_verdicts_sample"] = {k: sum(s[k] for s in stats) for k in
                                         ("pairs", "contained", "overlapping", "compat", "incomplete", "asym",
                                          "narrow", "unjudged")} if stats else {}
    # the reverse argument order of types_overlap and incompleteness of is_compatible: evidence only
    asym = 0
    for r in records:
        n = len(r["roots"])
        asym += sum(1 for i in range(n) for j in range(i) if r["overlap"][i][j] != r["overlap"][j][i])
    check.cov["overlap_order_dependent_pairs"] = asym
    for c in cases[:3] + [c for c in cases if c["src"] == "sample"][:2]:
        if "answer" in c:
            check.sample({"types": c["answer"].get("fmt"), "is_compatible": c["answer"]["compat"],
                          "types_overlap": c["answer"]["overlap"],
                          "spec": [{k: x[k] for k in ("a", "b", "contained", "overlap")}
                                   for x in verdicts.get(c["id"], {}).values()]})

    check.cov["unspecified_variance_logged_only"] = [
        {"what": c["src"][7:], "types": c["answer"]["fmt"], "is_compatible": c["answer"]["compat"],
         "types_overlap": c["answer"]["overlap"]} for c in cases if c["src"].startswith("logged:") and "answer" in c]
    # crashes of the relation itself (stack overflow): data, routed like any other disagreement
    by_key = collections.defaultdict(list)
    for c, msg in crashed:
        kk = set()
        for r in c["roots"]:
            kk |= kinds_below(c["g"], r)
        key = K_DIV if {"fn", "cyc"} <= kk else None
        by_key[key].append({"rule": "CRASH", "case": {k: c[k] for k in ("g", "roots")}, "stderr": msg})
    for m in mism:
        c = by_id[m["id"]]
        if m["rule"] == "ILLFORMED":
            raise common.ToolError("generator produced an ill-formed root: %s" % json.dumps(c["g"]))
        key = route(m["rule"], c["g"], c["roots"], m["i"], m["j"], m.get("k", 0))
        ans = c.get("answer", {})
        by_key[key].append({"rule": m["rule"], "i": m["i"], "j": m["j"], "k": m.get("k", 0),
                            "witness": m["wit"], "types": ans.get("fmt"),
                            "case": {"g": c["g"], "roots": c["roots"], "judge": c["judge"],
                                     "narrow": c["narrow"]},
                            "is_compatible": ans.get("compat"), "types_overlap": ans.get("overlap")})
    # narrowing as the COMPILER drives it (state kept across several checks of one value in one condition), end to
    # end: compiled programs, real VM, (value, inferred type) judged by TLC against Soundness.tla
    import soundness
    soundness.judge_narrowing(check, prop)
    check.cov["mismatches_by_key"] = {str(k): len(v) for k, v in by_key.items()}
    if os.environ.get("TYPES_DUMP"):
        with open(os.path.join(WORKD, "mismatches.json"), "w") as f:
            json.dump({str(k): v for k, v in by_key.items()}, f)
    for key, items in sorted(by_key.items(), key=lambda kv: str(kv[0])):
        items.sort(key=lambda x: len(json.dumps(x["case"])))
        if key is not None and common.finding_for(prop, key) is not None:
            shows, obs = e2e_confirm(check, key)
            x = items[0]
            check.violation({"property": prop, "kind": "c09", **x}, key=key,
                            what="%s x%d, smallest: %s %s witness %s; end-to-end %s" %
                                 (key, len(items), x["rule"], x.get("types"), json.dumps(x.get("witness")),
                                  json.dumps(obs)))
            continue
        # unknown (or no longer listed) disagreement: report the few smallest
        for x in items[:3]:
            check.violation({"property": prop, "kind": "c09", **x}, key=None,
                            what="%s on %s (indices %s,%s,%s): witness %s; is_compatible=%s types_overlap=%s" %
                                 (x["rule"], x.get("types"), x.get("i"), x.get("j"), x.get("k"),
                                  json.dumps(x.get("witness")), x.get("is_compatible"), x.get("types_overlap")))
    return check.finish()


# ---------------------------------------------------------------------------
# C08
# ---------------------------------------------------------------------------
def render_value(g, v, top=True):
    k = v["k"]
    if k == "int":
        return str(v["n"])
    if k == "bin":
        return "0x" + "".join("%02x" % b for b in v["b"])
    if k == "ref":
        return "%ref"
    if k == "tup":
        if not v["fs"]:
            return v["name"] or "[]"
        fs = ", ".join((l + ": " if l else "") + render_value(g, f, False) for l, f in zip(v["ls"], v["fs"]))
        return "%s[%s]" % (v["name"], fs)
    if k == "fn":
        if not top:
            raise Unrenderable("function literal inside a tuple")
        t = g["types"][v["n"] - 1]
        return "#%s { %s }" % (render_type(g, t["p"], 1, False), literal_of(g, t["r"]))
    raise Unrenderable(k)


def literal_of(g, n):
    t = g["types"][n - 1]
    if t["k"] == "int":
        return "0"
    if t["k"] == "bin":
        return "0x"
    if t["k"] == "tup":
        info = g["tuples"][t["t"] - 1]
        if not info["fs"]:
            return info["name"] or "[]"
        return "%s[%s]" % (info["name"], ", ".join((f["l"] + ": " if f["l"] else "") + literal_of(g, f["t"])
                                                   for f in info["fs"]))
    raise Unrenderable("no literal of exactly this type")


def static_type(g, v, top=True):
    k = v["k"]
    if k in ("int", "bin", "ref"):
        return "'" + k
    if k == "tup":
        if not v["fs"]:
            return v["name"] or "[]"
        return "%s[%s]" % (v["name"], ", ".join((l + ": " if l else "") + static_type(g, f, False)
                                                for l, f in zip(v["ls"], v["fs"])))
    if k == "fn":
        return "(" + render_type(g, v["n"], 0, True) + ")"
    if k == "proc":
        return render_type(g, v["n"], 0, True)
    raise Unrenderable(k)


def render_proc_vcase(vc):
    """(T, v) where v is a PROCESS value of signature (s, r): the pattern `='t` / `=('t)x` is applied to the pid
    obtained (a) as the result of the spawn, (b) with `&.` in the process's own entry function, (c) with `&.` in
    a helper function that the entry function calls (its frame is not the first one: seeded change C08-1 typed
    the pid by the function of the CURRENT frame).  In (b) and (c) the process tests its own pid and posts the
    verdict to the program's process."""
    g, t, v = vc["g"], vc["t"], vc["v"]
    pt = g["types"][v["n"] - 1]
    ty = render_type(g, t)
    S = render_type(g, pt["s"], 1, False)
    Rlit = literal_of(g, pt["r"])
    st = static_type(g, v)
    no_recv = g["types"][pt["s"] - 1] == {"k": "uni", "ms": []}
    if no_recv:
        raise Unrenderable("process without a receive type")
    recv = "! [#%s, 0] { | =[] => Ok | Ok }" % S          # declares the receive type, never blocks, never nil
    out = []
    for form, pat in (("type", "='t"), ("as", "=('t)x")):
        head = "'t = %s\nf = #(%s | (@%s) | 't | Zq) { | %s => Ok | No }" % (ty, st, S, pat)
        spawn = head + "\nk = @#{ %s, %s }\n&k f" % (recv, Rlit)
        out.append((form, spawn, None))     # (no tree-shaken run: the in-process `quiv run` path has no scheduler for a second process)
        entry = (head + "\npar = &.\nk = &par @#(@(Ok | No)) { =q, %s, &. f q, %s }\n!#(Ok | No)" % (recv, Rlit))
        out.append((form + "-self", entry, None))
        helper = (head + "\nh = #{ %s, &. }\npar = &.\n"
                  "k = &par @#(@(Ok | No)) { =q, %s, h f q, %s }\n!#(Ok | No)" % (recv, recv, Rlit))
        out.append((form + "-helper", helper, None))
    return out


def render_vcase(vc):
    """list of (form, program text, shaken program text) for one (T, v) case"""
    g, t, v = vc["g"], vc["t"], vc["v"]
    if v["k"] == "proc":
        return render_proc_vcase(vc)
    if "uni" in kinds_below(g, t) and any(x["k"] == "uni" and len(x["ms"]) < 2 and i + 1 != 1 and
                                          (i + 1) in reach_ids(g, t) and not is_rc(g, i + 1)
                                          for i, x in enumerate(g["types"])):
        raise Unrenderable("singleton / empty union")
    ty = render_type(g, t)
    val = render_value(g, v)
    st = static_type(g, v)
    forms = [("type", "='t"), ("as", "=('t)x")]
    root = g["types"][t - 1]
    aliases = ["'t = " + ty]
    if root["k"] in ("tup", "par"):
        info = g["tuples"][root["t"] - 1] if root["k"] == "tup" else root
        parts = []
        for i, f in enumerate(info["fs"]):
            aliases.append("'u%d = %s" % (i, render_type(g, f["t"])))
            parts.append((f["l"] + ": " if f["l"] else "") + "'u%d" % i)
        if root["k"] == "tup":
            pat = (info["name"] or "[]") if not parts else "%s[%s]" % (info["name"], ", ".join(parts))
            forms.append(("tuple", "=" + pat))
        else:
            forms.append(("partial", "=%s(%s)" % (info["name"], ", ".join(parts))))
    out = []
    # the parameter type holds the value's static type S, the pattern type and a marker, so neither
    # acceptance nor rejection can be decided at compile time: the test runs
    broad = "(%s | 't | Zq)" % st if st != ty else "(%s | Zq)" % st
    narrow = "(%s | Zq)" % st
    variants = []
    for form, pat in forms:
        if form == "partial":
            # known finding acc:partial-broad (a partial PATTERN emits no runtime test for a value whose
            # static type has a partial variant): the partial pattern is also run against the
            # parameter type without 't so that the pattern itself stays checked
            variants += [("partial", pat, narrow), ("partial-broad", pat, broad)]
        else:
            variants.append((form, pat, broad))
    for form, pat, param in variants:
        head = "\n".join(aliases) + "\nf = #%s { | %s => Ok | No }" % (param, pat)
        out.append((form, head + "\n" + val + " f", head + "\n#{ " + val + " f }"))
    if vc.get("block_forms"):
        # the same patterns in a form whose program mentions the value's type NOWHERE but in the value itself (no
        # function signature, `Yes` as the positive verdict): the value is made opaque by a branch, then matched
        for form, pat in forms:
            al = "\n".join(aliases)
            body = "v = 1 { | =1 => %s | Zq }, v { | %s => Yes | No }" % (val, pat)
            out.append(("block-" + form, al + "\n" + body.replace(" }, v {", " }\nv {"), al + "\n#{ " + body + " }"))
    # a receive source's parameter type: the message W[v] is offered to `#W['t]`; if the mailbox
    # filter (function_param_compatibility) refuses it the select times out and the message is
    # taken by the second, broad receive
    recv = ("'t = %s\np = @#{ ! [#W['t], 5] { | =[] => { !#W[(%s | Zq)], No } | Ok } }\nW[%s] p\n!p"
            % (ty, st, render_value(g, v, False)))
    out.append(("receive", recv, None))
    return out


def reach_ids(g, n, seen=None):
    seen = set() if seen is None else seen
    if n in seen:
        return seen
    seen.add(n)
    for c in kids(g, n):
        reach_ids(g, c, seen)
    return seen


def is_rc(g, n):
    return any(x["k"] == "fn" and x["rc"] == n for x in g["types"])


def verdict_of(outcome):
    """acc / rej / err / skip from a qrun outcome or a typesrun record"""
    t = outcome.get("t")
    if t == "value":
        v = outcome.get("v")
        name = outcome.get("name") if v is None else (v.get("name") if isinstance(v, dict) else None)
        if name in ("Ok", "Yes"):
            return "acc"
        if name == "No":
            return "rej"
        return "err"
    if t in ("rejected", "nocode", "notfn"):
        return "skip"
    return "err"


def _has_bare_a(x):
    if isinstance(x, dict):
        if x.get("k") == "tup" and x.get("name") == "A" and x.get("fs") == []:
            return True
        return any(_has_bare_a(v) for v in x.values())
    return isinstance(x, list) and any(_has_bare_a(v) for v in x)


def _rename_ok(x):
    if isinstance(x, dict):
        return {k: ("Ok" if k == "name" and v == "A" else _rename_ok(v)) for k, v in x.items()}
    if isinstance(x, list):
        return [_rename_ok(v) for v in x]
    return x


def c08_vcases(check, tier):
    """TLC enumerates every graph with <= 2 nodes (all of them emit cases) and the graphs with 3
    nodes; in the quick tier only a seeded residue class of the 3-node graphs emits cases."""
    mod = int(os.environ.get("TYPES_VMOD", "61" if tier == "quick" else "7"))
    cfg = write_cfg("MC_Types8_enum.cfg", "Emit8", 3, mod=mod, rem=common.seed() % mod)
    res = common.tlc("MC_Types", cfg, workers=8, timeout=6000)
    if not res.ok:
        raise common.ToolError("MC_Types (Emit8) failed: " + res.out[-800:])
    check.add_tlc("MC_Types8(enum<=3, 1/%d of the 3-node graphs)" % mod, res)
    vcs = prints_of(res, VCASE_PREFIX)
    check.cov["enumerated_vcases"] = len(vcs)
    cap = int(os.environ.get("TYPES_VCASES", "9000" if tier == "quick" else "10000000"))
    if len(vcs) > cap:
        rng = random.Random(common.seed())
        small = [v for v in vcs if len(v["g"]["types"]) <= 3]
        big = [v for v in vcs if len(v["g"]["types"]) > 3]
        rng.shuffle(big)
        vcs = small + big[:max(cap - len(small), 0)]
    check.cov["vcases_run"] = len(vcs)
    return vcs


def resource_vcases(first_id):
    """records for TypesValTrace: (pattern type \\File or \\Dir, value = a file handle), configurations = one program /
    sessions in which the handle is opened before or after the other resource name is first mentioned"""
    OPEN = "[0x2f78, 0, 0] __file_open__"
    g = {"types": [{"k": "uni", "ms": []}, {"k": "res", "r": "File"}, {"k": "res", "r": "Dir"}], "tuples": []}
    reqs, plan = [], []
    for ti, T in ((2, "File"), (3, "Dir")):
        for form, pat in (("type", "='t"), ("as", "=('t)x")):
            test = "f = #(\\File | 't | Zq) { | %s => Ok | No }\n&h f" % pat
            alias = "'t = \\%s" % T
            cfgs = {"direct": [alias + "\nh = " + OPEN + "\n" + test],
                    "session": ["h = " + OPEN, alias + "\n" + test],
                    "session_other_name_later": ["h = " + OPEN, "zz = #\\Dir { 1 }", alias + "\n" + test],
                    "session_other_names_around": ["zz = #\\Dir { 1 }", "h = " + OPEN, "yy = #\\Socket { 1 }", alias + "\n" + test]}
            for cfg, lines in cfgs.items():
                rid = "r_%s_%s_%s" % (T, form, cfg)
                reqs.append({"id": rid, "lines": lines, "io": True})
                plan.append((ti, form, cfg, rid, lines))
    outs = common.qrun(reqs, timeout=600)
    recs = {}
    for ti, form, cfg, rid, lines in plan:
        o = outs.get(rid, {})
        last = o["outcomes"][-1] if o.get("outcomes") and not o.get("crashes") else {"t": "crash"}
        r = recs.setdefault(ti, {"id": first_id + len(recs), "g": g, "t": ti, "v": {"k": "res", "r": "File"}, "runs": [],
                                 "progs": {}})
        r["runs"].append({"cfg": cfg, "form": form, "acc": verdict_of(last)})
        r["progs"].setdefault(form, " ; ".join(lines[-1:]))
        r.setdefault("sessions", {})["%s/%s" % (cfg, form)] = lines
    return list(recs.values())


def run_c08(prop, tier):
    check = common.Check(prop, tier)
    check.cov["rule"] = RULE_C08
    vcs = c08_vcases(check, tier)
    # The builtin tuple `Ok` (tuple id 1, pre-registered like nil) is special to tree-shaking and merging: every
    # case whose value contains the field-less tuple `A` is run a second time with the name A replaced by Ok
    # throughout (a bijection on names, so the enumerated expectations carry over unchanged).
    # (seeded change C08-3: tree_shake kept the tuple Ok but not its TYPE entry, so after tree-shaking the value Ok
    # was in no compatibility set and partial patterns / receive filters rejected it)
    ren = [dict(_rename_ok(vc), block_forms=True) for vc in vcs if _has_bare_a(vc["v"])]
    vcs = vcs + ren
    check.cov["cases_rerun_with_builtin_Ok"] = len(ren)
    progs = []          # (case index, form, direct text, shaken text)
    unrenderable = collections.Counter()
    for ci, vc in enumerate(vcs):
        try:
            for form, direct, shaken in render_vcase(vc):
                progs.append((ci, form, direct, shaken))
        except Unrenderable as e:
            unrenderable[str(e)] += 1
    check.cov["unrenderable"] = dict(unrenderable)
    # (i) direct and (iii) merged after 1 / 2 other generated programs
    q = []
    q_lines = {}
    for pi, (ci, form, direct, _) in enumerate(progs):
        o1 = progs[(pi * 7 + 3) % len(progs)][2]
        o2 = progs[(pi * 13 + 5) % len(progs)][2]
        q.append({"id": "d%d" % pi, "src": direct})
        q.append({"id": "m%d" % pi, "lines": [o1, direct]})
        q.append({"id": "n%d" % pi, "lines": [o2, o1, direct]})
        q_lines["d%d" % pi] = [direct]
        q_lines["m%d" % pi] = [o1, direct]
        q_lines["n%d" % pi] = [o2, o1, direct]
    t0 = time.time()
    outs = {}
    crashes = []
    for lo in range(0, len(q), 3000):
        chunk = q[lo:lo + 3000]
        try:
            outs.update(common.qrun(chunk, timeout=900))
        except common.ToolError:
            # a process death inside the chunk: run one by one to find it (data, not a tool error)
            for one in chunk:
                try:
                    outs.update(common.qrun([one], timeout=120))
                except common.ToolError as e:
                    crashes.append((one["id"], str(e)[-200:]))
    # (ii) tree-shaken
    lines = [json.dumps({"id": pi, "src": shaken if shaken else "0"}) + "\n"
             for pi, (_, _, _, shaken) in enumerate(progs)]
    shaken_out, shaken_crashed = run_stream_bin("typesrun", lines)
    check.cov["t_run_s"] = round(time.time() - t0, 1)
    dead = {i for i, _ in shaken_crashed}
    died = {c[0] for c in crashes}
    recs = collections.OrderedDict()
    runs = 0
    shrink = [0, 0]
    for pi, (ci, form, direct, shaken) in enumerate(progs):
        vc = vcs[ci]
        r = recs.setdefault(ci, {"id": ci + 1, "g": vc["g"], "t": vc["t"], "v": vc["v"], "runs": []})

        def last(key):
            if key in died:
                # the process died (stack overflow in is_compatible on a callable cycle: pinned under C09,
                # relation:callable-cycle-diverges).  If an EARLIER line of the session is a program that dies
                # on its own, this line is not to blame: not judged in that configuration.
                if key[0] in "mn":
                    n = len(progs)
                    pre = [(pi * 7 + 3) % n] + ([(pi * 13 + 5) % n] if key[0] == "n" else [])
                    if any("d%d" % x in died for x in pre):
                        return {"t": "rejected", "m": "an earlier line of the session kills the process on its own"}
                return {"t": "died"}
            o = outs.get(key, {"outcomes": [], "crashes": ["missing"]})
            if o.get("crashes"):
                return {"t": "crash"}
            return o["outcomes"][-1] if o["outcomes"] else {"t": "none"}

        r["runs"].append({"cfg": "direct", "form": form, "acc": verdict_of(last("d%d" % pi))})
        r["runs"].append({"cfg": "merged1", "form": form, "acc": verdict_of(last("m%d" % pi))})
        r["runs"].append({"cfg": "merged2", "form": form, "acc": verdict_of(last("n%d" % pi))})
        # what a merged run that ended otherwise than in Ok / No actually did (kept for the replay file)
        for cfgname, key in (("direct", "d%d" % pi), ("merged1", "m%d" % pi), ("merged2", "n%d" % pi)):
            if verdict_of(last(key)) == "err":
                r.setdefault("err_detail", {})["%s/%s" % (cfgname, form)] = {
                    "lines": q_lines.get(key), "raw": outs.get(key)}
        so = {"t": "died"} if pi in dead else (shaken_out[pi] or {}).get("out", {"t": "none"})
        r["runs"].append({"cfg": "shaken", "form": form, "acc": verdict_of(so)})
        sz = (shaken_out[pi] or {}).get("sizes") if pi not in dead else None
        if sz:
            shrink[0] += sz["ntypes"][0]
            shrink[1] += sz["ntypes"][1]
        runs += 4
        r.setdefault("progs", {})[form] = direct
    check.cov["traces_validated_against_impl"] = runs
    check.cov["evaluations"] = len(progs)
    check.cov["type_table_entries_full_vs_shaken"] = shrink
    accs = collections.Counter(x["acc"] for r in recs.values() for x in r["runs"])
    check.cov["verdicts_observed"] = dict(accs)
    spec_v = collections.Counter((vc["must"], vc["may"], vc["sc"]) for vc in vcs)
    check.cov["spec_verdicts(must,may,sc)"] = {str(k): v for k, v in spec_v.items()}
    check.cov["distinct_nontrivial"] = len({json.dumps([vc["g"], vc["t"]], sort_keys=True) for vc in vcs
                                            if {"uni", "par", "cyc"} & kinds_below(vc["g"], vc["t"])})
    ctor = collections.Counter()
    for vc in vcs:
        for k in kinds_below(vc["g"], vc["t"]):
            ctor[k] += 1
    check.cov["cases_per_constructor"] = dict(ctor)
    forms = collections.Counter(p[1] for p in progs)
    check.cov["programs_per_form"] = dict(forms)
    for pi in (0, len(progs) // 2, len(progs) - 1):
        if progs:
            ci, form, direct, _ = progs[pi]
            check.sample({"program": direct, "runs": [x for x in recs[ci]["runs"] if x["form"] == form],
                          "spec": {k: vcs[ci][k] for k in ("must", "may", "sc")}})
    # resource handles: a handle's runtime type id is its name's position in a per-environment list that grows as
    # lines mention new resource types; a handle opened early must keep passing / failing the same tests after a
    # later line introduced another resource name (seeded change C08-2: the list was sorted, so ids shifted)
    rrecs = resource_vcases(len(recs) + 1)
    for r in rrecs:
        recs["res%d" % r["id"]] = r
        runs += len(r["runs"])
    check.cov["resource_handle_cases"] = len(rrecs)
    # judge
    path = os.path.join(WORKD, "c08_trace_%d.ndjson" % os.getpid())
    with open(path, "w") as f:
        for r in recs.values():
            f.write(json.dumps({k: r[k] for k in ("id", "g", "t", "v", "runs")}) + "\n")
    res = common.tlc("TypesValTrace", "TypesValTrace.cfg", env={"TYPES_VTRACE": path}, workers=8, timeout=3000,
                     extra=["-continue"])
    if res.eval_error or (not res.ok and not res.violated):
        raise common.ToolError("TypesValTrace failed: " + res.out[-1500:])
    check.add_tlc("TypesValTrace", res)
    os.remove(path)
    mism = prints_of(res, MISMATCH_PREFIX)
    by_id = {r["id"]: r for r in recs.values()}
    grouped = collections.defaultdict(list)
    for m in mism:
        r = by_id[m["id"]]
        grouped[(m["rule"], m["form"])].append({"rule": m["rule"], "cfg": m["cfg"], "form": m["form"],
                                                "observed": m["acc"], "program": r["progs"].get(m["form"]),
                                                "runs": r["runs"], "value": r["v"],
                                                "err_detail": r.get("err_detail", {}).get("%s/%s" % (m["cfg"], m["form"])),
                                                "case": {"g": r["g"], "t": r["t"], "v": r["v"]}})
    check.cov["mismatches"] = {"%s/%s" % k: len(v) for k, v in grouped.items()}
    for (rule, form), items in sorted(grouped.items()):
        items.sort(key=lambda x: len(x["program"] or ""))
        key = "%s:%s" % (rule.lower(), form)
        if common.finding_for(prop, key) is not None:
            check.violation({"property": prop, "kind": "c08", **items[0]}, key=key, what=key)
            continue
        for x in items[:3]:
            check.violation({"property": prop, "kind": "c08", **x}, key=None,
                            what="%s (%s, %s): observed %s for `%s`" %
                                 (rule, x["cfg"], form, x["observed"], (x["program"] or "").replace("\n", " ; ")))
    return check.finish()


# ---------------------------------------------------------------------------
# entry points
# ---------------------------------------------------------------------------
def run(prop, tier):
    if prop == "C09":
        return run_c09(prop, tier)
    if prop == "C08":
        return run_c08(prop, tier)
    raise common.ToolError("types_engine does not serve " + prop)


def replay(prop, path):
    """Re-run one recorded disagreement against the current tree: exit 1 if it still disagrees."""
    obj = json.load(open(path))
    check = common.Check(prop, "replay")
    if obj.get("kind") == "c09":
        c = dict(obj["case"])
        c.setdefault("judge", [[1, 2], [2, 1]])
        c.setdefault("narrow", [])
        c["id"] = 1
        if c["narrow"] and len(c["narrow"][0]) == 2:
            c["narrow"] = [[i, j, "inter", "compl"] for i, j in c["narrow"]]
        records, crashed = replay_cases([c])
        if crashed:
            print("  the relation still kills the process on this pair: %s" % crashed[0][1])
            check.violation(obj, what="still crashes")
            return 1 if check.violations else 0
        mism, _ = judge_c09(check, records)
        for m in mism:
            print("  still disagrees: %s" % json.dumps(m))
        if mism:
            check.violation(obj, what="%d mismatch(es) reproduced" % len(mism))
        else:
            print("  no disagreement on the current tree")
        return 1 if check.violations else 0
    if obj.get("kind") == "c08":
        vc = obj["case"]
        vc = {"g": vc["g"], "t": vc["t"], "v": vc["v"], "must": None, "may": None, "sc": None,
              "block_forms": str(obj.get("form", "")).startswith("block-")}
        progs = render_vcase(vc)
        q = [{"id": "d%d" % i, "src": d} for i, (_, d, _) in enumerate(progs)]
        outs = common.qrun(q)
        sh, dead = run_stream_bin("typesrun", [json.dumps({"id": i, "src": s}) + "\n"
                                               for i, (_, _, s) in enumerate(progs)])
        runs = []
        for i, (form, d, _) in enumerate(progs):
            o = outs["d%d" % i]
            runs.append({"cfg": "direct", "form": form,
                         "acc": verdict_of(o["outcomes"][-1] if o["outcomes"] else {"t": "none"})})
            runs.append({"cfg": "shaken", "form": form, "acc": verdict_of((sh[i] or {}).get("out", {"t": "died"}))})
        p = os.path.join(WORKD, "c08_replay_%d.ndjson" % os.getpid())
        with open(p, "w") as f:
            f.write(json.dumps({"id": 1, "g": vc["g"], "t": vc["t"], "v": vc["v"], "runs": runs}) + "\n")
        res = common.tlc("TypesValTrace", "TypesValTrace.cfg", env={"TYPES_VTRACE": p}, workers=2, timeout=300,
                         extra=["-continue"])
        os.remove(p)
        mism = prints_of(res, MISMATCH_PREFIX)
        for m in mism:
            print("  still disagrees: %s" % json.dumps(m))
        if mism:
            check.violation(obj, what="%d mismatch(es) reproduced" % len(mism))
        else:
            print("  no disagreement on the current tree")
        return 1 if check.violations else 0
    if obj.get("kind") == "narrowing-program":
        import soundness
        soundness.judge_narrowing(check, prop, [obj["program"]])
        if not check.violations:
            print("  the value inhabits the narrowed type on the current tree")
        return 1 if check.violations else 0
    raise common.ToolError("unknown replay file kind in " + path)
