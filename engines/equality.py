"""C13 — equality is structural and construction-independent (refs: see the runtime engine).

spec/Equality.tla defines structural equality SEq over abstract values and checks its laws
(reflexive, symmetric, transitive, = identity of abstract values) on a small universe;
this engine enumerates PAIRS OF CONSTRUCTION PATHS for the same and for different abstract values
(literal, computed by a builtin: heap rope vs constant, spread, returned from a generic function:
different inferred field types and tuple ids, imported from a module, received in a message, built
on an earlier REPL line = a separately merged program, built after other programs were merged),
asks the real compiler+VM for the verdicts of a pinned match `a =&b`, a repeated binder
`[a, b] =[x, x]`, a literal match `a =<literal>`, both directly and inside a function whose
parameters have a broad union type (so that the comparison really happens at run time), and lets
TLC (spec/EqualityTrace.tla) judge PathIndependent and VerdictIsStructural on the recorded values.
The refs clause (RefsUnique across processes and workers) is decided by the runtime engine.
"""
import json, os, re, itertools, random
import common
from common import Check, tlc, WORK, ToolError
import runtime

PRELUDE = ("idf = #<'t>'t { $ }, mkp = #<'t>'t { Point[x: 1, y: ~] }, mkf = #'int { c = ~, #'int { [~, c] __integer_add__ } }, "
           "inc = #'int { [~, 1] __integer_add__ }, "
           "mkb = #'bin { c = ~, #'int { [c, ~] } }, mkt = #Point[x: 'int, y: 'int] { c = ~, #'int { [c, ~] } }")
MODULES = {"m": "[p: Point[x: 1, y: 2], n: 5, b: 0x0102, s: \"hi\", q: [x: 1, y: 2], nest: A[b: [0x0102, 5]]]"}
UNION = "'u = 'int | 'bin | [] | Ok | Point[x: 'int, y: 'int] | [x: 'int, y: 'int] | Point['int, 'int] | ['int, 'int] | Str['bin] | A[b: ['bin, 'int]] | B[b: ['bin, 'int]]"

# abstract value -> (literal pattern or None, fits the union 'u, [construction paths])
VALUES = {
    "int5": ("5", True, ["5", "[2, 3] __integer_add__", "[5, 9] .0", "5 idf", "%m.n", "@msg:'int:5"]),
    "int0": ("0", True, ["0", "[5, 5] __integer_subtract__", "0 idf"]),
    "intm1": ("-1", True, ["-1", "[0, 1] __integer_subtract__"]),
    "big": ("1180591620717411303424", True, ["1180591620717411303424", "[1073741824, 1099511627776] __integer_multiply__"]),
    "big1": ("1180591620717411303425", True, ["[1180591620717411303424, 1] __integer_add__"]),
    "bin12": ("0x0102", True, ["0x0102", "[0x01, 0x02] __binary_concat__", "[0x010203, 0, 2] __binary_slice__", "%m.b",
                               "@msg:'bin:0x0102", "[[0x01, 0x02] __binary_concat__, 7] .0"]),
    "bin1": ("0x01", True, ["0x01", "[0x0102, 0, 1] __binary_slice__"]),
    "bin0": ("0x", True, ["0x", "[0x, 0x] __binary_concat__", "[0x0102, 0, 0] __binary_slice__"]),
    "nil": ("[]", True, ["[]"]),
    "ok": ("Ok", True, ["Ok"]),
    "pair12": ("[1, 2]", True, ["[1, 2]", "1 [~, 2]", "[...[1, 2]]", "[[0, 1] __integer_add__, 2]"]),
    "pair21": ("[2, 1]", True, ["[2, 1]"]),
    "point": ("Point[x: 1, y: 2]", True, ["Point[x: 1, y: 2]", "Point[...[x: 1, y: 2]]", "Point[...Point[x: 1, y: 9], y: 2]", "2 mkp",
                                         "%m.p", "@msg:Point[x: 'int, y: 'int]:Point[x: 1, y: 2]", "[x: 1, y: 2] Point[...]"]),
    "point13": ("Point[x: 1, y: 3]", True, ["Point[x: 1, y: 3]", "3 mkp"]),
    "xy": ("[x: 1, y: 2]", True, ["[x: 1, y: 2]", "[...Point[x: 1, y: 2]]", "%m.q"]),
    "pointpos": ("Point[1, 2]", True, ["Point[1, 2]", "Point[...[1, 2]]"]),
    "str": ("\"hi\"", True, ["\"hi\"", "Str[0x6869]", "%m.s", "\"h\" =h0, \"{h0}i\"", "Str[[0x68, 0x69] __binary_concat__]"]),
    "nestA": ("A[b: [0x0102, 5]]", True, ["A[b: [0x0102, 5]]", "A[b: [[0x01, 0x02] __binary_concat__, [2, 3] __integer_add__]]", "%m.nest"]),
    "nestB": ("B[b: [0x0102, 5]]", True, ["B[b: [0x0102, 5]]"]),
    # the same labels in the same relative order but on DIFFERENT positions (seeded change C13-1: the shape key
    # of a tuple recorded which labels are present, not where they sit)
    "mixA": ("[x: 5, 7]", False, ["[x: 5, 7]", "[...[x: 5], 7]", "[x: [2, 3] __integer_add__, 7]"]),
    "mixB": ("[5, x: 7]", False, ["[5, x: 7]", "[5, ...[x: 7]]"]),
    "pmixA": ("P[1, y: 2, 3]", False, ["P[1, y: 2, 3]", "P[1, ...[y: 2], 3]"]),
    "pmixB": ("P[1, 2, y: 3]", False, ["P[1, 2, y: 3]", "P[...[1, 2], y: 3]"]),
    "pmixC": ("P[y: 1, 2, 3]", False, ["P[y: 1, 2, 3]"]),
    "fn_inc": (None, False, ["&inc", "&inc idf"]),
    "clo1": (None, False, ["1 mkf", "[0, 1] __integer_add__ mkf"]),
    "clo2": (None, False, ["2 mkf"]),
    # closures of one definition whose captured value is equal but REPRESENTED differently: another heap slot, a
    # tuple inferred along another path (seeded change C13-2: captures were compared with the derived PartialEq,
    # i.e. by heap slot index and raw tuple id)
    "clob12": (None, False, ["0x0102 mkb", "[0x01, 0x02] __binary_concat__ mkb", "[0x010203, 0, 2] __binary_slice__ mkb", "%m.b mkb"]),
    "clob1": (None, False, ["0x01 mkb", "[0x0102, 0, 1] __binary_slice__ mkb"]),
    "clot12": (None, False, ["Point[x: 1, y: 2] mkt", "2 mkp mkt", "Point[...[x: 1, y: 2]] mkt", "%m.p mkt"]),
    "clot13": (None, False, ["Point[x: 1, y: 3] mkt", "3 mkp mkt"]),
}
HISTORY = ["Point[x: 0x01, y: 0x02], Pair[a: 1, b: 2], [x: 9, y: 9]", "zz = #'bin { [~, 0x0102] __binary_concat__ }, 0x01 zz"]


def path_steps(path, var):
    """steps that bind `var` to the value built along `path`"""
    if path.startswith("@msg:"):
        _, ty, lit = path.split(":", 2)
        return ["e_%s = @#{ !#%s }" % (var, ty), "%s e_%s" % (lit, var), "%s = !e_%s" % (var, var)]
    if " =h0, " in path:
        pre, rest = path.split(", ", 1)
        return [pre, "%s = %s" % (var, rest)]
    return ["%s = %s" % (var, path)]


def parts(pa, pb, lit_b, use_union):
    """(alias declarations, prelude steps, steps binding a, steps binding b, verdict steps)"""
    lit = "{ &a =%s }" % lit_b if lit_b else "Na"
    if use_union:
        v = ["eqf = #['u, 'u] { =[p, q], [{ &p =&q }, { [&p, &q] =[z, z] }] }", "w = [&a, &b] eqf",
             "[&a, &b, w.0, w.1, %s]" % lit]
    else:
        v = ["[&a, &b, { &a =&b }, { [&a, &b] =[z, z] }, %s]" % lit]
    return (UNION + "\n") if use_union else "", [PRELUDE], path_steps(pa, "a"), path_steps(pb, "b"), v


def program(pa, pb, lit_b, use_union):
    al, pre, sa, sb, v = parts(pa, pb, lit_b, use_union)
    return al + ", ".join(pre + sa + sb + v)


def session(pa, pb, lit_b, use_union):
    # a on one REPL line, b on the next (two separately compiled and merged programs), the verdicts on a third
    al, pre, sa, sb, v = parts(pa, pb, lit_b, use_union)
    return [al + ", ".join(pre + sa), ", ".join(sb), ", ".join(v)]


def verdict(v):
    if v == {"k": "nil"}:
        return "nil"
    if v.get("k") == "tup" and v.get("name") == "Ok":
        return "Ok"
    return "na"


def run(prop, tier):
    check = Check(prop, tier)
    rnd = random.Random(common.seed())
    names = list(VALUES)
    cases = []
    for i, va in enumerate(names):
        for vb in names[i:]:
            la, ua, pas = VALUES[va]
            lb, ub, pbs = VALUES[vb]
            same = va == vb
            pairs = list(itertools.product(pas, pbs))
            if not same:
                pairs = rnd.sample(pairs, min(len(pairs), 2 if tier == "quick" else 6))
            for pa, pb in pairs:
                for use_union in ((False, True) if (ua and ub) else (False,)):
                    if same and tier == "quick":
                        modes = ("program", rnd.choice(["session", "history"]))
                    elif same or rnd.random() < 0.3:
                        modes = ("program", "session", "history")
                    else:
                        modes = ("program",)
                    # ... and with the comparison executed while a MODULE body is evaluated (the synchronous executor
                    # of import resolution, another code path than a worker: seeded change C13-3 shifted its table of
                    # canonical tuple shapes by two); processes cannot run there
                    if "@msg:" not in pa + pb and (tier != "quick" or rnd.random() < (0.6 if same else 0.15)):
                        modes = modes + ("module",)
                    for mode in modes:
                        cases.append((va, vb, pa, pb, lb, use_union, mode, same))
    if tier == "quick" and len(cases) > 1500:
        keep = [c for c in cases if c[7]]
        rest = [c for c in cases if not c[7]]
        cases = keep + rnd.sample(rest, min(len(rest), 500))        # every same-value pair of paths is kept
    reqs = []
    for n, (va, vb, pa, pb, lb, uu, mode, same) in enumerate(cases):
        src = program(pa, pb, lb, uu)
        cid = "e%d" % n
        if mode == "program":
            reqs.append({"id": cid, "src": src, "modules": MODULES})
        elif mode == "history":
            reqs.append({"id": cid, "lines": HISTORY + [src], "modules": MODULES})
        elif mode == "module":
            reqs.append({"id": cid, "src": "%cmp", "modules": dict(MODULES, cmp=src)})
        else:
            reqs.append({"id": cid, "lines": session(pa, pb, lb, uu), "modules": MODULES})
    outs = {}
    for i in range(0, len(reqs), 300):
        outs.update(common.qrun(reqs[i:i + 300], timeout=3000))
    tf = os.path.join(WORK, "eq_trace_%d.ndjson" % os.getpid())
    nrec, rejected, errors = 0, 0, []
    byid = {}
    with open(tf, "w") as f:
        for n, c in enumerate(cases):
            cid = "e%d" % n
            o = outs.get(cid)
            if o is None:
                continue
            last = o["outcomes"][-1]
            if any(x["t"] == "rejected" for x in o["outcomes"]):
                rejected += 1
                continue
            if last["t"] != "value" or last["v"].get("k") != "tup" or len(last["v"].get("fs", [])) != 5:
                errors.append((cid, last))
                continue
            fs = last["v"]["fs"]
            rec = {"id": cid, "a": fs[0], "b": fs[1], "same": c[7],
                   "verdicts": {"pin": verdict(fs[2]), "repeat": verdict(fs[3]), "literal": verdict(fs[4]) if c[4] else "na"}}
            byid[cid] = (c, reqs[n])
            f.write(json.dumps(rec) + "\n")
            nrec += 1
    res = tlc("EqualityTrace", "EqualityTrace.cfg", env={"EQ_TRACE": tf}, workers=1, timeout=3000)
    check.add_tlc("judge:EqualityTrace (+ laws of Equality.tla as ASSUME)", res)
    if "INCOMPLETE" in res.out or (not res.ok and "MISMATCH|" not in res.out):
        raise ToolError("EqualityTrace did not consume the records: " + res.out[-1500:])
    check.cov["traces_validated_against_impl"] = nrec
    check.cov["evaluations"] = nrec
    check.cov["rejected_by_compiler"] = rejected
    check.cov["distinct_nontrivial"] = len({(c[2], c[3]) for cid, (c, _) in byid.items() if c[2] != c[3]})
    check.cov["same_value_pairs"] = sum(1 for cid, (c, _) in byid.items() if c[7])
    check.cov["per_mode"] = {m: sum(1 for cid, (c, _) in byid.items() if c[6] == m) for m in ("program", "session", "history", "module")}
    check.cov["rule"] = ("one evaluation = one pair of construction paths (of the same or of different abstract values) with the verdicts "
                         "of pin / repeated binder / literal match, directly or through a union-typed function, as one program, across "
                         "REPL lines, or after other programs were merged; non-trivial = the two paths differ")
    for cid in list(byid)[:3]:
        check.sample({"program": byid[cid][1].get("src") or byid[cid][1].get("lines"), "outcome": outs[cid]["outcomes"][-1]})
    seen = set()
    for cid, last in errors:
        c = cases[int(cid[1:])]
        key = "error:%s|%s" % (c[2], c[3])
        if key not in seen:
            seen.add(key)
            check.violation({"property": prop, "rule": "VerdictIsStructural", "request": reqs[int(cid[1:])], "outcome": last},
                            name="Error", key=key, what="the comparison program ended in %s" % json.dumps(last)[:200])
    for m in re.finditer(r'^"MISMATCH\|([^|]*)\|(\w+)\|(.*)"$', res.out, re.M):
        cid, rule, detail = m.group(1), m.group(2), m.group(3)
        c, req = byid.get(cid, (None, None))
        key = "%s:%s|%s" % (rule, c[2] if c else cid, c[3] if c else "")
        if key in seen:
            continue
        seen.add(key)
        check.violation({"property": prop, "rule": rule, "request": req, "detail": detail[:1500]}, name=rule, key=key,
                        what="%s: %s vs %s (%s): %s" % (rule, c[2] if c else "?", c[3] if c else "?", c[6] if c else "", detail[:300]))
    os.remove(tf)
    # the refs clause: the runtime engine's RefsUnique families, under every placement (same evidence file)
    check.cov["equality_part"] = {k: check.cov[k] for k in ("traces_validated_against_impl", "evaluations", "distinct_nontrivial")}
    return runtime.run("C13", tier, check=check)


def replay(prop, path):
    r = json.load(open(path))
    out = common.qrun([dict(r["request"], id="replay")])
    print(json.dumps(out)[:3000])
    return 0
