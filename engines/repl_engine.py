"""C11 — REPL evaluation is equivalent to evaluating the lines as one program.

spec/Repl.tla is the session machine; TLC generates line histories over a pool of lines (simulation
for histories, exhaustive enumeration for the ways of splitting a program into lines); every history
is replayed into the real `Repl` (harness `replrun`: per-line outcome, variable listing and
read-back of every variable) and, line by line, into the real compiler+VM as ONE program made of the
accepted lines so far (harness `qrun`); spec/ReplTrace.tla judges the recorded sessions:
LineEqualsProgramStep, EarlierBindingsKept, RejectedLineLeavesSession, VariableEqualsProgramBinding,
SessionAlive.
"""
import json, os, re, random
import common
from common import Check, tlc, WORK, ToolError

# the line pool: (source, names the line (re)binds)
POOL = [
    ("x = 5", ["x"]),
    ("y = [x, 1] __integer_add__", ["y"]),
    ("x = [x, 10]", ["x"]),
    ("[a, b] = [1, 0x02]", ["a", "b"]),
    ("'p = Point[x: 'int, y: 'int]", []),
    ("q = Point[x: 1, y: 2]", ["q"]),
    ("f = #'int { [~, x] __integer_add__ }", ["f"]),
    ("3 f", []),
    ("g = #'p { .x }", ["g"]),
    ("q g", []),
    ("[~, 1]", []),
    ("{ | =[u, v] => v | 7 }", []),
    ("this does not parse (", []),
    ("z = undefined_name", ["z"]),
    ("[]", []),
    ("x =6", []),
    ("k = [0x01, 0x02] __binary_concat__", ["k"]),
    ("[k, k]", []),
    ("m = %m, [1, 2] m.add", ["m"]),
    ("x = 1, w = 2", ["x", "w"]),
    ("w", []),
    ("s = \"hi\"", ["s"]),
    ("\"a {s}\"", []),
    ("h = #{ [x, x] }", ["h"]),
    ("h", []),
    ("Point[x: a, y: 3] =Point[x: 1, y: n], n", ["n"]),
    # a line that reaches an import and is THEN rejected by the compiler, and later uses of the same module
    ("[1, 2] %m.add undefined_name", []),
    ("[3, %m.one] %m.add", []),
    ("[4, 2] %num.add undefined_name", []),
    ("[4, 2] %num.add", []),
    ("'q = %m.nope, 1", []),
    # a process spawned by one line and used by later ones; its receive type admits several concrete tuple types,
    # and the message is a literal whose concrete type no earlier line mentioned (seeded change C11-3: workers got
    # only the parameter-compatibility rows of the functions a merge ADDED, so the rows of functions from earlier
    # lines went stale and the process never took the message)
    ("p = @#{ !#['int | 'bin, 'int] }", ["p"]),
    ("[1, 42] p", []),
    ("! [p, 100]", []),
]
MODULES = {"m": "[add: #['int, 'int] { __integer_add__ }, one: 1]"}

# programs whose every split into lines is enumerated (steps are joined by ", " inside a line)
SPLIT_PROGRAMS = [
    ["x = 5", "y = [x, 1] __integer_add__", "f = #'int { [~, y] __integer_add__ }", "3 f", "[~, x]"],
    ["'p = Point[x: 'int, y: 'int]", "q = Point[x: 1, y: 2]", "g = #'p { .y }", "q g"],
    ["k = [0x01, 0x02] __binary_concat__", "t = [k, k]", "k = 0", "t", "[~, k]"],
    ["[a, b] = [1, 2]", "a =1", "[b, ~]", "c = ~", "[a, c]"],
    ["x = 1", "{ x = 2, x }", "[~, x]", "x = [~, 3]", "x"],
    # a process spawned, sent to and awaited by different lines (see the pool)
    ["p = @#{ !#['int | 'bin, 'int] }", "[1, 42] p", "! [p, 100]"],
    ["w = @#{ !#(A['int] | B['bin, 'int]) { | =A[n] => n | =B[_, n] => [n] } }", "k = 5", "B[0x01, k] w", "[! [w, 100], k]"],
]


def canon(v):
    """function indices differ between the session and the one program: compare captures only"""
    if isinstance(v, dict):
        if v.get("k") == "fn":
            return {"k": "fn", "caps": [canon(c) for c in v.get("caps", [])]}
        return {k: canon(x) for k, x in v.items() if k != "dangling"}
    if isinstance(v, list):
        return [canon(x) for x in v]
    return v


def canon_outcome(o):
    if o["t"] == "value":
        return {"t": "value", "v": canon(o["v"])}
    if o["t"] == "rejected":
        return {"t": "rejected"}
    if o["t"] == "error":
        return {"t": "error", "e": o["e"]}
    return {"t": o["t"]}


def histories_from_tlc(check, n, seed):
    cfg = os.path.join(WORK, "MC_Repl_%d.cfg" % os.getpid())
    open(cfg, "w").write(re.sub(r"NLines = \d+", "NLines = %d" % len(POOL), open(os.path.join(common.SPEC, "MC_Repl.cfg")).read()))
    res = tlc("Repl", cfg, workers=1, timeout=300, simulate="num=%d" % (n * 2), depth=14, seed_=seed)
    os.remove(cfg)
    check.add_tlc("gen:Repl(simulate)", res)
    hs = []
    for m in re.finditer(r'<<"CASE", "(\[[\d,]*\])">>', res.out):
        h = json.loads(m.group(1))
        if h not in hs:
            hs.append(h)
    return hs[:n]


def pairs_from_tlc(check):
    cfg = os.path.join(WORK, "MC_Repl_pairs_%d.cfg" % os.getpid())
    txt = open(os.path.join(common.SPEC, "MC_Repl.cfg")).read()
    txt = re.sub(r"NLines = \d+", "NLines = %d" % len(POOL), txt)
    txt = re.sub(r"MaxLen = \d+", "MaxLen = 2", txt)
    open(cfg, "w").write(txt)
    res = tlc("Repl", cfg, workers=4, timeout=300)
    os.remove(cfg)
    check.add_tlc("gen:Repl(pairs, exhaustive)", res)
    return [h for h in (json.loads(m.group(1)) for m in re.finditer(r'<<"CASE", "(\[[\d,]*\])">>', res.out)) if len(h) == 2]


def splits(prog):
    """all ways of splitting a program into lines (cut positions between steps)"""
    n = len(prog)
    out = []
    for mask in range(1 << (n - 1)):
        lines, cur = [], [prog[0]]
        for i in range(1, n):
            if mask >> (i - 1) & 1:
                lines.append(cur)
                cur = []
            cur.append(prog[i])
        lines.append(cur)
        out.append(lines)
    return out


def run(prop, tier):
    check = Check(prop, tier)
    seed = common.seed()
    n = 300 if tier == "quick" else 8000
    sessions = []   # (id, [(src, binds)])
    for hi, h in enumerate(histories_from_tlc(check, n, seed)):
        sessions.append(("h%d" % hi, [POOL[l - 1] for l in h]))
    # every ordered PAIR of pool lines, enumerated exhaustively by TLC (pairwise interaction coverage:
    # e.g. a rejected line that reached an import, followed by a line importing the same module)
    for hi, h in enumerate(pairs_from_tlc(check)):
        sessions.append(("pair%d" % hi, [POOL[l - 1] for l in h]))
    for pi, prog in enumerate(SPLIT_PROGRAMS):
        for si, sp in enumerate(splits(prog)):
            lines = []
            for grp in sp:
                binds = sorted({m.group(1) for st in grp for m in [re.match(r"^(\w+) = ", st)] if m})
                lines.append((", ".join(grp), binds))
            sessions.append(("split%d_%d" % (pi, si), lines))
    # 1. the real REPL
    reqs = [{"id": sid, "lines": [l[0] for l in lines], "modules": MODULES} for sid, lines in sessions]
    p = common.run_bin("replrun", stdin="\n".join(json.dumps(r) for r in reqs) + "\n", timeout=3000)
    repl = {}
    for line in p.stdout.splitlines():
        if line.startswith("{"):
            r = json.loads(line)
            repl[r["id"]] = r
    # 1b. the same sessions with ONE rejected line removed: a rejected line must be invisible to every other line
    freqs = []
    for sid, lines in sessions:
        r = repl.get(sid)
        if r is None:
            continue
        for k, x in enumerate(r["lines"]):
            if x["outcome"]["t"] == "rejected" and len(lines) > 1:
                freqs.append({"id": "%s~%d" % (sid, k), "lines": [l[0] for i, l in enumerate(lines) if i != k], "modules": MODULES})
    filtered = {}
    for i in range(0, len(freqs), 400):
        p2 = common.run_bin("replrun", stdin="\n".join(json.dumps(r) for r in freqs[i:i + 400]) + "\n", timeout=3000)
        for line in p2.stdout.splitlines():
            if line.startswith("{"):
                r = json.loads(line)
                filtered[r["id"]] = r
    # 2. the one-program reading: accepted lines so far joined by newlines
    progs, plan = [], {}
    for sid, lines in sessions:
        r = repl.get(sid)
        if r is None:
            continue
        acc, plan[sid] = [], []
        for li, (src, binds) in enumerate(lines):
            if li >= len(r["lines"]):
                break
            o = r["lines"][li]["outcome"]
            if o["t"] == "rejected":
                plan[sid].append(None)
                continue
            acc.append(src)
            pid = "%s/%d" % (sid, li)
            progs.append({"id": pid, "src": "\n".join(acc), "modules": MODULES})
            plan[sid].append(pid)
        final_vars = r["lines"][-1]["vars"] if r["lines"] else []
        for name, _ty, _val in final_vars:
            progs.append({"id": "%s/&%s" % (sid, name), "src": "\n".join(acc + ["&" + name]), "modules": MODULES})
    outs = {}
    for i in range(0, len(progs), 400):
        outs.update(common.qrun(progs[i:i + 400], timeout=3000))
    # 3. records for the TLC judge
    tf = os.path.join(WORK, "repl_trace_%d.ndjson" % os.getpid())
    nrec = 0
    byid = {}
    with open(tf, "w") as f:
        for sid, lines in sessions:
            r = repl.get(sid)
            if r is None:
                continue
            recs, dead = [], False
            for li, (src, binds) in enumerate(lines):
                if li >= len(r["lines"]):
                    recs.append({"src": src, "repl": {"t": "crash"}, "vars": [], "prog": {"t": "none"}, "rebinds": binds})
                    break
                rl = r["lines"][li]
                pid = plan[sid][li]
                prog = canon_outcome(outs[pid]["outcomes"][0]) if pid and pid in outs else {"t": "none"}
                ro = canon_outcome(rl["outcome"])
                if ro["t"] == "nocode":
                    # a line that only declares types: the one program's value is that of the previous step
                    prog = ro
                recs.append({"src": src, "repl": ro, "vars": [[n_, t_, canon(v_)] for n_, t_, v_ in rl["vars"]],
                             "prog": prog, "rebinds": binds})
                if ro["t"] == "value" and ro["v"] == {"k": "nil"} or ro["t"] == "error":
                    dead = True
            final_vars = r["lines"][-1]["vars"] if r["lines"] else []
            probes = []
            for name, _ty, val in final_vars:
                o = outs.get("%s/&%s" % (sid, name))
                if o:
                    probes.append({"name": name, "repl": canon(val), "prog": canon_outcome(o["outcomes"][0])})
            # for every rejected line k: the other lines here, and in the session without line k
            removals = []
            for k, l in enumerate(recs):
                fid = "%s~%d" % (sid, k)
                if l["repl"]["t"] == "rejected" and fid in filtered and len(r["lines"]) == len(lines):
                    here = [[x["repl"], x["vars"]] for i, x in enumerate(recs) if i != k]
                    there = [[canon_outcome(x["outcome"]), [[n_, t_, canon(v_)] for n_, t_, v_ in x["vars"]]]
                             for x in filtered[fid]["lines"]]
                    removals.append({"k": k + 1, "here": here, "there": there})
            rec = {"id": sid, "lines": recs, "probes": probes, "dead": dead, "crashes": r["crashes"], "removals": removals}
            byid[sid] = rec
            f.write(json.dumps(rec) + "\n")
            nrec += 1
    res = tlc("ReplTrace", "ReplTrace.cfg", env={"REPL_TRACE": tf}, workers=1, timeout=3000)
    check.add_tlc("judge:ReplTrace", res)
    if "INCOMPLETE" in res.out or (not res.ok and "MISMATCH|" not in res.out):
        raise ToolError("ReplTrace did not consume the records: " + res.out[-1200:])
    check.cov["traces_validated_against_impl"] = nrec
    check.cov["evaluations"] = nrec
    check.cov["one_program_runs"] = len(progs)
    check.cov["distinct_nontrivial"] = len({tuple(l[0] for l in lines) for sid, lines in sessions
                                            if len(lines) >= 2 and sid in repl and
                                            sum(1 for x in repl[sid]["lines"] if x["outcome"]["t"] == "value") >= 2})
    check.cov["rule"] = ("one evaluation = one REPL session (history generated by TLC from the %d-line pool, or one of all splits of a "
                         "%d-program set into lines) replayed into the real Repl and, per accepted prefix, into the real compiler+VM as one "
                         "program; non-trivial = at least two lines produced values" % (len(POOL), len(SPLIT_PROGRAMS)))
    check.cov["sessions_with_rejected_line"] = sum(1 for r in byid.values() if any(l["repl"]["t"] == "rejected" for l in r["lines"]))
    check.cov["sessions_dead_after_nil"] = sum(1 for r in byid.values() if r["dead"])
    for sid in list(byid)[:3]:
        check.sample({"session": [l["src"] for l in byid[sid]["lines"]],
                      "values": [l["repl"] for l in byid[sid]["lines"]]})
    seen = set()
    for m in re.finditer(r'^"MISMATCH\|([^|]*)\|(\d+)\|(\w+)\|(.*)"$', res.out, re.M):
        sid, line, rule, detail = m.group(1), int(m.group(2)), m.group(3), m.group(4)
        rec = byid.get(sid, {})
        src = rec.get("lines", [{}] * (line + 1))[line - 1].get("src", "") if line else ""
        key = "%s:%s" % (rule, src)
        if key in seen:
            continue
        seen.add(key)
        check.violation({"property": prop, "rule": rule, "session": [l["src"] for l in rec.get("lines", [])], "line": line,
                         "detail": detail[:1500], "modules": MODULES},
                        name=rule, key=key, what="%s in session %s line %d (%s): %s" % (rule, sid, line, src, detail[:300]))
    for r in byid.values():
        if r["crashes"]:
            key = "crash:" + r["crashes"][0][:60]
            if key not in seen:
                seen.add(key)
                check.violation({"property": prop, "rule": "SessionAlive", "session": [l["src"] for l in r["lines"]],
                                 "crashes": r["crashes"]}, name="SessionAlive", key=key,
                                what="a worker crashed during the session: %s" % r["crashes"][0][:200])
    os.remove(tf)
    check.assumptions += ["the one-program reading is the real compiler+VM on the joined accepted lines (C02 judges that side against SeqLang)",
                          "function values are compared by their captured values only"]
    return check.finish()


def replay(prop, path):
    r = json.load(open(path))
    p = common.run_bin("replrun", stdin=json.dumps({"id": "replay", "lines": r["session"], "modules": r.get("modules", {})}) + "\n")
    print(p.stdout[:2000])
    print("re-run `./check C11` to re-judge; replay prints the session as observed now")
    return 0
