#!/usr/bin/env python3
"""Self-test of the C07/C16 engine WITHOUT touching /repo.

1. Hand-corrupt bytecode images dumped from the real compiler (drop a Pop, change a Pick offset,
   change a Reset index, make a Jump overshoot, put a TailCall at height 2, read an undefined
   local, point a Constant / Tuple / Function index outside its table, un-define a local on one
   path only) and show that TLC/VMStack.tla reports each with program, form, function and pc.
2. Corrupt a real VM trace (one stack height) and a copy of the spec's stack-effect table
   (Store no longer pops): VMTrace.tla reports model drift in both cases; a trace that ends in
   StackUnderflow violates RuntimeWellFormed.
3. Fake a frame / heap growth between N and 50N: VMPeaks.tla reports it.
4. replay() of a stored corrupted image returns 1, of the clean image 0.

Usage: python3 engines/vmstack_selftest.py        (exit 0 = every corruption was detected)
"""
import copy, json, os, shutil, sys

HERE = os.path.dirname(os.path.abspath(__file__))
sys.path.insert(0, os.path.join(os.path.dirname(HERE), "lib"))
sys.path.insert(0, HERE)
import common
import vmstack

SRC = ("f = #['int, 'int] { | =[0, acc] => acc | =[n, acc] => [[n, 1] __integer_subtract__, "
       "[acc, n] __integer_add__] ^ }, [5, 0] f")
SRC2 = "x = 3, y = x { | =0 => 10 | =n => [n, 1] __integer_add__ }, P[x, y] { | =P[0, b] => b | =P[a, b] => [a, b] __integer_multiply__ }"


def delete_at(code, k):
    new = []
    for pc, i in enumerate(code):
        if pc == k:
            continue
        j = dict(i)
        if i["op"] in ("Jump", "JumpIf"):
            t = pc + i["a"] + 1
            npc = pc if pc < k else pc - 1
            nt = t if t <= k else t - 1
            j["a"] = nt - npc - 1
        new.append(j)
    return new


def insert_at(code, k, ins):
    new = []
    for pc, i in enumerate(code):
        if pc == k:
            new.append(dict(ins))
        j = dict(i)
        if i["op"] in ("Jump", "JumpIf"):
            t = pc + i["a"] + 1
            npc = pc if pc < k else pc + 1
            nt = t if t <= k else t + 1      # a jump TO k lands on the inserted instruction
            j["a"] = nt - npc - 1
        new.append(j)
    return new


def reachable(code):
    """pcs control can reach from pc 0 (to tell dead code apart in the expectations)"""
    seen, todo = set(), [0]
    while todo:
        pc = todo.pop()
        if pc in seen or pc < 0 or pc >= len(code):
            continue
        seen.add(pc)
        i = code[pc]
        if i["op"] == "Jump":
            todo.append(pc + i["a"] + 1)
        elif i["op"] == "JumpIf":
            todo += [pc + 1, pc + i["a"] + 1]
        elif i["op"] != "TailCall":
            todo.append(pc + 1)
    return seen


def find(img, op, pred=lambda i: True, which=0):
    """(function position, pc) of the which-th instruction `op` satisfying pred"""
    n = 0
    for f, fn in enumerate(img["fns"]):
        for pc, i in enumerate(fn["code"]):
            if i["op"] == op and pred(i):
                if n == which:
                    return f, pc
                n += 1
    raise KeyError(op)


def mutations(img):
    """[(name, expected rules, mutated image)]"""
    out = []

    def mut(name, expect, fn):
        m = copy.deepcopy(img)
        fn(m)
        m["id"] = "%s<%s>" % (img["id"], name)
        out.append((name, expect, m))

    def drop_pop(m):
        f, pc = find(m, "Pop", which=2)
        m["fns"][f]["code"] = delete_at(m["fns"][f]["code"], pc)
    mut("drop a Pop", {"join_height", "exit_height", "tailcall_height", "underflow"}, drop_pop)

    def pick(m):
        f, pc = find(m, "Pick")
        m["fns"][f]["code"][pc]["a"] += 6
    mut("Pick offset + 6", {"underflow"}, pick)

    def reset(m):
        f, pc = find(m, "Reset")
        m["fns"][f]["code"][pc]["a"] += 9
    mut("Reset index + 9", {"reset_range"}, reset)

    def jump(m):
        f, pc = find(m, "Jump")
        m["fns"][f]["code"][pc]["a"] = len(m["fns"][f]["code"]) + 5
    mut("Jump overshoots the function", {"jump_range"}, jump)

    def jump_back(m):
        f, pc = find(m, "JumpIf")
        m["fns"][f]["code"][pc]["a"] = -pc - 3
    mut("JumpIf to a negative pc", {"jump_range"}, jump_back)

    def tail2(m):
        f, pc = find(m, "TailCall", lambda i: i["a"] == 1)
        m["fns"][f]["code"] = insert_at(m["fns"][f]["code"], pc, {"op": "Duplicate", "a": 0})
    mut("TailCall(true) at height 2 (Duplicate inserted)", {"tailcall_height"}, tail2)

    def tail_kind(m):
        f, pc = find(m, "TailCall", lambda i: i["a"] == 1)
        m["fns"][f]["code"][pc]["a"] = 0
    mut("TailCall(true) -> TailCall(false) at height 1", {"underflow", "tailcall_height"}, tail_kind)

    def load(m):
        f, pc = find(m, "Load", which=1)
        m["fns"][f]["code"][pc]["a"] += 40
    mut("Load of a slot never stored", {"load_undefined"}, load)

    def const(m):
        f, pc = find(m, "Constant")
        m["fns"][f]["code"][pc]["a"] = m["nconst"]
    mut("Constant index = table size", {"index_range"}, const)

    def tup(m):
        f, pc = find(m, "Tuple")
        m["fns"][f]["code"][pc]["a"] = len(m["arity"]) + 3
    mut("Tuple id outside the table", {"index_range"}, tup)

    def func(m):
        f, pc = find(m, "Function")
        m["fns"][f]["code"][pc]["a"] = len(m["caps"])
    mut("Function index = table size", {"index_range"}, func)

    def builtin(m):
        f, pc = find(m, "Builtin")
        m["fns"][f]["code"][pc]["a"] = m["nbuiltins"] + 1
    mut("Builtin index outside the table", {"index_range"}, builtin)

    def rot(m):
        f, pc = find(m, "Rotate")
        m["fns"][f]["code"][pc]["a"] = 0
    mut("Rotate(0)", {"operand"}, rot)

    def extra(m):
        f, pc = find(m, "Call")
        # a Constant appended after the last instruction (jumps to the old exit land on it):
        # two results at the exit
        m["fns"][f]["code"].append({"op": "Constant", "a": 0})
    mut("extra Constant before the exit (two results)", {"exit_height"}, extra)

    def tid(m):
        m["tids"][0] = m["ntypes"] + 2
    mut("function type id outside the types table", {"type_index"}, tid)
    return out


def one_path_undefined(img):
    """Store -> Pop on ONE path: some later Load must become undefined on that path only.
    Try the Stores in turn until TLC reports load_undefined at a pc reached by >= 2 paths."""
    cands = []
    for f, fn in enumerate(img["fns"]):
        for pc, i in enumerate(fn["code"]):
            if i["op"] == "Store" and pc > 0:
                m = copy.deepcopy(img)
                m["fns"][f]["code"][pc] = {"op": "Pop", "a": 0}
                m["id"] = "%s<Store->Pop f%d pc%d>" % (img["id"], f, pc)
                cands.append(m)
    return cands


def main():
    common.build_harness()
    os.makedirs(vmstack.WORKDIR, exist_ok=True)
    check = common.Check("C07", "selftest")
    failures = []
    progs = [{"id": "selftest:tail", "lines": [SRC]}, {"id": "selftest:match", "lines": [SRC2]}]
    dumps, _ = vmstack.run_tool_parallel("bcdump", progs, jobs=1)
    imgs = {(d["id"], d["form"]): d for d in dumps if d.get("status") == "ok"}
    base = imgs[("selftest:tail", "compiled")]
    base2 = imgs[("selftest:match", "compiled")]
    clean, _ = vmstack.vmstack_check(check, [base, base2], "st0", procs=1)
    print("clean images: %d violations (expected 0)" % len(clean))
    if clean:
        failures.append("clean image flagged: %r" % clean[:1])

    print("\n== 1. corrupted bytecode -> VMStack ==")
    muts = mutations(base)
    sviol, _ = vmstack.vmstack_check(check, [m for _, _, m in muts], "st1", procs=1)
    by = {}
    for v in sviol:
        by.setdefault(v["id"], []).append(v)
    for name, expect, m in muts:
        got = by.get(m["id"], [])
        rules = {v["rule"] for v in got}
        ok = bool(rules) and rules <= expect
        where = "; ".join("form=%s fn=%d pc=%d rule=%s(%s) h=%d l=%d" % (v["form"], v["fi"], v["pc"], v["rule"], v["invariant"], v["h"], v["l"]) for v in got)
        print("  %-55s %s  %s" % (name, "DETECTED" if ok else "MISSED  ", where or "(no violation reported)"))
        if not ok:
            failures.append("mutation %r: got %r, expected one of %r" % (name, rules, expect))
    # every Pop of the image dropped in turn: which clauses catch it
    pops, dead = [], 0
    for f, fn in enumerate(base2["fns"]):
        live = reachable(fn["code"])
        for pc, i in enumerate(fn["code"]):
            if i["op"] == "Pop" and pc not in live:
                dead += 1
            elif i["op"] == "Pop":
                m = copy.deepcopy(base2)
                m["fns"][f]["code"] = delete_at(m["fns"][f]["code"], pc)
                m["id"] = "%s<drop Pop f%d pc%d>" % (base2["id"], f, pc)
                pops.append(m)
    sviol, _ = vmstack.vmstack_check(check, pops, "st1b", procs=1)
    hist = {}
    for v in sviol:
        hist[v["rule"]] = hist.get(v["rule"], 0) + 1
    caught = len({v["id"] for v in sviol})
    print("  %-55s %s  %d of %d caught: %s (%d more Pops sit in unreachable code)" % (
          "each reachable Pop of an image dropped in turn",
          "DETECTED" if caught == len(pops) else "MISSED  ", caught, len(pops), json.dumps(hist, sort_keys=True), dead))
    if caught != len(pops) or "join_height" not in hist:
        failures.append("dropping Pops: %d of %d caught, rules %r" % (caught, len(pops), hist))
    # definedness on all paths
    cands = one_path_undefined(base2)
    sviol, _ = vmstack.vmstack_check(check, cands, "st2", procs=1)
    lu = [v for v in sviol if v["rule"] == "load_undefined"]
    print("  %-55s %s  %d of %d single Store->Pop edits flagged (%s)" % (
        "Store -> Pop on one path (definedness = min over paths)", "DETECTED" if lu else "MISSED  ",
        len({v["id"] for v in sviol}), len(cands), ", ".join(sorted({v["rule"] for v in sviol}))))
    if not lu:
        failures.append("no Store->Pop edit produced load_undefined")

    print("\n== 2. trace validation ==")
    traces, _ = vmstack.run_tool_parallel("vmtrace", [{"id": "selftest:tail", "lines": [SRC], "keep": 5000}], jobs=1)
    tr = traces[0]
    v, d, n = vmstack.vmtrace_check(check, [tr], "st3", procs=1)
    print("  real trace (%d observations): drift=%d violations=%d (expected 0, 0)" % (n, len(d), len(v)))
    if d or v:
        failures.append("clean trace flagged")
    bad = copy.deepcopy(tr)
    bad["id"] = "selftest:tail<stack height + 1 at observation 40>"
    bad["obs"][40][2] += 1
    v, d, n = vmstack.vmtrace_check(check, [bad], "st4", procs=1)
    print("  one stack height changed in the trace:        %s %s" % ("DRIFT REPORTED" if d else "MISSED", json.dumps(d[:1])[:200]))
    if not d:
        failures.append("corrupted trace not reported")
    err = copy.deepcopy(tr)
    err["id"] = "selftest:tail<ends in StackUnderflow>"
    err["obs"] = err["obs"][:30]
    err["end"], err["err"] = "error", "StackUnderflow"
    v, d, n = vmstack.vmtrace_check(check, [err], "st5", procs=1)
    print("  run ending in StackUnderflow:                 %s %s" % ("VIOLATION" if v else "MISSED", json.dumps(v[:1])[:200]))
    if not v:
        failures.append("runtime error not reported")
    # a mis-transcribed stack effect in a COPY of the spec: the real trace must expose it
    alt = os.path.join(vmstack.WORKDIR, "selftest_spec")
    shutil.rmtree(alt, ignore_errors=True)
    os.makedirs(alt)
    for f in ("VMSem.tla", "VMTrace.tla", "VMTrace.cfg"):
        shutil.copy(os.path.join(common.SPEC, f), alt)
    sem = open(os.path.join(alt, "VMSem.tla")).read()
    assert "Store     |-> [needs |-> 1,   delta |-> -1]" in sem
    open(os.path.join(alt, "VMSem.tla"), "w").write(
        sem.replace("Store     |-> [needs |-> 1,   delta |-> -1]", "Store     |-> [needs |-> 1,   delta |-> 0]"))
    path = os.path.join(alt, "in.ndjson")
    with open(path, "w") as f:
        f.write(json.dumps(vmstack.to_tlc_trace(tr)) + "\n")
    res = common.tlc("VMTrace", "VMTrace.cfg", env={"VMTRACE_IN": path}, workers=2, timeout=300,
                     extra=["-continue"], cwd=alt)
    dr = vmstack.prints_of(res, "DRIFT")
    print("  spec copy with Store delta 0 instead of -1:   %s %s" % ("DRIFT REPORTED" if dr else "MISSED", json.dumps(dr[:1])[:200]))
    if not dr:
        failures.append("mis-transcribed stack effect not exposed by the real trace")

    print("\n== 3. peaks ==")
    c16 = common.Check("C16", "selftest")
    a = {"end": "value", "steps": 1000, "peak": {"frames": 2, "locals": 5, "stack": 3}, "heap": {"slots": 3}}
    b = {"end": "value", "steps": 50000, "peak": {"frames": 2, "locals": 5, "stack": 3}, "heap": {"slots": 3}}
    cases = [("equal", a, b, set()),
             ("frames grow", a, dict(b, peak={"frames": 1001, "locals": 5, "stack": 3}), {"frames_grow"}),
             ("locals grow", a, dict(b, peak={"frames": 2, "locals": 3005, "stack": 3}), {"locals_grow"}),
             ("stack grows", a, dict(b, peak={"frames": 2, "locals": 5, "stack": 1003}), {"stack_grows"}),
             ("heap grows", a, dict(b, heap={"slots": 1003}), {"heap_grows"}),
             ("large run dies", a, dict(b, end="error"), {"incomplete"})]
    pv = vmstack.peaks_check(c16, [(n, x, y) for n, x, y, _ in cases], "st6")
    for n, x, y, expect in cases:
        got = {v["rule"] for v in pv if v["id"] == n}
        print("  %-20s %s %s" % (n, "OK" if got == expect else "WRONG", sorted(got)))
        if got != expect:
            failures.append("peaks case %s: %r" % (n, got))

    print("\n== 4. replay ==")
    os.makedirs(os.path.join(common.REPLAYS, "tmp"), exist_ok=True)
    p_bad = os.path.join(common.REPLAYS, "tmp", "selftest_bad_image.json")
    p_ok = os.path.join(common.REPLAYS, "tmp", "selftest_clean_image.json")
    json.dump({"prop": "C07", "kind": "static", "program": progs[0], "image": muts[0][2]}, open(p_bad, "w"))
    json.dump({"prop": "C07", "kind": "static", "program": progs[0], "image": base}, open(p_ok, "w"))
    r1 = vmstack.replay("C07", p_bad)
    r0 = vmstack.replay("C07", p_ok)
    p_src = os.path.join(common.REPLAYS, "tmp", "selftest_clean_program.json")
    json.dump({"prop": "C07", "kind": "static", "program": progs[0]}, open(p_src, "w"))
    r2 = vmstack.replay("C07", p_src)
    print("  replay(corrupted image) = %d (expected 1); replay(clean image) = %d, replay(clean program) = %d (expected 0)" % (r1, r0, r2))
    if (r1, r0, r2) != (1, 0, 0):
        failures.append("replay results %r" % ((r1, r0, r2),))

    print()
    if failures:
        for f in failures:
            print("SELFTEST-FAIL: " + f)
        return 1
    print("vmstack selftest: every corruption was detected")
    return 0


if __name__ == "__main__":
    sys.exit(main())
