#!/usr/bin/env python3
"""Mutation self-test of the C19 engine (does not touch /repo).

The text of /repo/std/dict.qv is copied, one realistic single-site defect is applied per mutant,
and the result is served to the programs as the in-memory module `dictm` (DICT_MODULE /
DICT_MODULE_SRC mechanism of dict_engine).  Expected: the unmutated copy passes (exit 0), every
mutant is reported (exit 1 with a VIOLATION line) and the stored replay still fails on replay.
Evidence and replays of these runs go to /verif/work/dict_selftest/, not to the real folders.

usage: python3 engines/dict_selftest.py [quick|thorough] [mutant ...]
"""
import io, json, os, sys, time, contextlib

HERE = os.path.dirname(os.path.abspath(__file__))
sys.path.insert(0, os.path.join(os.path.dirname(HERE), "lib"))
sys.path.insert(0, HERE)
import common
import dict_engine

# name, description, old text (must occur exactly once), new text
MUTANTS = [
    ("get_shift", "get descends with shift+4 instead of shift+5 (wrong fragment at the next level)",
     "          [shift, 5] %num.add [child, key, hash, ~] ^",
     "          [shift, 4] %num.add [child, key, hash, ~] ^"),
    ("bucket_replace", "collision bucket keeps the old value when an existing key is put again",
     "      | k =&key => Cons[[key, value], t] [acc, ~] revcat",
     "      | k =&key => Cons[[k, v], t] [acc, ~] revcat"),
    ("bucket_remove_stale", "remove leaves the entry in a Collision node",
     "      | k =&key => [acc, t] revcat\n      | Cons[[k, v], acc] [t, key, ~] ^",
     "      | k =&key => [acc, entries] revcat\n      | Cons[[k, v], acc] [t, key, ~] ^"),
    ("collision_count", "entries/count skip the first entry of every Collision node",
     "      | =Collision[_, ents] => [rest, [ents, acc] revcat] ^",
     "      | =Collision[_, ents] => ents { =Cons[_, t] => [rest, [t, acc] revcat] ^ | [rest, acc] ^ }"),
    ("entries_acc_lost", "entries restarts its accumulator at a Collision node (entries seen before it are lost)",
     "      | =Collision[_, ents] => [rest, [ents, acc] revcat] ^",
     "      | =Collision[_, ents] => [rest, [ents, Nil] revcat] ^"),
    ("bitmap_not_cleared", "remove_slot drops the child but leaves its bitmap bit set",
     "  [[bitmap, bit %int.not] %int.and, [children, idx, Nil] remove_at] collapse_node",
     "  [bitmap, [children, idx, Nil] remove_at] collapse_node"),
    ("hoist_node", "collapse_node hoists a lone Node child (loses a trie level)",
     "      | =Node[_, _] => Node[bitmap, children]\n      | =leaf => leaf",
     "      | =Node[_, _] => only\n      | =leaf => leaf"),
    ("split_node_order", "split_node orders the collision node and the new leaf the wrong way round",
     "        | [fc, fh] %num.lt? => Node[bitmap, Cons[cnode, Cons[Leaf[hash, key, value], Nil]]]",
     "        | [fc, fh] %num.gt? => Node[bitmap, Cons[cnode, Cons[Leaf[hash, key, value], Nil]]]"),
    ("collision_to_leaf", "a Collision node shrinking to one entry keeps the removed key's slot (wrong survivor)",
     "        | kept =Cons[[k, v], Nil] => Leaf[chash, k, v]",
     "        | kept =Cons[[k, v], Nil] => Leaf[chash, key, v]"),
    ("split_pair_order", "split_pair orders the two leaves the wrong way round",
     "            | [f1, f2] %num.lt? => Node[",
     "            | [f1, f2] %num.gt? => Node["),
    ("merge_side", "merge walks the entries of the left dict instead of the right one",
     "  merge: #<'v>['<'v>, '<'v>] { Cons[$1, Nil] [~, Nil] entries [&from, $0, ~] from },",
     "  merge: #<'v>['<'v>, '<'v>] { Cons[$0, Nil] [~, Nil] entries [&from, $0, ~] from },"),
]


def main(tier="quick", only=()):
    src = open("/repo/std/dict.qv").read()
    root = os.path.join(common.WORK, "dict_selftest")
    for d in ("src", "evidence", "replays"):
        os.makedirs(os.path.join(root, d), exist_ok=True)
    common.EVIDENCE = os.path.join(root, "evidence")
    common.REPLAYS = os.path.join(root, "replays")
    os.environ.setdefault("DICT_QUICK_HISTORIES", "150")
    common.build_harness()
    todo = [("unmutated", "verbatim copy of std/dict.qv", None, None)] + list(MUTANTS)
    if only:
        todo = [m for m in todo if m[0] in only]
    failures, rows = 0, []
    for name, desc, old, new in todo:
        text = src
        if old is not None:
            if src.count(old) != 1:
                print("SELFTEST-ERROR mutant %s: site occurs %d times in dict.qv (expected 1)" % (name, src.count(old)))
                failures += 1
                continue
            text = src.replace(old, new)
        path = os.path.join(root, "src", name + ".qv")
        with open(path, "w") as f:
            f.write(text)
        dict_engine.MODULE, dict_engine.MODULE_SRC = "dictm", path
        buf = io.StringIO()
        t0 = time.time()
        with contextlib.redirect_stdout(buf):
            rc = dict_engine.run("C19", tier)
        out = buf.getvalue()
        ev = json.load(open(os.path.join(common.EVIDENCE, "C19.json")))
        per = {c: v["mismatches"] for c, v in ev["coverage"]["per_collision_class"].items() if v["mismatches"]}
        replays = [l.split("replay=")[1].strip() for l in out.splitlines() if l.startswith("VIOLATION")]
        kinds = set()
        novalue = 0
        for rp in replays:
            o = json.load(open(rp))
            kinds.update(o.get("failed_checks") or [])
            novalue += isinstance(o.get("observed"), str)
        rrc = None
        if replays:
            with contextlib.redirect_stdout(io.StringIO()):
                rrc = dict_engine.replay("C19", replays[0])
        expect = 0 if old is None else 1
        good = (rc == expect) and (old is None or (replays and rrc == 1))
        failures += 0 if good else 1
        rows.append((name, rc, per, sorted(kinds), novalue, rrc, round(time.time() - t0)))
        print("%-20s rc=%d %s caught_by=%s checks=%s no-value-replays=%d replay_rc=%s %ds  -- %s"
              % (name, rc, "OK " if good else "BAD", per, sorted(kinds), novalue, rrc, time.time() - t0, desc))
        sys.stdout.flush()
    print("dict self-test: %d/%d as expected" % (len(rows) - failures, len(todo)))
    return 0 if failures == 0 else 1


if __name__ == "__main__":
    args = sys.argv[1:]
    tier = args[0] if args and args[0] in ("quick", "thorough") else "quick"
    sys.exit(main(tier, [a for a in args if a not in ("quick", "thorough")]))
