"""C19 -- the standard dictionary (std/dict.qv) behaves as a persistent finite map.

Pipeline (TLC is the oracle at both ends, Python only moves data):

  1. spec/MC_Dict  : TLC enumerates every history of spec/Dict.tla up to a bound (several
                     profiles: deep/linear, branching, merge+from) and prints the complete ones
                     (a seeded sample of them when there are too many to replay).
                     Thorough adds seeded random histories of ~200 operations over 16 keys.
  2. render        : every history becomes a Quiver program against `%dict` that performs the
                     operations and returns ALL observations of ALL versions (get / has? of every
                     key, count, entries, keys, values, iterator length and elements), under several
                     concrete KEY ASSIGNMENTS of the abstract keys -- unrelated keys, keys whose
                     FNV-1a hashes share the level-0 fragment only, levels 0-2, levels 0-5, the
                     full 32-bit hash, a mix (collision bucket + near misses), Str[b] vs b, long
                     keys, long fully colliding keys.  Colliding keys are CONSTRUCTED (FNV-1a is
                     invertible step by step: meet in the middle modulo 2^bits) and verified.
  3. qrun          : the programs run through the real compiler + runtime.
  4. spec/DictTrace: TLC replays each history in Dict.tla and compares every observation; a
                     mismatch (or a program that does not yield a value) is a violation.

Environment: DICT_MODULE (module name, default `dict`), DICT_MODULE_SRC (path of a source text
served as that in-memory module -- used by the mutation self-test), DICT_QUICK_HISTORIES.
"""
import json, os, random, sys, time, hashlib
from concurrent.futures import ThreadPoolExecutor

import common

M32 = 0xFFFFFFFF
FNV_OFFSET = 2166136261
FNV_PRIME = 16777619

MODULE = os.environ.get("DICT_MODULE", "dict")
MODULE_SRC = os.environ.get("DICT_MODULE_SRC", "")
PAR = max(2, min(10, (os.cpu_count() or 4) - 4))


# ---------------------------------------------------------------------------------------------
# FNV-1a (quiver-core/src/builtins/binary.rs: builtin_binary_hash32) and constructed collisions
# ---------------------------------------------------------------------------------------------
def fnv1a(bs, h=FNV_OFFSET):
    for b in bs:
        h = ((h ^ b) * FNV_PRIME) & M32
    return h


def frag(h, level):
    return (h >> (5 * level)) & 31


_tables = {}


def _back_table(target, bits, depth):
    """states (mod 2^bits) from which `depth` further bytes reach `target` (mod 2^bits).
    One FNV-1a step h -> (h ^ b) * P is invertible modulo any 2^bits >= 2^8 because P is odd."""
    key = (target, bits, depth)
    if key in _tables:
        return _tables[key]
    mask = (1 << bits) - 1
    pinv = pow(FNV_PRIME, -1, 1 << bits)
    states = {target & mask: ()}
    for _ in range(depth):
        nxt = {}
        for s, suf in states.items():
            u = (s * pinv) & mask
            for b in range(256):
                nxt.setdefault((u ^ b) & mask, (b,) + suf)
        states = nxt
    _tables[key] = states
    return states


def key_with_hash(target, bits, prefix, taken=()):
    """A byte string starting with `prefix` whose FNV-1a hash equals `target` modulo 2^bits.
    Meet in the middle: 1-2 bytes backwards from the target (table), 3 bytes forwards from the
    prefix.  Deterministic; the result is verified."""
    mask = (1 << bits) - 1
    depth = 2 if bits > 20 else 1
    tab = _back_table(target & mask, bits, depth)
    s0 = fnv1a(prefix)
    for e in range(256):
        se = ((s0 ^ e) * FNV_PRIME) & M32
        for b1 in range(256):
            s1 = ((se ^ b1) * FNV_PRIME) & M32
            for b2 in range(256):
                s2 = ((s1 ^ b2) * FNV_PRIME) & mask
                if s2 in tab:
                    k = bytes(prefix) + bytes((e, b1, b2)) + bytes(tab[s2])
                    if k not in taken:
                        assert fnv1a(k) & mask == target & mask
                        return k
    raise common.ToolError("no preimage found for hash %08x/%d" % (target, bits))


# key = (kind, bytes) with kind "bin" | "str"
def key_lit(k):
    kind, bs = k
    if kind == "bin":
        return "0x" + bs.hex()
    if bs and all(97 <= b <= 122 for b in bs):
        return '"' + bs.decode() + '"'
    return "Str[0x" + bs.hex() + "]"


def key_show(k):
    return "%s:%s" % (k[0], k[1].hex())


def key_hash(k):
    return fnv1a(k[1])


CLASSES = ["plain", "l0", "l012", "deep", "full", "mixed", "strbin", "long", "longfull"]
COLLIDING = {"l0", "l012", "deep", "full", "mixed", "strbin", "longfull"}
_CLASS_SALT = {c: i + 1 for i, c in enumerate(CLASSES)}


NVAR = {"plain": 1, "l0": 4, "l012": 4, "deep": 4, "full": 2, "mixed": 16, "strbin": 2, "long": 1, "longfull": 1}


def _order(n, variant, seed):
    """which distinguishing fragment abstract key i gets: TLC's histories are canonical (key 1 is
    used first), so without this the first key would always own the lowest slot."""
    o = list(range(n))
    if variant % 4 == 1:
        o.reverse()
    elif variant % 4 >= 2:
        random.Random(seed * 31 + variant).shuffle(o)
    return o


def build_keyset(cls, n, seed, variant=0):
    """n concrete keys for abstract keys 1..n (list index 0 = key 1)."""
    r = random.Random(seed * 7919 + _CLASS_SALT[cls] * 101 + n)
    if n > 32:
        raise ValueError("at most 32 keys")
    slot = _order(n, variant, seed)
    if cls == "plain":
        ks = [("bin", bytes([0x11 + i]) * (1 + i % 3)) for i in range(n)]
    elif cls == "long":
        ks = [("bin" if i % 2 == 0 else "str", bytes((i * 37 + j * 11 + 5) % 251 for j in range(40 + 3 * i)))
              for i in range(n)]
    elif cls == "strbin":
        ks = []
        for i in range(n):
            body = bytes([97 + (i // 2) % 26]) * (2 + i // 52)
            ks.append(("bin" if (i + variant) % 2 == 0 else "str", body))
    elif cls == "l0":
        c = r.randrange(32)
        ks = [("bin", key_with_hash(c | (slot[i] << 5), 10, bytes([i]))) for i in range(n)]
    elif cls == "l012":
        c = r.randrange(1 << 15)
        ks = [("bin", key_with_hash(c | (slot[i] << 15), 20, bytes([i]))) for i in range(n)]
    elif cls == "deep":
        # levels 0-5 shared, only the 2-bit fragment at level 6 differs (beyond 4 keys: full collisions too)
        c = r.randrange(1 << 30)
        ks = [("bin", key_with_hash(c | ((slot[i] % 4) << 30), 32, bytes([i]))) for i in range(n)]
    elif cls == "full":
        c = r.randrange(1 << 32)
        ks = [("bin" if (i + 2 * variant) % 4 < 2 else "str", key_with_hash(c, 32, bytes([i]))) for i in range(n)]
    elif cls == "longfull":
        c = r.randrange(1 << 32)
        ks = [("bin", key_with_hash(c, 32, bytes((i * 13 + j) % 256 for j in range(40 + i)))) for i in range(n)]
    elif cls == "mixed":
        # per group of four roles: two keys with one hash (collision bucket), one that parts from
        # them at level 2 ("near"), one that parts at level 1 ("far"); all groups share the level-0
        # fragment.  variant = role permutation (4) x geometry (near / far slot below or above the
        # bucket's slot: 4).
        perm = [(0, 1, 2, 3), (2, 0, 1, 3), (2, 3, 0, 1), (0, 2, 3, 1)][variant % 4]
        geo = (variant // 4) % 4
        c5 = r.randrange(32)
        roles = []
        for g in range((n + 3) // 4):
            f1, f2 = 8 + r.randrange(16), 8 + r.randrange(16)      # bucket's fragments at levels 1, 2
            c = (r.randrange(1 << 17) << 15) | (f2 << 10) | (f1 << 5) | c5
            d1, d2 = 1 + r.randrange(8), 1 + r.randrange(8)
            near = (c & 0x3FF) | ((f2 + d2 if geo & 1 else f2 - d2) << 10)
            far = c5 | ((f1 + d1 if geo & 2 else f1 - d1) << 5)
            roles += [("bin", key_with_hash(c, 32, bytes([4 * g]))),
                      ("str", key_with_hash(c, 32, bytes([4 * g + 1]))),
                      ("bin", key_with_hash(near, 15, bytes([4 * g + 2]))),
                      ("bin", key_with_hash(far, 10, bytes([4 * g + 3])))]
        ks = [roles[4 * (i // 4) + perm[i % 4]] for i in range(n)]
    else:
        raise ValueError(cls)
    if len(set(ks)) != n:
        raise common.ToolError("key set %s is not injective" % cls)
    return ks


def relation(cls, a, b):
    """does the pair of concrete keys collide the way class `cls` intends?"""
    ha, hb = key_hash(a), key_hash(b)
    if cls == "l0":
        return frag(ha, 0) == frag(hb, 0) and frag(ha, 1) != frag(hb, 1)
    if cls == "l012":
        return (ha ^ hb) & 0x7FFF == 0 and frag(ha, 3) != frag(hb, 3)
    if cls == "deep":
        return (ha ^ hb) & 0x3FFFFFFF == 0
    if cls in ("full", "longfull"):
        return ha == hb and (cls == "full" or min(len(a[1]), len(b[1])) >= 40)
    if cls == "mixed":
        return ha == hb or (frag(ha, 0) == frag(hb, 0))
    if cls == "strbin":
        return a[1] == b[1] and a[0] != b[0]
    return False


def verify_keyset(cls, ks):
    """the class's structural promise, checked on the constructed keys (not assumed)."""
    n = len(ks)
    hs = [key_hash(k) for k in ks]
    pairs = [(i, j) for i in range(n) for j in range(i + 1, n)]
    ok = True
    if cls == "l0":
        ok = all(frag(hs[i], 0) == frag(hs[j], 0) and frag(hs[i], 1) != frag(hs[j], 1) for i, j in pairs)
    elif cls == "l012":
        ok = all((hs[i] ^ hs[j]) & 0x7FFF == 0 and frag(hs[i], 3) != frag(hs[j], 3) for i, j in pairs)
    elif cls == "deep":
        ok = all((hs[i] ^ hs[j]) & 0x3FFFFFFF == 0 for i, j in pairs) and len(set(hs)) == min(n, 4)
    elif cls in ("full", "longfull"):
        ok = len(set(hs)) == 1 and (cls == "full" or all(len(k[1]) >= 40 for k in ks))
    elif cls == "long":
        ok = all(len(k[1]) >= 40 for k in ks)
    elif cls == "mixed":
        ok = all(frag(h, 0) == frag(hs[0], 0) for h in hs)
        def kind(h, c):
            if (h ^ c) & 0x3FF == 0 and frag(h, 2) != frag(c, 2):
                return "near"
            return "far" if frag(h, 1) != frag(c, 1) else "?"
        for g in range(n // 4):
            grp = hs[4 * g:4 * g + 4]
            cs = [h for h in set(grp) if grp.count(h) == 2]
            others = [h for h in grp if grp.count(h) == 1]
            ok = ok and len(cs) == 1 and len(others) == 2 and sorted(kind(h, cs[0]) for h in others) == ["far", "near"]
    elif cls == "strbin":
        ok = any(relation(cls, ks[i], ks[j]) for i, j in pairs)
    if not ok:
        raise common.ToolError("constructed key set %s does not have the intended hash structure" % cls)


# ---------------------------------------------------------------------------------------------
# histories
# ---------------------------------------------------------------------------------------------
def hist_keys_stored(hist):
    """abstract keys that some put/from of the history stores"""
    s = set()
    for o in hist:
        if o["op"] == "put":
            s.add(o["k"])
        elif o["op"] == "from":
            s.update(p[0] for p in o["ps"])
    return s


def hist_str(hist):
    out = []
    for j, o in enumerate(hist, start=2):
        if o["op"] == "put":
            out.append("d%d=put(d%d,K%d,%d)" % (j, o["v"], o["k"], o["x"]))
        elif o["op"] == "remove":
            out.append("d%d=remove(d%d,K%d)" % (j, o["v"], o["k"]))
        elif o["op"] == "merge":
            out.append("d%d=merge(d%d,d%d)" % (j, o["v"], o["w"]))
        else:
            out.append("d%d=from(%s)" % (j, ",".join("K%d:%d" % (p[0], p[1]) for p in o["ps"])))
    return " ".join(out)


def random_history(rng, nops, nk):
    """seeded long history: mostly the newest version, sometimes any earlier one (persistence)."""
    hist = []
    hot = rng.sample(range(1, nk + 1), max(2, nk // 2))
    for step in range(nops):
        nv = len(hist) + 1
        v = nv if rng.random() < 0.7 else rng.randrange(1, nv + 1)
        k = rng.choice(hot) if rng.random() < 0.5 else rng.randrange(1, nk + 1)
        u = rng.random()
        if u < 0.55:
            hist.append({"op": "put", "v": v, "k": k, "x": rng.randrange(1, 60)})
        elif u < 0.90:
            hist.append({"op": "remove", "v": v, "k": k})
        elif u < 0.96:
            hist.append({"op": "merge", "v": v, "w": rng.randrange(1, nv + 1)})
        else:
            ps = [[rng.randrange(1, nk + 1), rng.randrange(1, 60)] for _ in range(rng.randrange(0, 7))]
            hist.append({"op": "from", "ps": ps})
    return hist


# ---------------------------------------------------------------------------------------------
# rendering and decoding
# ---------------------------------------------------------------------------------------------
def render(hist, keys, mod=None, versions=None):
    """Quiver program: perform `hist`, then observe everything about the chosen versions
    (default all).  Every intermediate result is bound (a binding yields Ok, so a nil result of
    get / has? cannot short-circuit the sequence); the final step builds the tuple of
    observations from the bound names."""
    P = "%" + (mod or MODULE)
    nk = len(keys)
    lits = [key_lit(k) for k in keys]
    L = ["d1 = %s.new" % P]
    for j, o in enumerate(hist, start=2):
        if o["op"] == "put":
            L.append("d%d = [d%d, %s, %d] %s.put" % (j, o["v"], lits[o["k"] - 1], o["x"], P))
        elif o["op"] == "remove":
            L.append("d%d = [d%d, %s] %s.remove" % (j, o["v"], lits[o["k"] - 1], P))
        elif o["op"] == "merge":
            L.append("d%d = [d%d, d%d] %s.merge" % (j, o["v"], o["w"], P))
        elif o["op"] == "from":
            lst = "Nil"
            for k, x in reversed(o["ps"]):
                lst = "Cons[[%s, %d], %s]" % (lits[k - 1], x, lst)
            L.append("d%d = %s %s.from" % (j, lst, P))
        else:
            raise ValueError(o)
    nv = len(hist) + 1
    versions = list(versions) if versions is not None else list(range(1, nv + 1))
    tuples = []
    for j in versions:
        names = []
        for i in range(nk):
            L.append("g%d_%d = [d%d, %s] %s.get" % (j, i + 1, j, lits[i], P))
            L.append("h%d_%d = [d%d, %s] %s.has?" % (j, i + 1, j, lits[i], P))
            names += ["&g%d_%d" % (j, i + 1), "&h%d_%d" % (j, i + 1)]
        L.append("c%d = d%d %s.count" % (j, j, P))
        L.append("e%d = d%d %s.entries" % (j, j, P))
        L.append("k%d = d%d %s.keys" % (j, j, P))
        L.append("v%d = d%d %s.values" % (j, j, P))
        L.append("n%d = d%d %s.iter %%iter.count" % (j, j, P))
        L.append("i%d = d%d %s.iter [~, Nil, #{ Cons[$1, $0] }] %%iter.fold" % (j, j, P))
        names += ["&c%d" % j, "&e%d" % j, "&k%d" % j, "&v%d" % j, "&n%d" % j, "&i%d" % j]
        tuples.append("[" + ", ".join(names) + "]")
    L.append("[" + ",\n ".join(tuples) + "]")
    return ",\n".join(L)


class Undecodable(Exception):
    pass


def _list(v):
    out = []
    while True:
        if v.get("k") != "tup":
            raise Undecodable("list cell is not a tuple")
        if v["name"] == "Nil" and not v["fs"]:
            return out
        if v["name"] != "Cons" or len(v["fs"]) != 2:
            raise Undecodable("list cell %r" % v.get("name"))
        out.append(v["fs"][0])
        v = v["fs"][1]


def _key(v, back):
    if v.get("k") == "bin":
        return back.get(("bin", bytes(v["b"])), 0)
    if v.get("k") == "tup" and v["name"] == "Str" and len(v["fs"]) == 1 and v["fs"][0].get("k") == "bin":
        return back.get(("str", bytes(v["fs"][0]["b"])), 0)
    return 0


def _val(v):
    if v.get("k") == "int" and 0 <= v["n"] < 2 ** 30:
        return v["n"]
    return -1


def _pair(v, back):
    if v.get("k") != "tup" or v["name"] != "" or len(v["fs"]) != 2:
        raise Undecodable("entry is not a pair")
    return [_key(v["fs"][0], back), _val(v["fs"][1])]


def decode(value, keys, nversions):
    """observations in the vocabulary of DictTrace (abstract keys; 0 = foreign key, -1 = non-int)."""
    back = {k: i + 1 for i, k in enumerate(keys)}
    nk = len(keys)
    if value.get("k") != "tup" or len(value["fs"]) != nversions:
        raise Undecodable("result is not a %d-tuple" % nversions)
    obs = []
    for t in value["fs"]:
        f = t.get("fs") if t.get("k") == "tup" else None
        if f is None or len(f) != 2 * nk + 6:
            raise Undecodable("version tuple has the wrong shape")
        o = {"get": [], "has": []}
        for i in range(nk):
            g, h = f[2 * i], f[2 * i + 1]
            o["get"].append([] if g.get("k") == "nil" else [_val(g)])
            if h.get("k") == "nil":
                o["has"].append(False)
            elif h.get("k") == "tup" and h["name"] == "Ok" and not h["fs"]:
                o["has"].append(True)
            else:
                raise Undecodable("has? returned neither Ok nor nil")
        c, e, ks, vs, n, it = f[2 * nk:]
        o["count"] = c["n"] if c.get("k") == "int" else -1
        o["entries"] = [_pair(x, back) for x in _list(e)]
        o["keys"] = [_key(x, back) for x in _list(ks)]
        o["values"] = [_val(x) for x in _list(vs)]
        o["itern"] = n["n"] if n.get("k") == "int" else -1
        o["iter"] = [_pair(x, back) for x in _list(it)]
        obs.append(o)
    return obs


# ---------------------------------------------------------------------------------------------
# running programs and judging records
# ---------------------------------------------------------------------------------------------
def module_table():
    if MODULE_SRC:
        return {MODULE: open(MODULE_SRC).read()}
    return None


def _run_batch(progs):
    try:
        return common.qrun(progs, timeout=900)
    except (common.ToolError, Exception):
        # the process died inside one program (abort / stack overflow): that is data about the
        # code under test, find the program and keep the rest
        out = {}
        for p in progs:
            try:
                out.update(common.qrun([p], timeout=300))
            except Exception as ex:  # noqa
                out[p["id"]] = {"id": p["id"], "outcomes": [{"t": "died", "m": str(ex)[-300:]}], "crashes": ["process died"]}
        return out


def run_programs(progs, batch=60):
    mods = module_table()
    if mods:
        for p in progs:
            p["modules"] = mods
    # big programs (the 200-operation histories take seconds each) go first, one per process
    big = [p for p in progs if len(p["src"]) > 40000]
    small = [p for p in progs if len(p["src"]) <= 40000]
    batches = [[p] for p in big] + [small[i:i + batch] for i in range(0, len(small), batch)]
    res = {}
    with ThreadPoolExecutor(max_workers=PAR) as ex:
        for r in ex.map(_run_batch, batches):
            res.update(r)
    return res


def make_record(rid, case, result):
    """case: dict(hist, keys, cls, versions, ...); result: qrun record."""
    hist, keys = case["hist"], case["keys"]
    outs = result.get("outcomes", []) if result else []
    rec = {"id": rid, "nk": len(keys), "hist": hist, "ok": False, "obs": [], "note": ""}
    if result is None or not outs:
        rec["note"] = "no outcome"
    elif result.get("crashes"):
        rec["note"] = "crash: %s" % (result["crashes"],)
    elif outs[-1].get("t") != "value":
        rec["note"] = "outcome %s" % json.dumps(outs[-1])[:300]
    else:
        try:
            rec["obs"] = decode(outs[-1]["v"], keys, len(hist) + 1)
            rec["ok"] = True
        except Undecodable as ex:
            rec["note"] = "undecodable result: %s" % ex
    return rec


def judge(records, tag, check=None, workers=8):
    """TLC (DictTrace) over the records; returns {id: mismatch-info}."""
    if not records:
        return {}
    path = os.path.join(common.WORK, "dict_trace_%s_%d.ndjson" % (tag, os.getpid()))
    with open(path, "w") as f:
        for r in records:
            f.write(json.dumps({k: r[k] for k in ("id", "nk", "hist", "ok", "obs")}) + "\n")
    res = common.tlc("DictTrace", "DictTrace.cfg", env={"DICT_TRACE": path, "DICT_LANES": 2 * workers},
                     workers=workers, timeout=3000, extra=("-continue",),
                     metadir=os.path.join(common.WORK, "tlc_DictTrace_%s_%d" % (tag, os.getpid())))
    if check is not None:
        check.add_tlc("DictTrace", res)
    bad = {}
    for line in res.prints:
        if line.startswith('<<"MISMATCH"'):
            try:
                body = json.loads(json.loads(line[line.index(",") + 1:-2].strip()))
            except Exception:
                raise common.ToolError("unparsable MISMATCH line: " + line[:200])
            bad[body["id"]] = body
    if res.distinct != len(records) or ("Conforms" in res.violated) != bool(bad) or \
            (res.violated and set(res.violated) != {"Conforms"}) or (not res.violated and not res.ok):
        raise common.ToolError("DictTrace run is inconsistent (records=%d distinct=%d violated=%s): %s"
                               % (len(records), res.distinct, res.violated, res.out[-1500:]))
    try:
        os.remove(path)
    except OSError:
        pass
    return bad


# ---------------------------------------------------------------------------------------------
# case generation by TLC
# ---------------------------------------------------------------------------------------------
# name, env, measured number of complete histories (for choosing the sampling modulus)
PROFILES = [
    ("deep",   {"DICT_MAXOPS": 6, "DICT_MAXLIVE": 1, "DICT_MERGE": 0, "DICT_FROM": 0}, 69000),
    ("branch", {"DICT_MAXOPS": 5, "DICT_MAXLIVE": 4, "DICT_MERGE": 0, "DICT_FROM": 0}, 587000),
    ("algebra", {"DICT_MAXOPS": 4, "DICT_MAXLIVE": 4, "DICT_MERGE": 1, "DICT_FROM": 1}, 340000),
]


def generate(profile, want, workers):
    name, env, approx = profile
    mod = max(1, approx // max(1, want))
    e = dict(env, DICT_SAMPLE_MOD=mod, DICT_SAMPLE_REM=(common.seed() * 7 + 3) % mod)
    res = common.tlc("MC_Dict", "MC_Dict.cfg", env=e, workers=workers, timeout=1500,
                     metadir=os.path.join(common.WORK, "tlc_MC_Dict_%s_%d" % (name, os.getpid())))
    if not res.ok:
        raise common.ToolError("MC_Dict (%s) failed: violated=%s\n%s" % (name, res.violated, res.out[-2000:]))
    hists = []
    for line in res.prints:
        if line.startswith('<<"CASE"'):
            hists.append(json.loads(json.loads(line[line.index(",") + 1:-2].strip())))
    hists.sort(key=lambda h: json.dumps(h, sort_keys=True))
    return res, hists, mod


def norm_hist(h):
    out = []
    for o in h:
        if o["op"] == "put":
            out.append({"op": "put", "v": o["v"], "k": o["k"], "x": o["x"]})
        elif o["op"] == "remove":
            out.append({"op": "remove", "v": o["v"], "k": o["k"]})
        elif o["op"] == "merge":
            out.append({"op": "merge", "v": o["v"], "w": o["w"]})
        else:
            out.append({"op": "from", "ps": [list(p) for p in o["ps"]]})
    return out


# ---------------------------------------------------------------------------------------------
def classes_for(idx, tier):
    """which key assignments a history is run under: thorough = all of them (all variants of the
    asymmetric ones round-robin); quick = every colliding class that restructures the trie, plus
    one of the remaining classes in turn."""
    if tier == "thorough":
        return [(c, idx % NVAR[c]) for c in CLASSES]
    core = [(c, idx % NVAR[c]) for c in ("full", "mixed", "l012", "deep")]
    rest = ["l0", "strbin", "plain", "long", "longfull"]
    c = rest[idx % len(rest)]
    return core + [(c, (idx // len(rest)) % NVAR[c])]


def run(prop, tier):
    check = common.Check(prop, tier)
    common.build_harness()
    t0 = time.time()
    seed = common.seed()
    cov = check.cov
    cov["rule"] = ("for every history h over put/remove/merge/from and every version j of it, the value "
                   "reported by the real %dict for get/has?/count/entries/keys/values/iter on version j "
                   "AFTER all of h has run equals the one Dict.tla derives (Replay(h)[j]); a program that "
                   "yields no value is a violation too; judged by TLC (DictTrace!Conforms)")
    cov["module"] = MODULE + (" <- " + MODULE_SRC if MODULE_SRC else " (std/dict.qv)")

    # -- key assignments ------------------------------------------------------------------
    keysets = {}

    def keyset(cls, n, variant):
        kk = (cls, n, variant)
        if kk not in keysets:
            ks = build_keyset(cls, n, seed, variant)
            verify_keyset(cls, ks)
            keysets[kk] = ks
        return keysets[kk]

    # -- 1. TLC-generated histories ---------------------------------------------------------
    quick_n = int(os.environ.get("DICT_QUICK_HISTORIES", "330"))
    want = {"quick": quick_n, "thorough": 3000}.get(tier, quick_n)
    with ThreadPoolExecutor(max_workers=len(PROFILES)) as ex:
        gens = list(ex.map(lambda p: generate(p, want, 5), PROFILES))
    cases = []
    cov["generation"] = {}
    rng = random.Random(seed)
    for (name, env, _), (res, hists, mod) in zip(PROFILES, gens):
        check.add_tlc("MC_Dict/" + name, res)
        hs = [norm_hist(h) for h in hists]
        if len(hs) > int(want * 1.3):
            hs = rng.sample(hs, int(want * 1.3))
        cov["generation"][name] = {"constants": dict(env, Keys="1..4", Vals="1..2"), "distinct_states": res.distinct,
                                   "printed_complete_histories": len(hists), "sample_modulus": mod,
                                   "replayed": len(hs), "wall_s": round(res.wall, 1)}
        for h in hs:
            cases.append({"src": "tlc/" + name, "hist": h, "nk": 4})
    n_tlc = len(cases)

    # -- 2. long seeded histories ---------------------------------------------------------
    n_long = {"quick": 1, "thorough": 6}.get(tier, 1)
    long_cases = []
    for cls in CLASSES:
        for r in range(n_long):
            lr = random.Random(seed * 1000 + _CLASS_SALT[cls] * 50 + r)
            long_cases.append({"src": "random200", "hist": random_history(lr, 200, 16), "nk": 16, "only": cls})

    # -- 3. render ------------------------------------------------------------------------------
    runs = []
    for idx, c in enumerate(cases):
        for cls, variant in classes_for(idx, tier):
            runs.append(dict(c, cls=cls, variant=variant, keys=keyset(cls, 4, variant)))
    for idx, c in enumerate(long_cases):
        variant = (idx + seed) % NVAR[c["only"]]
        runs.append(dict(c, cls=c["only"], variant=variant, keys=keyset(c["only"], 16, variant)))
    progs = []
    for rid, r in enumerate(runs):
        r["id"] = rid
        r["program"] = render(r["hist"], r["keys"])
        progs.append({"id": rid, "src": r["program"]})
    cov["key_assignments"] = {"%s/%d/v%d" % kk: [key_show(k) + " h=%08x" % key_hash(k) for k in ks][:6]
                              for kk, ks in sorted(keysets.items())}
    t1 = time.time()
    results = run_programs(progs)
    t2 = time.time()

    # -- 4. judge ---------------------------------------------------------------------------
    records = [make_record(r["id"], r, results.get(r["id"])) for r in runs]
    short = [rec for rec, r in zip(records, runs) if r["nk"] == 4]
    longr = [rec for rec, r in zip(records, runs) if r["nk"] != 4]
    bad = {}
    bad.update(judge(short, "short", check))
    bad.update(judge(longr, "long", check))
    t3 = time.time()

    # -- evidence -----------------------------------------------------------------------------
    per_class = {}
    nontrivial = set()
    for r, rec in zip(runs, records):
        pc = per_class.setdefault(r["cls"], {"records": 0, "collision_realised": 0, "mismatches": 0})
        pc["records"] += 1
        stored = sorted(hist_keys_stored(r["hist"]))
        real = any(relation(r["cls"], r["keys"][a - 1], r["keys"][b - 1])
                   for i, a in enumerate(stored) for b in stored[i + 1:])
        if real:
            pc["collision_realised"] += 1
            nontrivial.add(json.dumps(r["hist"], sort_keys=True))
        if r["id"] in bad:
            pc["mismatches"] += 1
    cov["per_collision_class"] = per_class
    cov["traces_validated_against_impl"] = len(records)
    cov["evaluations"] = len(records)
    cov["observations_compared"] = sum((len(r["hist"]) + 1) * (2 * r["nk"] + 6) for r in runs)
    cov["distinct_histories"] = len({json.dumps(r["hist"], sort_keys=True) for r in runs})
    cov["distinct_nontrivial"] = len(nontrivial)
    cov["histories_from_tlc"] = n_tlc
    cov["histories_random200"] = len(long_cases)
    cov["timing_s"] = {"generate": round(t1 - t0, 1), "qrun": round(t2 - t1, 1), "judge": round(t3 - t2, 1)}
    for r in runs[:2] + runs[-1:]:
        check.sample({"history": hist_str(r["hist"])[:400], "class": r["cls"],
                      "keys": [key_show(k) for k in r["keys"]][:4], "program": r["program"][:700]})

    # -- violations ---------------------------------------------------------------------------
    by_id = {r["id"]: r for r in runs}
    rec_by_id = {rec["id"]: rec for rec in records}
    worst = sorted(bad, key=lambda i: (len(by_id[i]["hist"]), len(by_id[i]["program"]), i))
    for rid in worst[:5]:
        r, rec, info = by_id[rid], rec_by_id[rid], bad[rid]
        report(check, r, rec, info)
    if len(worst) > 5:
        print("  (%d further mismatching records not listed; classes: %s)"
              % (len(worst) - 5, {c: v["mismatches"] for c, v in per_class.items() if v["mismatches"]}))
    print("C19 %s: %d records (%d histories, %d with a realised collision) in %.0fs: %d mismatches"
          % (tier, len(records), cov["distinct_histories"], len(nontrivial), time.time() - t0, len(bad)))
    return check.finish()


def report(check, r, rec, info):
    j = info.get("version", 0)
    obj = {"property": "C19", "module": MODULE, "module_src": MODULE_SRC, "class": r["cls"], "variant": r["variant"],
           "history": r["hist"], "history_text": hist_str(r["hist"]),
           "keys": [[k[0], k[1].hex()] for k in r["keys"]],
           "key_hashes": ["%08x" % key_hash(k) for k in r["keys"]],
           "program": r["program"], "first_bad_version": j, "failed_checks": info.get("failed"),
           "bad_versions": info.get("versions"), "expected": info.get("expected"),
           "observed": (rec["obs"][j - 1] if rec["ok"] and 0 < j <= len(rec["obs"]) else rec["note"])}
    what = ("dict differs from the finite map: class=%s version d%d checks=%s history: %s"
            % (r["cls"], j, info.get("failed"), hist_str(r["hist"])[:300])) if rec["ok"] else \
           ("dict program yields no value (%s): class=%s history: %s" % (rec["note"][:200], r["cls"], hist_str(r["hist"])[:300]))
    check.violation(obj, key=None, what=what)


def replay(prop, path):
    global MODULE, MODULE_SRC
    obj = json.load(open(path))
    MODULE = obj.get("module", "dict")
    MODULE_SRC = obj.get("module_src", "") if os.path.exists(obj.get("module_src", "") or "/nonexistent") else ""
    common.build_harness()
    keys = [(k[0], bytes.fromhex(k[1])) for k in obj["keys"]]
    hist = obj["history"]
    program = obj.get("program") or render(hist, keys)
    res = run_programs([{"id": 0, "src": program}])
    rec = make_record(0, {"hist": hist, "keys": keys}, res.get(0))
    bad = judge([rec], "replay", None, workers=2)
    if 0 in bad:
        info = bad[0]
        print("  still fails: version d%s checks=%s expected=%s observed=%s"
              % (info.get("version"), info.get("failed"), json.dumps(info.get("expected"))[:300],
                 json.dumps(rec["obs"][info["version"] - 1])[:300] if rec["ok"] and info.get("version") else rec["note"]))
        print("VIOLATION property=%s replay=%s" % (prop, path))
        return 1
    print("replay %s: conforms to Dict.tla now" % path)
    return 0
