-------------------------------- MODULE Heap --------------------------------
(***************************************************************************)
(* Binary-heap accounting of one executor (quiver-core/src/executor.rs:     *)
(* allocate_binary_data, retain, release, process_pending_free and the      *)
(* insertion sites that overwrite a slot-holding field).                    *)
(*                                                                         *)
(* Slots carry a reference count; values enter rooted storage through       *)
(* `retain` and leave it through `release`; a count reaching 0 only queues  *)
(* the slot (pending_free), and the queue is processed at the start of the  *)
(* next slice, when no transient handle (a Rust local holding a popped      *)
(* value) is alive.  The invariants are C06's accounting clauses.           *)
(*                                                                         *)
(* Defects (pre-fix / hypothetical behaviours TLC can exhibit):             *)
(*   "overwrite_no_release"  a field holding a value is overwritten without *)
(*                           releasing it (initialize_select, notify_result,*)
(*                           call_receive_function before commit a0d4ba9)   *)
(*   "abandon"               an allocated slot is dropped without ever      *)
(*                           entering rooted storage (e.g. the per-value    *)
(*                           heap injection of spawn before 033742d)        *)
(*   "free_immediately"      no deferral: a count reaching 0 frees the slot *)
(*                           at once (shows why pending_free exists)        *)
(***************************************************************************)
EXTENDS Integers, Sequences, FiniteSets, TLC, SequencesExt

CONSTANTS NSlots,    \* capacity explored
          Roots,     \* rooted fields: stack, locals, mailbox, result, select sources, receiving, awaiting, constant cache
          MaxOps,    \* operations per behaviour
          Defects

Slots == 0..(NSlots - 1)

VARIABLES rc,        \* [Slots -> Nat]        Executor.refcounts
          freed,     \* [Slots -> BOOLEAN]    Executor.freed
          free,      \* Seq(Slots)            Executor.free (reuse pool, popped from the end)
          pending,   \* Seq(Slots)            Executor.pending_free
          used,      \* slots allocated so far = heap.len()
          roots,     \* [Roots -> [Slots -> Nat]]  how many references each rooted field holds
          hand,      \* [Slots -> Nat]        transient handles alive inside the current slice
          content,   \* [Slots -> Nat]        an abstract content stamp
          stamp,     \* next content stamp
          phase,     \* "slice" | "boundary"
          ops        \* operations performed (bounds the exploration)

vars == <<rc, freed, free, pending, used, roots, hand, content, stamp, phase, ops>>

Reach == {s \in Slots : \E r \in Roots : roots[r][s] > 0}
Held(s) == hand[s] > 0

Init ==
  /\ rc = [s \in Slots |-> 0] /\ freed = [s \in Slots |-> FALSE]
  /\ free = <<>> /\ pending = <<>> /\ used = 0
  /\ roots = [r \in Roots |-> [s \in Slots |-> 0]]
  /\ hand = [s \in Slots |-> 0]
  /\ content = [s \in Slots |-> 0] /\ stamp = 1
  /\ phase = "slice" /\ ops = 0

Tick == ops < MaxOps /\ ops' = ops + 1

\* allocate_binary_data: reuse the last freed slot or grow; the slot floats at count 0
Alloc ==
  /\ phase = "slice" /\ Tick
  /\ IF free # <<>>
     THEN LET s == Last(free) IN
          /\ free' = Front(free)
          /\ rc' = [rc EXCEPT ![s] = 0]
          /\ freed' = [freed EXCEPT ![s] = FALSE]
          /\ hand' = [hand EXCEPT ![s] = @ + 1]
          /\ content' = [content EXCEPT ![s] = stamp]
          /\ used' = used
     ELSE /\ used < NSlots
          /\ LET s == used IN
             /\ hand' = [hand EXCEPT ![s] = @ + 1]
             /\ content' = [content EXCEPT ![s] = stamp]
          /\ used' = used + 1
          /\ UNCHANGED <<free, rc, freed>>
  /\ stamp' = stamp + 1
  /\ UNCHANGED <<pending, roots, phase>>

\* retain: a value held in a handle (or copied from a rooted field) enters the field r
Retain(r, s) ==
  /\ phase = "slice" /\ Tick
  /\ s < used /\ (Held(s) \/ s \in Reach)
  /\ rc' = [rc EXCEPT ![s] = @ + 1]
  /\ roots' = [roots EXCEPT ![r][s] = @ + 1]
  /\ UNCHANGED <<freed, free, pending, used, hand, content, stamp, phase>>

ReleaseEffect(s) ==
  IF rc[s] = 1
  THEN IF "free_immediately" \in Defects
       THEN /\ freed' = [freed EXCEPT ![s] = TRUE] /\ free' = Append(free, s) /\ pending' = pending
       ELSE /\ pending' = Append(pending, s) /\ UNCHANGED <<freed, free>>
  ELSE UNCHANGED <<freed, free, pending>>

\* release: a value leaves the field r; the popped handle stays usable inside the slice
Release(r, s) ==
  /\ phase = "slice" /\ Tick
  /\ roots[r][s] > 0
  /\ rc' = [rc EXCEPT ![s] = @ - 1]
  /\ roots' = [roots EXCEPT ![r][s] = @ - 1]
  /\ hand' = [hand EXCEPT ![s] = @ + 1]
  /\ ReleaseEffect(s)
  /\ UNCHANGED <<used, content, stamp, phase>>

\* an insertion site stores a new value into a field that already holds one
Overwrite(r, old, new) ==
  /\ phase = "slice" /\ Tick
  /\ roots[r][old] > 0 /\ new < used /\ (Held(new) \/ new \in Reach) /\ old # new
  /\ roots' = [roots EXCEPT ![r][old] = @ - 1, ![r][new] = @ + 1]
  /\ IF "overwrite_no_release" \in Defects
     THEN /\ rc' = [rc EXCEPT ![new] = @ + 1]
          /\ UNCHANGED <<freed, free, pending>>
     ELSE /\ rc' = [rc EXCEPT ![new] = @ + 1, ![old] = @ - 1]
          /\ ReleaseEffect(old)
  /\ UNCHANGED <<used, hand, content, stamp, phase>>

\* a transient handle goes out of scope; a slot that never entered storage must not be dropped
Drop(s) ==
  /\ phase = "slice" /\ Tick
  /\ Held(s)
  /\ ("abandon" \in Defects \/ rc[s] > 0 \/ Contains(pending, s) \/ hand[s] > 1)
  /\ hand' = [hand EXCEPT ![s] = @ - 1]
  /\ UNCHANGED <<rc, freed, free, pending, used, roots, content, stamp, phase>>

\* the slice ends: no Rust local survives it
EndSlice ==
  /\ phase = "slice" /\ \A s \in Slots : hand[s] = 0
  /\ phase' = "boundary"
  /\ UNCHANGED <<rc, freed, free, pending, used, roots, hand, content, stamp, ops>>

\* process_pending_free at the start of the next slice (queue popped from the end)
RECURSIVE Reclaim(_, _, _)
Reclaim(q, fr, fd) ==
  IF q = <<>> THEN <<fr, fd>>
  ELSE LET s == Last(q) IN
       IF rc[s] = 0 /\ ~fd[s] THEN Reclaim(Front(q), Append(fr, s), [fd EXCEPT ![s] = TRUE])
       ELSE Reclaim(Front(q), fr, fd)

StartSlice ==
  /\ phase = "boundary"
  /\ LET res == Reclaim(pending, free, freed) IN
     /\ free' = res[1] /\ freed' = res[2]
  /\ pending' = <<>>
  /\ phase' = "slice"
  /\ UNCHANGED <<rc, used, roots, hand, content, stamp, ops>>

Next ==
  \/ Alloc
  \/ \E r \in Roots, s \in Slots : Retain(r, s) \/ Release(r, s)
  \/ \E r \in Roots, a, b \in Slots : Overwrite(r, a, b)
  \/ \E s \in Slots : Drop(s)
  \/ EndSlice \/ StartSlice

Spec == Init /\ [][Next]_vars

(* ---------------- C06 ---------------- *)
Counted == phase = "boundary" => \A s \in Slots : (rc[s] > 0) <=> (s \in Reach)
NoUseAfterFree == \A s \in Slots : freed[s] => (s \notin Reach /\ ~Held(s))
FreeList == /\ \A s \in Slots : freed[s] <=> Contains(free, s)
            /\ \A i, j \in 1..Len(free) : free[i] = free[j] => i = j
NoOrphan == phase = "boundary" =>
              \A s \in Slots : (s < used /\ ~freed[s] /\ rc[s] = 0) => Contains(pending, s)
NoUnderflow == \A s \in Slots : rc[s] >= 0
ContentStable == [][\A s \in Slots : (content'[s] # content[s]) => (freed[s] \/ s >= used)]_vars

(***************************************************************************)
(* The inductive invariant of HeapInd.tla (proved there with Apalache for   *)
(* behaviours of any length) read on THIS module's state: the abstraction   *)
(* maps the pool and the queue to their element sets.  TLC checks it here   *)
(* on every reachable state, which ties the two modules together.           *)
(***************************************************************************)
RefsTo(s) == LET Sum[R \in SUBSET Roots] == IF R = {} THEN 0
                                              ELSE LET r == CHOOSE r \in R : TRUE IN roots[r][s] + Sum[R \ {r}]
             IN Sum[Roots]
IndInvOnHeap ==
  /\ \A s \in Slots :
       /\ hand[s] >= 0
       /\ rc[s] = RefsTo(s)
       /\ freed[s] => (rc[s] = 0 /\ hand[s] = 0 /\ s < used /\ ~Contains(pending, s))
       /\ (s >= used) => (rc[s] = 0 /\ hand[s] = 0 /\ ~freed[s] /\ ~Contains(pending, s))
       /\ (s < used /\ ~freed[s] /\ rc[s] = 0) => (hand[s] > 0 \/ Contains(pending, s))
  /\ {s \in Slots : freed[s]} = ToSet(free)
  /\ (phase = "boundary") => \A s \in Slots : hand[s] = 0
=============================================================================
