----------------------------- MODULE MC_Runtime -----------------------------
(* Model-checking harness: the scenario (scripts, worker count, bounds, defect
   switches) is read from the JSON file named by the environment variable SCENARIO;
   the expected canonical result (pass 2 of the confluence check) from EXPECTED. *)
EXTENDS RuntimeProps, Json, IOUtils

Scn == JsonDeserialize(IOEnv.SCENARIO)
MC_NW == Scn.nw
MC_Scripts == Scn.scripts
MC_MaxTick == Scn.maxtick
MC_MaxPid == Scn.maxpid
MC_MaxFuel == Scn.maxfuel
MC_Placement == Scn.placement
MC_Defects == {Scn.defects[i] : i \in 1..Len(Scn.defects)}
MC_Lines == IF "lines" \in DOMAIN Scn THEN Scn.lines ELSE <<1>>
MC_IOModes == IF "iomodes" \in DOMAIN Scn THEN {Scn.iomodes[i] : i \in 1..Len(Scn.iomodes)} ELSE {"now"}

\* pass 1 (simulation): stop at the first quiescent state and write its canonical results
DumpExpected ==
  ~Quiescent \/ (/\ IOSerialize(CanonResults, IOEnv.EXPECTED, FALSE)
                  /\ JsonSerialize(IOEnv.EXPECTED \o ".json",
                                   [outcome |-> outcome, results |-> SetToSeq(CanonResults)])
                  /\ FALSE)

\* pass 2 (exhaustive): every quiescent state has the same canonical results
Expected == IODeserialize(IOEnv.EXPECTED, FALSE)
Confluent == Quiescent => CanonResults = Expected
=============================================================================
