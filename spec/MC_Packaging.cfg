SPECIFICATION Spec
CONSTANTS
  NPool = 8
  MaxHist = 3
CHECK_DEADLOCK FALSE
INVARIANT Emit
