SPECIFICATION TSpec
CONSTANTS
  Keys <- T_Keys
  Vals <- T_Vals
  FromLists <- T_None
  MaxOps <- T_Zero
  MaxLive <- T_Zero
CHECK_DEADLOCK FALSE
INVARIANTS
  Conforms HistoryDeterminesVersions
