----------------------------- MODULE MC_NumLaws -----------------------------
(***************************************************************************)
(* Self-consistency of the C20 oracle: the field and order laws, evaluated *)
(* by TLC over small operand universes of Num.tla.  The laws are           *)
(* consequences of exactness, so an oracle that broke one of them would be *)
(* wrong before it is ever compared with std/num.qv.                       *)
(*                                                                         *)
(* One leaf state per law (the workers share the laws); a law that fails   *)
(* violates the invariant LawHolds in the state [lvl |-> 2, name |-> law]  *)
(* and                                                                     *)
(* prints its counterexamples as <<"LAWFAIL", name, set>>.                 *)
(*                                                                         *)
(* Laws over values are stated "where defined": operands pairwise          *)
(* compatible (one radical), so that no intermediate result is nil; they   *)
(* compare VALUES (Compare = 0), because the representation of a value     *)
(* depends on the route (1/2 + 1/2 = 1/1 but (sqrt2 + 1) - sqrt2 = 1).     *)
(* Laws marked (form) hold for the representation too, nil included.       *)
(*                                                                         *)
(* Universes: L3 (26 numbers) for the laws over triples (17 576 triples),  *)
(* SmallU (50 numbers + nil) for pairs, Universe (161 + nil) for single    *)
(* operands.  Largest intermediate product < 10^7 (32-bit TLC integers).   *)
(***************************************************************************)
EXTENDS Num

VARIABLE law

L3 == {I(-3), I(-1), I(0), I(1), I(2), I(12),
       R(1, 2), R(-2, 3), R(5, 6), R(3, 1), R(-12, 5), R(0, 1),
       S(I(0), I(1), 2), S(I(1), I(-1), 2), S(R(1, 2), R(-1, 2), 2), S(I(-2), R(2, 3), 2), S(R(-3, 2), I(2), 2),
       S(I(0), I(1), 3), S(I(1), R(-1, 2), 3), S(I(-2), I(-1), 3),
       S(I(0), I(-1), 5), S(R(1, 2), R(1, 2), 5),
       S(I(0), I(1), 6), S(R(-3, 2), R(-1, 2), 6), S(I(1), I(2), 6), S(I(-2), I(1), 6)}
L2 == SmallU \ {Nil}
L1 == Universe \ {Nil}

ValEq(u, v) == IsNum(u) /\ IsNum(v) /\ Compare(u, v).k = "int" /\ Compare(u, v).n = 0
Comp2(x, y) == Compatible(x, y)
Comp3(x, y, z) == Compatible(x, y) /\ Compatible(y, z) /\ Compatible(x, z)
Zero(x) == ValEq(x, I(0))
Cn(x, y) == Compare(x, y).n
T3 == L3 \X L3 \X L3
T2 == L2 \X L2
P2 == SmallU \X SmallU            \* with nil

Cex(name) ==
  CASE name = "AddCommutes(form)" ->
         {t \in P2 : ~Same(Add(t[1], t[2]), Add(t[2], t[1]))}
    [] name = "MulCommutes(form)" ->
         {t \in P2 : ~Same(Mul(t[1], t[2]), Mul(t[2], t[1]))}
    [] name = "AddAssociates" ->
         {t \in T3 : Comp3(t[1], t[2], t[3]) /\
            ~ValEq(Add(Add(t[1], t[2]), t[3]), Add(t[1], Add(t[2], t[3])))}
    [] name = "MulAssociates" ->
         {t \in T3 : Comp3(t[1], t[2], t[3]) /\
            ~ValEq(Mul(Mul(t[1], t[2]), t[3]), Mul(t[1], Mul(t[2], t[3])))}
    [] name = "Distributes" ->
         {t \in T3 : Comp3(t[1], t[2], t[3]) /\
            ~ValEq(Mul(t[1], Add(t[2], t[3])), Add(Mul(t[1], t[2]), Mul(t[1], t[3])))}
    [] name = "AddIdentity(form)" ->
         {x \in L1 : ~(Same(Add(x, I(0)), x) /\ Same(Add(I(0), x), x) /\ Same(Sub(x, I(0)), x))}
    [] name = "MulIdentity(form)" ->
         {x \in L1 : ~(Same(Mul(x, I(1)), x) /\ Same(Mul(I(1), x), x))}
    [] name = "AddInverse" ->
         {x \in L1 : ~(Zero(Add(x, Neg(x))) /\ Zero(Sub(x, x)) /\ Same(Neg(Neg(x)), x))}
    [] name = "MulInverse" ->
         {x \in L1 : ~Zero(x) /\ ~(ValEq(Mul(x, Div(I(1), x)), I(1)) /\ ValEq(Div(x, x), I(1)))}
    [] name = "MulZero" ->
         {x \in L1 : ~Zero(Mul(x, I(0)))}
    [] name = "SubIsAddNeg(form)" ->
         {t \in P2 : ~Same(Sub(t[1], t[2]), Add(t[1], Neg(t[2])))}
    [] name = "DivIsMulInverse" ->
         {t \in T2 : Comp2(t[1], t[2]) /\ ~Zero(t[2]) /\
            ~(ValEq(Div(t[1], t[2]), Mul(t[1], Div(I(1), t[2]))) /\ ValEq(Mul(Div(t[1], t[2]), t[2]), t[1]))}
    [] name = "DivByZeroIsNil" ->
         {t \in P2 : IsNum(t[2]) /\ Zero(t[2]) /\ ~IsNil(Div(t[1], t[2]))}
    [] name = "DivDefined" ->
         {t \in T2 : Comp2(t[1], t[2]) /\ ~Zero(t[2]) /\ ~IsNum(Div(t[1], t[2]))}
    [] name = "NormNonZero" ->
         {x \in L1 : IsSurd(x) /\ QIsZero(FNorm(Den(x), x.r))}
    [] name = "CompareIsEquality" ->      \* compare = 0 exactly for equal denotations
         {t \in T2 : Comp2(t[1], t[2]) /\
            ((Cn(t[1], t[2]) = 0) #
             (Den(t[1])[1] = Den(t[2])[1] /\ Den(t[1])[2] = Den(t[2])[2]
                /\ (QIsZero(Den(t[1])[2]) \/ Den(t[1])[3] = Den(t[2])[3])))}
    [] name = "Trichotomy" ->
         {t \in T2 : Comp2(t[1], t[2]) /\
            Cardinality({p \in {LtP(t[1], t[2]), EqP(t[1], t[2]), GtP(t[1], t[2])} : p.k = "ok"}) # 1}
            \cup {t \in T2 : Comp2(t[1], t[2]) /\ Cn(t[1], t[2]) \notin {-1, 0, 1}}
    [] name = "CompareAntisymmetric" ->
         {t \in T2 : Comp2(t[1], t[2]) /\ Cn(t[1], t[2]) # -Cn(t[2], t[1])}
            \cup {t \in P2 : IsNil(Compare(t[1], t[2])) # IsNil(Compare(t[2], t[1]))}
    [] name = "CompareTransitive" ->
         {t \in T3 : Comp3(t[1], t[2], t[3]) /\ Cn(t[1], t[2]) <= 0 /\ Cn(t[2], t[3]) <= 0 /\
            ~(Cn(t[1], t[3]) <= 0 /\ (Cn(t[1], t[3]) = 0 => Cn(t[1], t[2]) = 0 /\ Cn(t[2], t[3]) = 0))}
    [] name = "OrderTranslationInvariant" ->
         {t \in T3 : Comp3(t[1], t[2], t[3]) /\
            Cn(Add(t[1], t[3]), Add(t[2], t[3])) # Cn(t[1], t[2])}
    [] name = "OrderScaling" ->
         {t \in T3 : Comp3(t[1], t[2], t[3]) /\
            Cn(Mul(t[1], t[3]), Mul(t[2], t[3])) # Cn(t[1], t[2]) * Sign(t[3]).n}
    [] name = "SignMultiplicative" ->
         {t \in T2 : Comp2(t[1], t[2]) /\ Sign(Mul(t[1], t[2])).n # Sign(t[1]).n * Sign(t[2]).n}
    [] name = "RootsArePositive" ->       \* pins the embedding sqrt r > 0
         {r \in {2, 3, 5, 6} : Sign(S(I(0), I(1), r)).n # 1 \/ ~ValEq(Mul(S(I(0), I(1), r), S(I(0), I(1), r)), I(r))}
    [] name = "LeGeAreLtEqGt" ->
         {t \in P2 : ~( (LeP(t[1], t[2]).k = "ok") = (LtP(t[1], t[2]).k = "ok" \/ EqP(t[1], t[2]).k = "ok")
                      /\ (GeP(t[1], t[2]).k = "ok") = (GtP(t[1], t[2]).k = "ok" \/ EqP(t[1], t[2]).k = "ok")
                      /\ (LtP(t[1], t[2]).k = "ok") = (GtP(t[2], t[1]).k = "ok") )}
    [] name = "SqrtSquares" ->
         {x \in L1 : (IsInt(x) \/ IsRat(x)) /\ Sign(x).n >= 0 /\
            ~(ValEq(Mul(Sqrt(x), Sqrt(x)), x) /\ Sign(Sqrt(x)).n >= 0 /\ Canonical(Sqrt(x)))}
            \cup {x \in L1 : (IsSurd(x) \/ Sign(x).n < 0) /\ ~IsNil(Sqrt(x))}
    [] name = "AbsLaws" ->
         {x \in L1 : ~(Sign(AbsV(x)).n >= 0 /\ (Same(AbsV(x), x) \/ Same(AbsV(x), Neg(x)))
                       /\ ValEq(AbsV(x), Max(x, Neg(x))) /\ AbsV(x).k = x.k)}
    [] name = "FloorCeil" ->
         {x \in L1 : ~(LET f == Floor(x)  c == Ceil(x) IN
                        /\ Cn(f, x) <= 0 /\ Cn(x, Add(f, I(1))) < 0
                        /\ Cn(x, c) <= 0 /\ Cn(Sub(c, I(1)), x) < 0
                        /\ Same(c, Neg(Floor(Neg(x))))
                        /\ ((c.n = f.n) = ValEq(x, f)) /\ c.n - f.n \in {0, 1})}
    [] name = "ToIntTruncates" ->
         {x \in L1 : ~(LET t == ToInt(x) IN
                        /\ t.n = Sign(x).n * Floor(AbsV(x)).n
                        /\ Cn(AbsV(t), AbsV(x)) <= 0 /\ Cn(AbsV(x), Add(AbsV(t), I(1))) < 0)}
    [] name = "RoundNearestHalfAway" ->
         {x \in L1 : ~(LET n == Round(x)
                           e == AbsV(Sub(x, n)) IN
                        /\ Cn(e, R(1, 2)) <= 0
                        /\ (Cn(e, R(1, 2)) = 0 => Cn(AbsV(n), AbsV(x)) > 0)
                        /\ Same(Round(Neg(x)), Neg(n)))}
    [] name = "MinMax" ->
         {t \in T2 : Comp2(t[1], t[2]) /\
            ~(LET lo == Min(t[1], t[2])  hi == Max(t[1], t[2]) IN
               /\ Cn(lo, t[1]) <= 0 /\ Cn(lo, t[2]) <= 0 /\ Cn(hi, t[1]) >= 0 /\ Cn(hi, t[2]) >= 0
               /\ (Same(lo, t[1]) \/ Same(lo, t[2])) /\ (Same(hi, t[1]) \/ Same(hi, t[2]))
               /\ ValEq(Add(lo, hi), Add(t[1], t[2])))}
            \cup {t \in P2 : ~Compatible(t[1], t[2]) /\ ~(IsNil(Min(t[1], t[2])) /\ IsNil(Max(t[1], t[2])))}
    [] name = "ClampWithinRange" ->
         {t \in (TinyU \ {Nil}) \X (TinyU \ {Nil}) \X (TinyU \ {Nil}) :
            Comp3(t[1], t[2], t[3]) /\ Cn(t[2], t[3]) <= 0 /\
            ~(LET c == Clamp(t[1], t[2], t[3]) IN
               /\ Cn(t[2], c) <= 0 /\ Cn(c, t[3]) <= 0
               /\ (Same(c, t[1]) \/ Same(c, t[2]) \/ Same(c, t[3]))
               /\ (Cn(t[2], t[1]) <= 0 /\ Cn(t[1], t[3]) <= 0 => Same(c, t[1])))}
    [] name = "NumerDenom" ->
         {x \in L1 : (IsInt(x) \/ IsRat(x)) /\
            ~(Denom(x).n > 0 /\ ValEq(Div(Numer(x), Denom(x)), x) /\ Gcd(AbsI(Numer(x).n), Denom(x).n) = 1)}
    [] name = "HugeLawsAreIdentities" ->      \* the small side of the scaling laws
         {x \in L1 : \E h \in {Huge(1, "int", 1), Huge(2, "int", -1), Huge(3, "rat", 1), Huge(4, "rat", -1)} :
            ~(ValEq(HAddSub(x, h), x) /\ ValEq(HSubAdd(x, h), x) /\ ValEq(HMulDiv(x, h), x)
              /\ HSign(x, h).n = Sign(x).n * h.sgn)}

Laws == {"AddCommutes(form)", "MulCommutes(form)", "AddAssociates", "MulAssociates", "Distributes",
         "AddIdentity(form)", "MulIdentity(form)", "AddInverse", "MulInverse", "MulZero",
         "SubIsAddNeg(form)", "DivIsMulInverse", "DivByZeroIsNil", "DivDefined", "NormNonZero",
         "CompareIsEquality", "Trichotomy", "CompareAntisymmetric", "CompareTransitive",
         "OrderTranslationInvariant", "OrderScaling", "SignMultiplicative", "RootsArePositive",
         "LeGeAreLtEqGt", "SqrtSquares", "AbsLaws", "FloorCeil", "ToIntTruncates",
         "RoundNearestHalfAway", "MinMax", "ClampWithinRange", "NumerDenom", "HugeLawsAreIdentities"}

(* root -> [lvl 1, name] -> [lvl 2, name]: the law is judged in the leaf, whose   *)
(* invariant is evaluated by the worker that expands the level-1 state, so that   *)
(* the laws are shared among the workers.                                         *)
Init == law = [lvl |-> 0, name |-> "root"]
Next == \/ law.lvl = 0 /\ \E n \in Laws : law' = [lvl |-> 1, name |-> n]
        \/ law.lvl = 1 /\ law' = [lvl |-> 2, name |-> law.name]
LawSpec == Init /\ [][Next]_law

LawHolds == law.lvl = 2 =>
              LET c == Cex(law.name) IN
              IF c = {} THEN TRUE ELSE PrintT(<<"LAWFAIL", law.name, c>>) /\ FALSE
UniverseOK == law.lvl = 0 => \A x \in L3 \cup L2 \cup L1 : Canonical(x) /\ IsNum(x)
=============================================================================
