------------------------------- MODULE Dict -------------------------------
(***************************************************************************)
(* C19 -- the standard dictionary (std/dict.qv) is a PERSISTENT FINITE MAP. *)
(*                                                                         *)
(* A finite map is a TLA+ function whose domain is a finite subset of Keys. *)
(* The state is the sequence `vers` of all dictionary values ever created   *)
(* (version 1 is the empty map).  Every mutating operation derives a new    *)
(* version from ANY live earlier version(s) and appends it; nothing else    *)
(* ever changes -- that is persistence.  `hist` records the operations; it  *)
(* determines `vers` (Replay), which is how the conformance modules          *)
(* (MC_Dict: case generation, DictTrace: validation of real runs) use it.   *)
(*                                                                         *)
(* Keys and values are abstract: keys are 1..NK, values are integers.  How  *)
(* an abstract key is realised (short/long binary, Str, keys chosen so that *)
(* their hashes collide partially or fully) is invisible here by design: a  *)
(* finite map does not know about hashes.                                  *)
(***************************************************************************)
EXTENDS Naturals, Sequences, FiniteSets

CONSTANTS Keys,       \* set of abstract keys (naturals)
          Vals,       \* set of values (naturals)
          FromLists,  \* the pair lists offered to From (set of sequences of <<k, x>>)
          MaxOps,     \* bound on Len(hist)
          MaxLive     \* only the MaxLive most recent versions are used as operands

VARIABLES vers, hist
vars == <<vers, hist>>

---------------------------------------------------------------------------
(* finite maps *)
Empty == <<>>                                   \* the function with empty domain

MPut(m, k, x) == [kk \in (DOMAIN m) \cup {k} |-> IF kk = k THEN x ELSE m[kk]]
MRemove(m, k) == [kk \in (DOMAIN m) \ {k} |-> m[kk]]
\* all entries of b put into a: b wins on conflict
MMerge(a, b)  == [kk \in (DOMAIN a) \cup (DOMAIN b) |-> IF kk \in DOMAIN b THEN b[kk] ELSE a[kk]]
\* pairs put left to right into m: later pairs win
RECURSIVE MFromOn(_, _)
MFromOn(m, ps) == IF ps = <<>> THEN m ELSE MFromOn(MPut(m, ps[1][1], ps[1][2]), Tail(ps))
MFrom(ps) == MFromOn(Empty, ps)

(* observations; an optional value is <<>> (absent, nil) or <<x>> *)
Get(m, k)     == IF k \in DOMAIN m THEN <<m[k]>> ELSE <<>>
Has(m, k)     == k \in DOMAIN m
Count(m)      == Cardinality(DOMAIN m)
Entries(m)    == {<<k, m[k]>> : k \in DOMAIN m}
KeysOf(m)     == DOMAIN m
\* values are a bag: value |-> number of keys carrying it
ValuesBag(m)  == LET R == {m[k] : k \in DOMAIN m}
                 IN  [x \in R |-> Cardinality({k \in DOMAIN m : m[k] = x})]

---------------------------------------------------------------------------
(* operations as data: records with field `op`; v, w are version indices *)
OpPut(v, k, x) == [op |-> "put",    v |-> v, k |-> k, x |-> x]
OpRemove(v, k) == [op |-> "remove", v |-> v, k |-> k]
OpMerge(v, w)  == [op |-> "merge",  v |-> v, w |-> w]
OpFrom(ps)     == [op |-> "from",   ps |-> ps]

\* the version an operation produces, given the versions so far
Result(vs, o) ==
  CASE o.op = "put"    -> MPut(vs[o.v], o.k, o.x)
    [] o.op = "remove" -> MRemove(vs[o.v], o.k)
    [] o.op = "merge"  -> MMerge(vs[o.v], vs[o.w])
    [] o.op = "from"   -> MFrom(o.ps)

RECURSIVE ReplayOn(_, _)
ReplayOn(vs, h) == IF h = <<>> THEN vs ELSE ReplayOn(Append(vs, Result(vs, h[1])), Tail(h))
Replay(h) == ReplayOn(<<Empty>>, h)

---------------------------------------------------------------------------
Live == {v \in 1..Len(vers) : v > Len(vers) - MaxLive}

Do(o) == /\ Len(hist) < MaxOps
         /\ vers' = Append(vers, Result(vers, o))
         /\ hist' = Append(hist, o)

Put(v, k, x) == Do(OpPut(v, k, x))
Remove(v, k) == Do(OpRemove(v, k))
Merge(v, w)  == Do(OpMerge(v, w))
From(ps)     == Do(OpFrom(ps))

Init == vers = <<Empty>> /\ hist = <<>>

Next == \/ \E v \in Live, k \in Keys, x \in Vals : Put(v, k, x)
        \/ \E v \in Live, k \in Keys : Remove(v, k)
        \/ \E v \in Live, w \in Live : Merge(v, w)
        \/ \E ps \in FromLists : From(ps)

Spec == Init /\ [][Next]_vars

---------------------------------------------------------------------------
(* properties of the specification itself *)
IsMap(m) == /\ DOMAIN m \subseteq Keys
            /\ \A k \in DOMAIN m : m[k] \in Vals

TypeOK == /\ Len(vers) = Len(hist) + 1
          /\ \A v \in 1..Len(vers) : IsMap(vers[v])

\* persistence: an operation never changes a version that already exists
EarlierVersionsUnchanged ==
  [][/\ Len(vers') = Len(vers) + 1
     /\ \A v \in 1..Len(vers) : vers'[v] = vers[v]]_vars

\* the history determines every version (what the conformance check relies on)
HistoryDeterminesVersions == vers = Replay(hist)

\* finite-map laws, stated on the newest version against its operands
LastOpLaw ==
  hist # <<>> =>
    LET n == Len(hist)  o == hist[n]  m == vers[n + 1] IN
    CASE o.op = "put" ->
           /\ Get(m, o.k) = <<o.x>>
           /\ \A k \in Keys \ {o.k} : Get(m, k) = Get(vers[o.v], k)
           /\ Count(m) = Count(vers[o.v]) + (IF Has(vers[o.v], o.k) THEN 0 ELSE 1)
      [] o.op = "remove" ->
           /\ Get(m, o.k) = <<>>
           /\ \A k \in Keys \ {o.k} : Get(m, k) = Get(vers[o.v], k)
           /\ Count(m) + (IF Has(vers[o.v], o.k) THEN 1 ELSE 0) = Count(vers[o.v])
      [] o.op = "merge" ->
           \A k \in Keys : Get(m, k) = IF Has(vers[o.w], k) THEN Get(vers[o.w], k)
                                        ELSE Get(vers[o.v], k)
      [] o.op = "from" ->
           \A k \in Keys :
             LET I == {i \in 1..Len(o.ps) : o.ps[i][1] = k} IN
             Get(m, k) = IF I = {} THEN <<>>
                         ELSE <<o.ps[CHOOSE i \in I : \A j \in I : j <= i][2]>>

ObservationsAgree ==
  \A v \in 1..Len(vers) :
    LET m == vers[v] IN
    /\ Count(m) = Cardinality(Entries(m))
    /\ KeysOf(m) = {e[1] : e \in Entries(m)}
    /\ \A k \in Keys : Has(m, k) <=> (Get(m, k) # <<>>)
    /\ \A k \in Keys : Has(m, k) => <<k, Get(m, k)[1]>> \in Entries(m)
=============================================================================
