------------------------------ MODULE NumTrace ------------------------------
(***************************************************************************)
(* Conformance judge for C20.  Reads records of REAL runs of std/num.qv    *)
(* (one JSON object per line of the file named by the environment variable *)
(* NUM_TRACE):                                                             *)
(*     {"id": i, "op": "add", "args": [v, w], "obs": v'}                   *)
(* where values are the abstract forms of Num.tla ({"k":"int","n":5},      *)
(* {"k":"rat","n":3,"d":4}, {"k":"surd","a":c,"b":c,"r":2}, {"k":"nil"},   *)
(* {"k":"ok"}) and an observation may also be {"k":"error","e":class} (a   *)
(* runtime error) or {"k":"other","s":text} (anything that is not a value  *)
(* form of the module, e.g. an integer beyond 32 bits).                    *)
(*                                                                         *)
(* For every record TLC recomputes the specified canonical result          *)
(* Spec(op, args) and requires the observation to be exactly that value:   *)
(* same kind, lowest terms, positive denominator, lowered coefficients,    *)
(* nil where specified.  An error or foreign observation never equals a    *)
(* specified result.  ONE STATE PER RECORD (root -> chunk -> record, so    *)
(* the workers share the records); a mismatch is a violation of the        *)
(* invariant Conforms in the state [lvl |-> 2, i |-> index], preceded by   *)
(* a line <<"MISMATCH", {"id":..,"exp":..}>>.  Run with -continue to get   *)
(* every mismatching record.                                               *)
(***************************************************************************)
EXTENDS Num, Json, IOUtils

VARIABLE st

Recs == ndJsonDeserialize(IOEnv.NUM_TRACE)
N == Len(Recs)
ChunkSize == 400
NChunks == (N + ChunkSize - 1) \div ChunkSize
MinI(a, b) == IF a < b THEN a ELSE b

Init == st = [lvl |-> 0, i |-> 0]
Next == \/ st.lvl = 0 /\ \E c \in 1..NChunks : st' = [lvl |-> 1, i |-> c]
        \/ st.lvl = 1 /\ \E i \in ((st.i - 1) * ChunkSize + 1)..MinI(st.i * ChunkSize, N) :
                            st' = [lvl |-> 2, i |-> i]
TraceSpec == Init /\ [][Next]_st

Conforms ==
  st.lvl = 2 =>
    LET r == Recs[st.i]
        e == Spec(r.op, r.args)
    IN  IF Same(e, r.obs) THEN TRUE
        ELSE PrintT(<<"MISMATCH", ToJson([id |-> r.id, exp |-> e])>>) /\ FALSE
=============================================================================
