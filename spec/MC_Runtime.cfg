SPECIFICATION Spec
CONSTANTS
  NW <- MC_NW
  Scripts <- MC_Scripts
  MaxTick <- MC_MaxTick
  MaxPid <- MC_MaxPid
  MaxFuel <- MC_MaxFuel
  Placement <- MC_Placement
  Defects <- MC_Defects
  IOModes <- MC_IOModes
  Lines <- MC_Lines
CHECK_DEADLOCK FALSE
INVARIANTS
  ExactlyOnce Settled NoLostWakeup SpawnerGetsPid SpawnExactlyOnce
  SelectPriority EarliestAccepted MailboxPreserved TimeoutNotEarly AwaitYieldsResult AwaitResultNotDropped
  NoInternalError FailureContained AwaitersFail
PROPERTIES
  ResultStable
