------------------------------- MODULE Types -------------------------------
(***************************************************************************)
(* Semantic types of Quiver by BOUNDED VALUE SETS (properties C09, C08).   *)
(*                                                                         *)
(* A type graph mirrors quiver_core::types: G = [types, tuples], ids are   *)
(* positions (1-based here; the replay tool maps them to registry ids):    *)
(*   types[n]  = [k |-> "int"] | [k |-> "bin"] | [k |-> "ref"]             *)
(*             | [k |-> "res", r |-> name]          Resource(name)         *)
(*             | [k |-> "tup", t |-> tuple index]   Tuple(id)              *)
(*             | [k |-> "par", name, fs |-> <<[l, t]>>]   Partial          *)
(*             | [k |-> "uni", ms |-> <<ids>>]      Union(ids)             *)
(*             | [k |-> "cyc", n |-> depth]         Cycle(depth)           *)
(*             | [k |-> "fn", p, r, rc]             Callable               *)
(*             | [k |-> "proc", s, r]               Process (both known)   *)
(*   tuples[t] = [name |-> "" | "A", fs |-> <<[l |-> "" | "x", t |-> id]>>]*)
(* "" is "no name" / "no label".  Type variables are outside the           *)
(* quantifier of C09 (closed types) and are not represented.               *)
(*                                                                         *)
(* Cycle(k) denotes the k-th enclosing union-or-callable boundary, as      *)
(* quiver-compiler/src/compiler/typing.rs constructs it (recursion_depth   *)
(* is incremented by Union and Function only).  A type occurrence is       *)
(* therefore a CLOSURE (node, ctx), ctx = the stack of enclosing boundary  *)
(* nodes, innermost last; Cycle(k) in ctx is the closure                   *)
(* (ctx[Len-k+1], ctx[1..Len-k]).                                          *)
(*                                                                         *)
(* Values: [k|->"int",n], [k|->"bin",b], [k|->"ref",i],                    *)
(*   [k|->"tup", name, ls (labels), fs (field values)],                    *)
(*   [k|->"res", r], and signature-tagged function / process values        *)
(*   [k|->"fn", n, ctx], [k|->"proc", n, ctx]  (the closure of their own   *)
(*   Callable / Process type).                                             *)
(*                                                                         *)
(* Vals(G,U,n,ctx,d): values of depth <= d that inhabit the closure.       *)
(* Everything in Vals is a TRUE member.  Membership of an arbitrary value  *)
(* is three-valued because a function value inhabits Callable{p,r} iff     *)
(* p <= its parameter and its result <= r, and bounded enumeration can     *)
(* refute a containment (with a witness) but prove it only for types       *)
(* whose bounded value set is exhaustive (Exact).  In(must, ...) is the    *)
(* pair of approximations: In(TRUE,..) = definitely a member,              *)
(* ~In(FALSE,..) = definitely not a member.  For values without function / *)
(* process components both coincide with structural inhabitation.          *)
(* docs/spec.md gives no variance for the send side of a process nor for   *)
(* the receive component of a callable: unless those components are the    *)
(* same type the answer is "unknown" (may, not must).                      *)
(* Hence every verdict used to raise an alarm carries a concrete witness:  *)
(*   NotContained(A,B): v in Vals(A), definitely not in B;                 *)
(*   Overlap(A,B):      v in Vals(A) or Vals(B), definitely in both.       *)
(* Bounded depth can miss a violation but cannot invent one.               *)
(***************************************************************************)
EXTENDS Naturals, Sequences, FiniteSets, TLC

Ints == {[k |-> "int", n |-> 0], [k |-> "int", n |-> 1]}
Bins == {[k |-> "bin", b |-> <<>>], [k |-> "bin", b |-> <<1>>]}
Refs == {[k |-> "ref", i |-> 0]}
I0   == [k |-> "int", n |-> 0]

MaxN(S) == IF S = {} THEN 0 ELSE CHOOSE x \in S : \A y \in S : y <= x
Dec(x)  == IF x = 0 THEN 0 ELSE x - 1
Range(s) == {s[i] : i \in DOMAIN s}

TupVal(name, ls, fs) == [k |-> "tup", name |-> name, ls |-> ls, fs |-> fs]

(* Children of a node as a sequence of ids *)
Kids(G, n) ==
  LET t == G.types[n] IN
  CASE t.k = "tup"  -> [i \in DOMAIN G.tuples[t.t].fs |-> G.tuples[t.t].fs[i].t]
    [] t.k = "par"  -> [i \in DOMAIN t.fs |-> t.fs[i].t]
    [] t.k = "uni"  -> t.ms
    [] t.k = "fn"   -> <<t.p, t.r, t.rc>>
    [] t.k = "proc" -> <<t.s, t.r>>
    [] OTHER        -> <<>>

IsBoundary(G, n) == G.types[n].k \in {"uni", "fn"}
Sub(G, n, ctx) == IF IsBoundary(G, n) THEN Append(ctx, n) ELSE ctx

(* Esc(G,n): how many boundaries ABOVE n its Cycle nodes reach (0 = closed) *)
RECURSIVE Esc(_, _)
Esc(G, n) ==
  LET t == G.types[n] IN
  IF t.k = "cyc" THEN t.n
  ELSE LET m == MaxN({Esc(G, c) : c \in Range(Kids(G, n))})
       IN  IF IsBoundary(G, n) THEN Dec(m) ELSE m

Closed(G, n) == Esc(G, n) = 0

(* Contractive: no Cycle in an unguarded position (root or union member,   *)
(* transitively), below n when entered with `guarded`; and no union        *)
(* directly inside a union (the compiler flattens those).                  *)
RECURSIVE Contr(_, _, _)
Contr(G, n, guarded) ==
  LET t == G.types[n] IN
  CASE t.k = "cyc" -> guarded
    [] t.k = "uni" -> \A c \in Range(t.ms) : Contr(G, c, FALSE)
    [] OTHER       -> \A c \in Range(Kids(G, n)) : Contr(G, c, TRUE)

(* A root the semantics is defined for *)
WellFormed(G, n) == Closed(G, n) /\ Contr(G, n, FALSE)

(* ctx of a closure, normalised: a closed node does not depend on it *)
Norm(G, n, ctx) == IF Closed(G, n) THEN <<>> ELSE ctx
Same(G, a, ca, b, cb) == a = b /\ Norm(G, a, ca) = Norm(G, b, cb)

CycOk(t, ctx) == t.n <= Len(ctx)
CycN(t, ctx)  == ctx[Len(ctx) - t.n + 1]
CycC(t, ctx)  == SubSeq(ctx, 1, Len(ctx) - t.n)

(* all closures reachable from (n, ctx), itself included *)
RECURSIVE Reach(_, _, _)
Reach(G, n, ctx) ==
  LET t == G.types[n] IN
  {[n |-> n, ctx |-> Norm(G, n, ctx)]} \cup
  (IF t.k = "cyc" THEN {}
   ELSE UNION {Reach(G, c, Sub(G, n, ctx)) : c \in Range(Kids(G, n))})

(* the tuple closures in play below a set of roots: the universe over      *)
(* which partial types are enumerated                                      *)
TupleUniverse(G, roots) ==
  {c \in UNION {Reach(G, r, <<>>) : r \in roots} : G.types[c.n].k = "tup"}

AllNames(G) ==
  ({G.tuples[i].name : i \in DOMAIN G.tuples} \cup
   {G.types[i].name : i \in {j \in DOMAIN G.types : G.types[j].k = "par"}}) \ {""}

(* cartesian product of a sequence of sets, as a set of sequences *)
RECURSIVE SeqProd(_)
SeqProd(ss) ==
  IF Len(ss) = 0 THEN {<<>>}
  ELSE LET rest == SeqProd(SubSeq(ss, 2, Len(ss)))
       IN  {<<x>> \o r : x \in ss[1], r \in rest}

RECURSIVE Vals(_, _, _, _, _), In(_, _, _, _, _, _, _), Exact(_, _, _, _)

(* Exact: Vals(n,ctx,d) represents EVERY value of the closure as far as    *)
(* containment on the left is concerned (ints/bins by representatives, a   *)
(* function type by its own signature, which is its largest element)       *)
Exact(G, n, ctx, d) ==
  LET t == G.types[n] IN
  /\ d >= 1
  /\ CASE t.k = "tup" -> \A c \in Range(Kids(G, n)) : Exact(G, c, ctx, d - 1)
       [] t.k = "uni" -> \A c \in Range(t.ms) : Exact(G, c, Append(ctx, n), d)
       [] t.k \in {"par", "cyc"} -> FALSE
       [] OTHER -> TRUE

(* X <= Y, definitely (must) or possibly (~must); ~Cont(FALSE,..) has a witness *)
Cont(G, U, must, x, cx, y, cy, d) ==
  \/ Same(G, x, cx, y, cy)
  \/ /\ must => Exact(G, x, cx, d)
     /\ \A v \in Vals(G, U, x, cx, d) : In(G, U, must, v, y, cy, d)

Vals(G, U, n, ctx, d) ==
  IF d = 0 THEN {} ELSE
  LET t == G.types[n] IN
  CASE t.k = "int" -> Ints
    [] t.k = "bin" -> Bins
    [] t.k = "ref" -> Refs
    [] t.k = "res" -> {[k |-> "res", r |-> t.r]}
    [] t.k = "tup" ->
         LET ti == G.tuples[t.t]
             ls == [i \in DOMAIN ti.fs |-> ti.fs[i].l]
         IN  {TupVal(ti.name, ls, fs) :
                fs \in SeqProd([i \in DOMAIN ti.fs |-> Vals(G, U, ti.fs[i].t, ctx, d - 1)])}
    [] t.k = "par" ->
         LET names == IF t.name = "" THEN {""} \cup AllNames(G) ELSE {t.name}
             ls    == [i \in DOMAIN t.fs |-> t.fs[i].l]
             fss   == SeqProd([i \in DOMAIN t.fs |-> Vals(G, U, t.fs[i].t, ctx, d - 1)])
             synth == {TupVal(nm, ls, fs) : nm \in names, fs \in fss} \cup
                      (IF d >= 2
                       THEN {TupVal(nm, ls \o <<"">>, fs \o <<I0>>) : nm \in names, fs \in fss}
                       ELSE {})
             cands == synth \cup UNION {Vals(G, U, c.n, c.ctx, d) : c \in U}
         IN  {v \in cands : In(G, U, TRUE, v, n, ctx, d)}
    [] t.k = "uni" -> UNION {Vals(G, U, c, Append(ctx, n), d) : c \in Range(t.ms)}
    [] t.k = "cyc" -> IF CycOk(t, ctx) THEN Vals(G, U, CycN(t, ctx), CycC(t, ctx), d) ELSE {}
    [] t.k = "fn"  -> {[k |-> "fn", n |-> n, ctx |-> Norm(G, n, ctx)]}
    [] t.k = "proc" -> {[k |-> "proc", n |-> n, ctx |-> Norm(G, n, ctx)]}

(* In(must = TRUE): v definitely inhabits (n, ctx); In(must = FALSE): v possibly does. *)
(* A dangling Cycle (only in graphs returned by the code) is read as "any value" on the *)
(* may side, the reading most favourable to the code.                                    *)
In(G, U, must, v, n, ctx, d) ==
  LET t == G.types[n] IN
  CASE t.k = "int" -> v.k = "int"
    [] t.k = "bin" -> v.k = "bin"
    [] t.k = "ref" -> v.k = "ref"
    [] t.k = "res" -> v.k = "res" /\ v.r = t.r
    [] t.k = "tup" ->
         /\ v.k = "tup"
         /\ LET ti == G.tuples[t.t] IN
            /\ v.name = ti.name
            /\ Len(v.fs) = Len(ti.fs)
            /\ \A i \in DOMAIN ti.fs :
                 v.ls[i] = ti.fs[i].l /\ In(G, U, must, v.fs[i], ti.fs[i].t, ctx, d)
    [] t.k = "par" ->
         /\ v.k = "tup"
         /\ t.name = "" \/ v.name = t.name
         /\ \A j \in DOMAIN t.fs : \E i \in DOMAIN v.fs :
              v.ls[i] = t.fs[j].l /\ In(G, U, must, v.fs[i], t.fs[j].t, ctx, d)
    [] t.k = "uni" -> \E c \in Range(t.ms) : In(G, U, must, v, c, Append(ctx, n), d)
    [] t.k = "cyc" -> IF CycOk(t, ctx) THEN In(G, U, must, v, CycN(t, ctx), CycC(t, ctx), d)
                      ELSE ~must
    [] t.k = "fn" ->
         /\ v.k = "fn"
         /\ \/ Same(G, v.n, v.ctx, n, ctx)
            \/ IF d <= 1 THEN ~must
               ELSE LET f  == G.types[v.n]
                        fc == Append(v.ctx, v.n)
                        tc == Append(ctx, n)
                    IN  /\ Cont(G, U, must, t.p, tc, f.p, fc, d - 1)   \* parameter: contravariant
                        /\ Cont(G, U, must, f.r, fc, t.r, tc, d - 1)   \* result: covariant
                        /\ Same(G, f.rc, fc, t.rc, tc) \/ ~must        \* receive: unspecified
    [] t.k = "proc" ->
         /\ v.k = "proc"
         /\ \/ Same(G, v.n, v.ctx, n, ctx)
            \/ IF d <= 1 THEN ~must
               ELSE LET p == G.types[v.n] IN
                    /\ Cont(G, U, must, p.r, v.ctx, t.r, ctx, d - 1)   \* awaited result: covariant
                    /\ Same(G, p.s, v.ctx, t.s, ctx) \/ ~must          \* send side: unspecified

---------------------------------------------------------------------------
(* Derived notions on roots (closed nodes, empty context) *)

ValsOf(G, U, a, d)       == Vals(G, U, a, <<>>, d)
Inhabits(G, U, v, a, d)  == In(G, U, TRUE, v, a, <<>>, d)     \* definitely
MayInhabit(G, U, v, a, d) == In(G, U, FALSE, v, a, <<>>, d)   \* not refuted

(* witnesses of non-containment: values of A definitely outside B *)
Escapees(G, U, a, b, d) == {v \in ValsOf(G, U, a, d) : ~MayInhabit(G, U, v, b, d)}
Contained(G, U, a, b, d) == Escapees(G, U, a, b, d) = {}
(* definite containment (used by C08: static type of the value inside the pattern type) *)
ContainedMust(G, U, a, b, d) == Cont(G, U, TRUE, a, <<>>, b, <<>>, d)

(* witnesses of overlap: values definitely in both *)
Common(G, U, a, b, d) ==
  {v \in ValsOf(G, U, a, d) : Inhabits(G, U, v, b, d)} \cup
  {v \in ValsOf(G, U, b, d) : Inhabits(G, U, v, a, d)}
Overlap(G, U, a, b, d) == Common(G, U, a, b, d) # {}
(* values definitely in A and definitely not in B *)
Diff(G, U, a, b, d) == Escapees(G, U, a, b, d)

Wit(S) == IF S = {} THEN <<>> ELSE <<CHOOSE v \in S : TRUE>>

(* The values of the STATIC type of a literal expression denoting v: same shape, any   *)
(* int / bin at the leaves; a function literal has exactly its own signature.           *)
RECURSIVE ShapeVals(_)
ShapeVals(v) ==
  CASE v.k = "int" -> Ints
    [] v.k = "bin" -> Bins
    [] v.k = "tup" -> {TupVal(v.name, v.ls, fs) :
                         fs \in SeqProd([i \in DOMAIN v.fs |-> ShapeVals(v.fs[i])])}
    [] OTHER -> {v}

StaticContained(G, U, v, a, d) == \A w \in ShapeVals(v) : Inhabits(G, U, w, a, d)

(* constructor census of the part of G below a root (for evidence) *)
RECURSIVE KindsBelow(_, _)
KindsBelow(G, n) ==
  {G.types[n].k} \cup UNION {KindsBelow(G, c) : c \in Range(Kids(G, n))}
=============================================================================
