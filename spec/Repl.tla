-------------------------------- MODULE Repl --------------------------------
(***************************************************************************)
(* The REPL session machine (C11).                                         *)
(*                                                                         *)
(* A session is a history of lines.  The specification says what a session  *)
(* must do in terms of the ONE-PROGRAM reading of the same lines, which is  *)
(* supplied as an uninterpreted oracle P (for the trace check it is the     *)
(* observed behaviour of the compiler+VM on the joined program; the language*)
(* engine additionally judges those programs against SeqLang):              *)
(*                                                                         *)
(*   state   acc   the accepted lines so far (rejected lines leave no trace)*)
(*           dead  some accepted line evaluated to nil (the one program      *)
(*                 would have short-circuited: C11 promises nothing after)  *)
(*           vars  the session's variables: name -> value                   *)
(*   Line(l) if the REPL rejects l : state unchanged (vars, acc, dead)       *)
(*           else acc' = acc \o <<l>>,                                       *)
(*                ~dead => value(l) = P(acc') and vars' = V(acc')            *)
(*                dead' = dead \/ value(l) = nil                             *)
(*                                                                         *)
(* This module generates the histories (TLC simulation over the line pool)  *)
(* ; ReplTrace.tla judges recorded sessions.                                *)
(***************************************************************************)
EXTENDS Integers, Sequences, TLC, Json

CONSTANTS NLines,    \* size of the line pool (lines are 1..NLines; their text lives in the engine)
          MaxLen     \* longest history generated

VARIABLES hist, done
vars == <<hist, done>>

Init == hist = <<>> /\ done = FALSE
Extend == /\ ~done /\ Len(hist) < MaxLen
          /\ \E l \in 1..NLines : hist' = Append(hist, l)
          /\ done' = FALSE
Stop == /\ ~done /\ Len(hist) >= 2
        /\ done' = TRUE /\ hist' = hist
Next == Extend \/ Stop
Spec == Init /\ [][Next]_vars

\* one JSON line per generated history
Emit == done => PrintT(<<"CASE", ToJson(hist)>>)
=============================================================================
