SPECIFICATION Spec
CONSTANTS
  NLines = 26
  MaxLen = 5
CHECK_DEADLOCK FALSE
INVARIANT Emit
