------------------------------ MODULE Runtime ------------------------------
(***************************************************************************)
(* Mechanism model (L2) of the quiver runtime: Environment, Workers and     *)
(* Executors, communicating only through two FIFO channels per worker.     *)
(*                                                                         *)
(* One TLA+ action per critical section of the code:                       *)
(*   WorkerStep(w, k, fuel)  = Worker::step: handle the first k queued     *)
(*                             commands, run ONE executor slice, forward   *)
(*                             its action, report completions              *)
(*   EnvHandle(w)            = Environment::handle_event for the oldest    *)
(*                             event of worker w (Environment::step is a   *)
(*                             sequence of these)                          *)
(*   Tick(d)                 = the clock argument of Worker::step moves    *)
(*                                                                         *)
(* What a process does is given by a *script*: the sequence of operations  *)
(* of it that the runtime can observe (spawn, send, select, fail, return). *)
(* Everything else a program computes is local and is abstracted by the    *)
(* slice-length choice `fuel` (a slice may end between any two operations).*)
(*                                                                         *)
(* Code anchors are given as file:function.  The model describes the tree  *)
(* with the `fix:` commits applied; the behaviour before each fix is kept  *)
(* behind a member of the constant set Defects so that TLC can exhibit the *)
(* defect (see DESIGN.md section 7).                                       *)
(***************************************************************************)
EXTENDS RtBase

CONSTANTS NW,        \* number of workers
          Scripts,   \* Scripts[s] = sequence of operations; script 1 is the entry process
          MaxTick,   \* the clock never exceeds this
          MaxPid,    \* process ids are 0..MaxPid-1
          MaxFuel,   \* largest number of script operations attempted in one slice
          Lines,     \* REPL session: the entry scripts of its lines, in order (<<1>> = a single program)
          Placement, \* "mod": pid % NW as the code does; "any": every placement
          Defects,   \* subset of DefectNames: pre-fix behaviours switched on
          IOModes    \* how the effect backend answers: "now" (immediate completion) and/or "later" (the completion
                     \* is returned by process_completions at a later Environment::step)

DefectNames == {"replace_responses",   \* environment.rs handle_process_results overwrote a worker's earlier answer
                "stale_awaiting",      \* executor/worker: awaiting entries outlived their select
                "wake_spawning"}       \* worker.rs update_await_results woke a process parked in `spawning`

Workers == 0..(NW - 1)
Pids    == 0..(MaxPid - 1)
NRegs   == 8

VARIABLES
  cmdQ,       \* [Workers -> Seq(Command)]         transport.rs, environment -> worker
  evtQ,       \* [Workers -> Seq(Event)]           transport.rs, worker -> environment
  runq,       \* [Workers -> Seq(Pid)]             Executor.queue
  spawning,   \* [Workers -> SUBSET Pid]           Executor.spawning
  selecting,  \* [Workers -> SUBSET Pid]           Executor.selecting
  awaited,    \* [Workers -> SUBSET Pid]           Worker.awaited
  awaitersFor,\* [Workers -> [SUBSET Pid -> Seq(Pid)]]  Worker.awaiters_for_target
  resultReq,  \* [Workers -> SUBSET Pid]           Worker.pending_result_requests
  effecting,  \* [Workers -> SUBSET Pid]           Executor.effecting
  nextRef,    \* [Workers -> Nat]                  Executor.next_ref
  owner,      \* resource -> owning pid            Environment.resource_ownership (association list)
  backend,    \* [open: SUBSET Nat, next: Nat, inflight: Seq(completion)]   the effect backend
  proc,       \* [Pids -> process record]          Executor.processes (of the hosting worker)
  router,     \* [allocated pids -> Workers]       Environment.process_router
  nextPid,    \*                                   Environment.next_process_id
  pending,    \* [awaiters -> [expected, responses]]  Environment.pending_awaits
  now,        \* the current_time_ms argument
  outcome,    \* None / Some(result) of the entry process as delivered to the host
  obs         \* observation history for the properties (RuntimeProps)

vars == <<cmdQ, evtQ, runq, spawning, selecting, awaited, awaitersFor, resultReq, effecting, nextRef,
          owner, backend, proc, router, nextPid, pending, now, outcome, obs>>

(* ---------------------------------------------------------------------- *)
(* Process records                                                        *)
(* ---------------------------------------------------------------------- *)
NoProc == [live |-> FALSE]

NewProc(script, regs, persistent, path) ==
  [live |-> TRUE, script |-> script, pc |-> 1, regs |-> regs,
   mailbox |-> <<>>, result |-> None, sel |-> None,
   awaiting |-> <<>>,           \* sequence of <<target, option>> pairs sorted by target (HashMap<Pid, Option<Value>>)
   phase |-> "run",             \* "run" | "filter" (inside a filter body) | "verdict" (filter returned)
   verdict |-> FALSE,
   persistent |-> persistent,
   path |-> path]               \* ghost: spawn path, for schedule-independent naming

EmptyRegs == [i \in 1..NRegs |-> Nil]

(* ---------------------------------------------------------------------- *)
(* Select sources                                                         *)
(* ---------------------------------------------------------------------- *)
(* ---------------------------------------------------------------------- *)
(* Worker-local state as one record, transformed by pure operators        *)
(* ---------------------------------------------------------------------- *)
WS(w) == [w |-> w, runq |-> runq[w], spawning |-> spawning[w], selecting |-> selecting[w],
          awaited |-> awaited[w], awaitersFor |-> awaitersFor[w], resultReq |-> resultReq[w],
          effecting |-> effecting[w], nextRef |-> nextRef[w],
          proc |-> proc, out |-> <<>>, obs |-> obs, halt |-> FALSE]

Emit(S, e)  == [S EXCEPT !.out = Append(@, e)]
Wake(S, p)  == IF p \in S.selecting
               THEN [S EXCEPT !.selecting = @ \ {p}, !.runq = Append(@, p)]
               ELSE S

Status(S, t) ==   \* executor.rs get_status
  IF ~S.proc[t].live THEN "unknown"
  ELSE IF Contains(S.runq, t) THEN "active"
  ELSE IF t \in S.spawning \/ t \in S.selecting \/ t \in S.effecting THEN "waiting"
  ELSE IF S.proc[t].result # None /\ ~S.proc[t].result[1].ok THEN "failed"
  ELSE IF S.proc[t].result # None THEN "completed"
  ELSE "active"

(* ---- commands (worker.rs handle_command) ---- *)
RECURSIVE QueryTargets(_, _, _, _)
QueryTargets(S, a, ts, acc) ==      \* worker.rs query_and_await
  IF ts = <<>> THEN Emit(S, [t |-> "ProcessResults", a |-> a, rs |-> acc])
  ELSE LET t == Head(ts) IN
       IF Status(S, t) = "completed"
       THEN QueryTargets(S, a, Tail(ts), APut(acc, t, Some(S.proc[t].result[1])))
       ELSE QueryTargets([S EXCEPT !.awaited = @ \cup {t},
                                   !.awaitersFor = IF AHas(@, t)
                                                   THEN APut(@, t, Append(AGet(@, t), a))
                                                   ELSE APut(@, t, <<a>>)],
                         a, Tail(ts), APut(acc, t, None))

RECURSIVE ApplyResults(_, _, _)
ApplyResults(S, a, rs) ==           \* worker.rs update_await_results / notify_result
  IF rs = <<>> THEN S
  ELSE LET t == Head(rs)[1]
           r == Head(rs)[2]
           P == S.proc[a]
           listed == P.live /\ AHas(P.awaiting, t)
           deliver == listed \/ "stale_awaiting" \in Defects
           S1 == IF r = None \/ ~P.live THEN S
                 ELSE IF r[1].ok
                 THEN Wake(IF deliver
                           THEN [S EXCEPT !.proc[a].awaiting = APut(@, t, Some(r[1].v))]
                           ELSE S, a)
                 ELSE IF deliver /\ P.result = None                 \* (a finished process keeps its result: 34b580c)
                 THEN [S EXCEPT !.proc[a].result = Some(r[1])]      \* frames cleared: the process is over
                 ELSE S
       IN ApplyResults(S1, a, Tail(rs))

AnySome(rs) == \E i \in 1..Len(rs) : rs[i][2] # None

HandleCmd(S, c) ==
  CASE c.t = "ResumeProcess" ->      \* worker.rs resume_process (host-level; a failed process cannot be resumed)
         [S EXCEPT !.proc[c.id].result = None, !.proc[c.id].script = c.script,
                   !.proc[c.id].pc = 1, !.runq = Append(@, c.id)]
    [] c.t = "GetResult" ->          \* worker.rs get_result
         IF S.proc[c.p].result # None
         THEN Emit(S, [t |-> "ResultResponse", r |-> S.proc[c.p].result[1]])
         ELSE [S EXCEPT !.resultReq = @ \cup {c.p}]
    [] c.t = "SpawnProcess" ->       \* executor.rs spawn_process
         [S EXCEPT !.proc[c.id] = NewProc(c.script, c.regs, FALSE, c.path),
                   !.runq = Append(@, c.id)]
    [] c.t = "NotifySpawn" ->        \* executor.rs notify_spawn: push the pid, advance the counter
         LET P == S.proc[c.p]
             op == Scripts[P.script][P.pc]
             S1 == [S EXCEPT !.spawning = @ \ {c.p}]
             S2 == IF P.result = None /\ P.pc <= Len(Scripts[P.script]) /\ op.op = "spawn"
                   THEN [S1 EXCEPT !.proc[c.p].regs[op.dst] = PidV(c.pid), !.proc[c.p].pc = @ + 1]
                   ELSE S1
         IN IF c.p \in S.spawning THEN [S2 EXCEPT !.runq = Append(@, c.p)] ELSE S2
    [] c.t = "DeliverMessage" ->     \* executor.rs notify_message
         LET S1 == IF S.proc[c.to].live
                   THEN [S EXCEPT !.proc[c.to].mailbox = Append(@, c.m),
                                  !.obs.arrived[c.to] = Append(@, c.m)]
                   ELSE S
         IN Wake(S1, c.to)
    [] c.t = "EffectCompletion" ->   \* executor.rs notify_effect_completion
         LET P == S.proc[c.p]
             op == Scripts[P.script][P.pc]
             S1 == [S EXCEPT !.effecting = @ \ {c.p}]
             S2 == IF ~P.live THEN S1
                   ELSE IF P.phase = "fwait"            \* the effect was requested by a filter body
                   THEN IF P.result # None THEN S1      \* (failed meanwhile by an awaited process: nothing changes)
                        ELSE IF c.ok THEN [S1 EXCEPT !.proc[c.p].phase = "fdone"]
                        ELSE [S1 EXCEPT !.proc[c.p].result = Some(ErrV("InvalidArgument:Effect operation failed: " \o c.e))]
                   ELSE IF c.ok
                   THEN [S1 EXCEPT !.proc[c.p].regs[op.dst] = c.v, !.proc[c.p].pc = @ + 1]
                   ELSE IF P.result # None THEN S1        \* (a finished process keeps its result: 34b580c)
                   ELSE [S1 EXCEPT !.proc[c.p].result = Some(ErrV("InvalidArgument:Effect operation failed: " \o c.e))]
         IN IF c.p \in S.effecting THEN [S2 EXCEPT !.runq = Append(@, c.p)] ELSE S2
    [] c.t = "QueryAndAwait" -> QueryTargets(S, c.a, c.ts, <<>>)
    [] c.t = "UpdateAwaitResults" ->
         IF AnySome(c.rs) THEN ApplyResults(S, c.a, c.rs)
         ELSE IF "wake_spawning" \in Defects /\ c.a \in S.spawning     \* executor.rs mark_active
              THEN [S EXCEPT !.spawning = @ \ {c.a}, !.runq = Append(@, c.a)]
              ELSE Wake(S, c.a)

RECURSIVE FoldCmds(_, _)
FoldCmds(S, cs) == IF cs = <<>> THEN S ELSE FoldCmds(HandleCmd(S, Head(cs)), Tail(cs))

(* ---- timeouts (executor.rs check_expired_timeouts) ---- *)
HasExpired(P, t) ==
  /\ P.live /\ P.sel # None /\ P.sel[1].start # None
  /\ \E i \in 1..Len(P.sel[1].srcs) :
        P.sel[1].srcs[i].k = "timeout" /\ t - P.sel[1].start[1] >= P.sel[1].srcs[i].d
ExpiredSet(S, t) == {p \in S.selecting : HasExpired(S.proc[p], t)}
Requeue(S, order) == [S EXCEPT !.selecting = @ \ ToSet(order), !.runq = @ \o order]

(* ---------------------------------------------------------------------- *)
(* The documented readiness of a select source (used by the properties,   *)
(* deliberately NOT by the scan below)                                    *)
(* ---------------------------------------------------------------------- *)
(* ---- select (executor.rs handle_select .. complete_select) ---- *)
\* complete_select: tear the state down, bind the value, advance; record the completion for L1
Complete(S, p, i, v, removed) ==
  LET P == S.proc[p]
      st == P.sel[1]
      op == Scripts[P.script][P.pc]
      targets == {st.srcs[j].t : j \in {j \in 1..Len(st.srcs) : st.srcs[j].k = "await"}}
      aw == IF "stale_awaiting" \in Defects THEN P.awaiting
            ELSE SelectSeq(P.awaiting, LAMBDA e : e[1] \notin targets)
      entry == [p |-> p, i |-> i, v |-> v, src |-> st.srcs[i],
                earlier |-> {j \in 1..(i - 1) : SrcReady(P, st.srcs[j], now)},
                mailbox |-> P.mailbox, removed |-> removed, now |-> now,
                first |-> st.first, awaiting |-> P.awaiting]
  IN [S EXCEPT !.proc[p].sel = None, !.proc[p].regs[op.dst] = v, !.proc[p].pc = @ + 1,
               !.proc[p].phase = "run", !.proc[p].awaiting = aw,
               !.proc[p].mailbox = IF removed = 0 THEN @ ELSE RemoveAt(@, removed),
               !.obs.selects = Append(@, entry)]

\* scan_mailbox_for_message for receive source i (receive index r) starting at cursor c (0-based)
\* result: <<"complete", j>> | <<"call", j>> | <<"continue", newCursor>>
RECURSIVE ScanFrom(_, _, _)
ScanFrom(mb, src, c) ==
  IF c >= Len(mb) THEN <<"continue", c>>
  ELSE IF Compatible(mb[c + 1], src)
       THEN IF src.filt THEN <<"call", c>> ELSE <<"complete", c>>
       ELSE ScanFrom(mb, src, c + 1)

\* process_select_sources from source i on; `snap` is the select state cloned at entry, `v` the verdict option
RECURSIVE ScanSources(_, _, _, _, _)
ScanSources(S, p, i, snap, v) ==
  LET P == S.proc[p]
      st == P.sel[1]
  IN
  IF i > Len(st.srcs)
  THEN [S EXCEPT !.selecting = @ \cup {p}, !.halt = TRUE]                 \* no source ready: park
  ELSE
  LET src == st.srcs[i] IN
  CASE src.k = "timeout" ->
         IF now - st.start[1] >= src.d THEN Complete(S, p, i, Nil, 0)
         ELSE ScanSources(S, p, i + 1, snap, v)
    [] src.k = "await" ->
         IF AHas(P.awaiting, src.t) /\ AGet(P.awaiting, src.t) # None
         THEN Complete(S, p, i, AGet(P.awaiting, src.t)[1], 0)
         ELSE ScanSources(S, p, i + 1, snap, v)
    [] src.k = "recv" ->
         LET r == RecvIndex(st.srcs, i)
             justRan == snap.receiving # None /\ snap.receiving[1][1] = r /\ v # None
         IN
         IF justRan /\ v[1]
         THEN \* handle_receive_result, accepted: remove mailbox[cursor], yield the held message
              LET c == st.cursors[r + 1] IN
              Complete(S, p, i, snap.receiving[1][2], IF c < Len(P.mailbox) THEN c + 1 ELSE 0)
         ELSE
         LET S1 == IF justRan      \* rejected: advance the cursor, drop the held message
                   THEN [S EXCEPT !.proc[p].sel[1].cursors[r + 1] = @ + 1,
                                  !.proc[p].sel[1].receiving = None]
                   ELSE S
             P1 == S1.proc[p]
             res == ScanFrom(P1.mailbox, src, P1.sel[1].cursors[r + 1])
         IN CASE res[1] = "complete" ->
                   Complete(S1, p, i, P1.mailbox[res[2] + 1], res[2] + 1)
              [] res[1] = "call" ->     \* call_receive_function: hold the message, run the filter body
                   [S1 EXCEPT !.proc[p].sel[1].receiving = Some(<<r, P1.mailbox[res[2] + 1]>>),
                              !.proc[p].sel[1].cursors[r + 1] = res[2],
                              !.proc[p].phase = "filter"]
              [] OTHER ->
                   ScanSources(IF res[2] > snap.cursors[r + 1]
                               THEN [S1 EXCEPT !.proc[p].sel[1].cursors[r + 1] = res[2]]
                               ELSE S1,
                               p, i + 1, snap, v)

\* one execution of the Select instruction
ExecSelect(S, p) ==
  LET P == S.proc[p]
      op == Scripts[P.script][P.pc]
  IN
  IF P.sel = None
  THEN \* initialize_select
       LET srcs == [i \in 1..Len(op.srcs) |-> EvalSrc(op.srcs[i], P.regs)]
           ts == SelectSeq([i \in 1..Len(srcs) |-> IF srcs[i].k = "await" THEN srcs[i].t ELSE -1],
                           LAMBDA x : x >= 0)
           nrecv == Cardinality({i \in 1..Len(srcs) : IsRecv(srcs[i])})
           st == [srcs |-> srcs, cursors |-> [i \in 1..nrecv |-> 0],
                  start |-> IF ts = <<>> THEN Some(now) ELSE None,
                  receiving |-> None,
                  first |-> now]        \* ghost: when the select first executed
           RECURSIVE Reg(_, _)
           Reg(aw, xs) == IF xs = <<>> THEN aw ELSE Reg(APut(aw, Head(xs), None), Tail(xs))
       IN IF ts = <<>>
          THEN [S EXCEPT !.proc[p].sel = Some(st)]          \* the instruction is executed again
          ELSE Emit([S EXCEPT !.proc[p].sel = Some(st),
                              !.proc[p].awaiting = Reg(@, ts),
                              !.selecting = @ \cup {p},
                              !.halt = TRUE],
                    [t |-> "AwaitAction", a |-> p, ts |-> ts])
  ELSE \* handle_select_continuation + ensure_select_start_time + process_select_sources
       LET v == IF P.sel[1].receiving # None THEN Some(P.verdict) ELSE None
           S1 == IF P.sel[1].start = None THEN [S EXCEPT !.proc[p].sel[1].start = Some(now)] ELSE S
           S2 == [S1 EXCEPT !.proc[p].phase = "run"]
       IN ScanSources(S2, p, 1, S2.proc[p].sel[1], v)

(* ---- one script operation of process p; sets halt when the slice must end ---- *)
Fail(S, p, e) == [S EXCEPT !.proc[p].result = Some(ErrV(e)), !.halt = TRUE]

ExecOp(S, p) ==
  LET P == S.proc[p]
      ops == Scripts[P.script]
  IN
  IF P.phase \in {"filter", "fdone"}
  THEN \* the filter body runs to its end; a function return ends the slice (executor.rs step)
       \* (a body that calls an effect builtin first parks the process in `effecting` - phase "fwait" - and
       \* goes on - phase "fdone" - when the completion has arrived)
       LET st == P.sel[1]
           i == CHOOSE i \in 1..Len(st.srcs) : IsRecv(st.srcs[i]) /\ RecvIndex(st.srcs, i) = st.receiving[1][1]
           src == st.srcs[i]
       IN IF src.body = "spawn" THEN Fail(S, p, "OperationNotAllowed:spawn")
          ELSE IF src.body = "send" THEN Fail(S, p, "OperationNotAllowed:send")
          ELSE IF src.body = "fail" THEN Fail(S, p, "InvalidArgument:Division by zero")
          ELSE IF src.body \in {"effect", "effect_fail"} /\ P.phase = "filter"
          THEN Emit([S EXCEPT !.effecting = @ \cup {p}, !.halt = TRUE, !.proc[p].phase = "fwait"],
                    [t |-> "EffectRequest", p |-> p, op |-> IF src.body = "effect" THEN "open" ELSE "openfail",
                     res |-> None])
          ELSE IF src.body = "effect_read" /\ P.phase = "filter"     \* the body reads from a resource the script opened
          THEN IF P.regs[src.reg].k # "res" THEN Fail(S, p, "TypeMismatch")
               ELSE Emit([S EXCEPT !.effecting = @ \cup {p}, !.halt = TRUE, !.proc[p].phase = "fwait"],
                         [t |-> "EffectRequest", p |-> p, op |-> "use", res |-> Some(P.regs[src.reg].r)])
          ELSE [S EXCEPT !.proc[p].phase = "verdict",
                         !.proc[p].verdict = FilterAccepts(st.receiving[1][2], src),
                         !.halt = TRUE]
  ELSE IF P.pc > Len(ops) THEN Fail(S, p, "StackUnderflow")     \* fell off the script: not a well-formed scenario
  ELSE
  LET op == ops[P.pc] IN
  CASE op.op = "spawn" ->          \* executor.rs handle_spawn
         IF \E i \in 1..Len(S.obs.spawns) : S.obs.spawns[i] = <<p, P.pc>>
         THEN Fail(S, p, "StackUnderflow")      \* executed a second time: the operands are gone
         ELSE
         Emit([S EXCEPT !.spawning = @ \cup {p}, !.halt = TRUE,
                        !.obs.spawns = Append(@, <<p, P.pc>>)],
              [t |-> "SpawnAction", c |-> p, script |-> op.script,
               regs |-> [i \in 1..NRegs |-> IF i <= Len(op.args) THEN Eval(op.args[i], P.regs) ELSE Nil],
               path |-> Append(P.path, P.pc)])
    [] op.op = "send" ->           \* executor.rs handle_send
         LET target == P.regs[op.to]
             m == Eval(op.val, P.regs)
         IN IF target.k # "pid" THEN Fail(S, p, "TypeMismatch")
            ELSE Emit([S EXCEPT !.proc[p].pc = @ + 1, !.halt = TRUE,
                                !.obs.sent[p][target.p] = Append(@, m)],
                      [t |-> "DeliverAction", to |-> target.p, m |-> m])
    [] op.op = "retsend" ->        \* a send that is the last instruction: the action leaves and the process finishes
         LET target == P.regs[op.to]
             m == Eval(op.val, P.regs)
         IN IF target.k # "pid" THEN Fail(S, p, "TypeMismatch")
            ELSE Emit([S EXCEPT !.proc[p].result = Some(OkR(target)), !.halt = TRUE,
                                !.obs.sent[p][target.p] = Append(@, m)],
                      [t |-> "DeliverAction", to |-> target.p, m |-> m])
    [] op.op = "select" -> ExecSelect(S, p)
    [] op.op = "let"    -> [S EXCEPT !.proc[p].regs[op.dst] = Eval(op.val, P.regs), !.proc[p].pc = @ + 1]
    [] op.op = "selfpid" -> [S EXCEPT !.proc[p].regs[op.dst] = PidV(p), !.proc[p].pc = @ + 1]
    [] op.op = "mint"   ->         \* builtins/reference.rs: (worker_id << 48) | next_ref
         [S EXCEPT !.proc[p].regs[op.dst] = [k |-> "ref", w |-> S.w, c |-> S.nextRef],
                   !.proc[p].pc = @ + 1, !.nextRef = @ + 1,
                   !.obs.minted = Append(@, [k |-> "ref", w |-> S.w, c |-> S.nextRef])]
    [] op.op \in {"open", "use", "close"} ->   \* a builtin returning Action::RequestEffect: park in `effecting`
         IF op.op # "open" /\ P.regs[op.reg].k # "res" THEN Fail(S, p, "TypeMismatch")
         ELSE Emit([S EXCEPT !.effecting = @ \cup {p}, !.halt = TRUE],
                   [t |-> "EffectRequest", p |-> p, op |-> op.op,
                    res |-> IF op.op = "open" THEN None ELSE Some(P.regs[op.reg].r)])
    [] op.op = "fail"   -> Fail(S, p, op.e)
    [] op.op = "ret"    -> [S EXCEPT !.proc[p].result = Some(OkR(Eval(op.val, P.regs))), !.halt = TRUE]

RECURSIVE RunOps(_, _, _)
RunOps(S, p, n) ==
  IF n = 0 \/ S.halt \/ S.proc[p].result # None THEN S
  ELSE RunOps(ExecOp(S, p), p, n - 1)

\* processes of this executor that list `p` in their awaiting map (executor.rs step, finished branch)
LocalAwaiters(S, p) == {a \in Pids : /\ S.proc[a].live /\ router[a] = S.w
                                     /\ AHas(S.proc[a].awaiting, p)}

RECURSIVE NotifyLocal(_, _, _)
NotifyLocal(S, p, order) ==
  IF order = <<>> THEN S
  ELSE LET a == Head(order)
           r == S.proc[p].result[1]
           \* executor.rs step: notify_result(awaiter, pid, value, vec![]) - with an empty heap vector the
           \* injection of a value that carries a binary fails and the error is ignored (`.ok()`): such a
           \* result reaches a same-executor awaiter only through the environment, like any other
           S1 == IF r.ok /\ HasBin(r.v) THEN S
                 ELSE IF r.ok
                 THEN Wake([S EXCEPT !.proc[a].awaiting = APut(@, p, Some(r.v))], a)
                 ELSE IF S.proc[a].result # None THEN S         \* (a finished process keeps its result: 34b580c)
                 ELSE [S EXCEPT !.proc[a].result = Some(r)]
       IN NotifyLocal(S1, p, Tail(order))

\* after the instruction loop: requeue or finish
AfterSlice(S, p) ==
  IF S.proc[p].result # None THEN S
  ELSE IF p \in S.spawning \/ p \in S.selecting \/ p \in S.effecting THEN S
  ELSE [S EXCEPT !.runq = Append(@, p)]

(* ---- worker.rs check_completed_processes ---- *)
Finished(S) == {t \in S.awaited : S.proc[t].live /\ S.proc[t].result # None}

RECURSIVE ReportTo(_, _, _)
ReportTo(S, t, as) ==
  IF as = <<>> THEN S
  ELSE ReportTo(Emit(S, [t |-> "ProcessResults", a |-> Head(as),
                         rs |-> <<<<t, Some(S.proc[t].result[1])>>>>]), t, Tail(as))

RECURSIVE Report(_, _)
Report(S, order) ==
  IF order = <<>> THEN S
  ELSE LET t == Head(order)
           S1 == IF AHas(S.awaitersFor, t) THEN ReportTo(S, t, AGet(S.awaitersFor, t)) ELSE S
       IN Report([S1 EXCEPT !.awaitersFor = ADel(@, t), !.awaited = @ \ {t}], Tail(order))

AnswerRequests(S) ==
  LET ready == {p \in S.resultReq : S.proc[p].result # None}
      RECURSIVE Go(_, _)
      Go(T, ps) == IF ps = {} THEN T
                   ELSE LET p == CHOOSE x \in ps : TRUE
                        IN Go(Emit(T, [t |-> "ResultResponse", r |-> T.proc[p].result[1]]), ps \ {p})
  IN [Go(S, ready) EXCEPT !.resultReq = @ \ ready]

(* ---------------------------------------------------------------------- *)
(* Actions                                                                *)
(* ---------------------------------------------------------------------- *)
Commit(S, w, k) ==
  /\ cmdQ' = [cmdQ EXCEPT ![w] = SubSeq(@, k + 1, Len(@))]
  /\ evtQ' = [evtQ EXCEPT ![w] = @ \o S.out]
  /\ runq' = [runq EXCEPT ![w] = S.runq]
  /\ spawning' = [spawning EXCEPT ![w] = S.spawning]
  /\ selecting' = [selecting EXCEPT ![w] = S.selecting]
  /\ awaited' = [awaited EXCEPT ![w] = S.awaited]
  /\ awaitersFor' = [awaitersFor EXCEPT ![w] = S.awaitersFor]
  /\ resultReq' = [resultReq EXCEPT ![w] = S.resultReq]
  /\ effecting' = [effecting EXCEPT ![w] = S.effecting]
  /\ nextRef' = [nextRef EXCEPT ![w] = S.nextRef]
  /\ proc' = S.proc
  /\ obs' = S.obs
  /\ UNCHANGED <<router, nextPid, pending, now, outcome, owner, backend>>

WorkerStep(w, k, fuel) ==
  /\ k <= Len(cmdQ[w])
  /\ LET S0 == FoldCmds(WS(w), SubSeq(cmdQ[w], 1, k)) IN
     \E o1 \in SetToSeqs(ExpiredSet(S0, now)) :
       LET S1 == Requeue(S0, o1) IN
       IF S1.runq = <<>>
       THEN /\ k > 0
            /\ \E o3 \in SetToSeqs(Finished(S1)) : Commit(AnswerRequests(Report(S1, o3)), w, k)
       ELSE
       LET p  == Head(S1.runq)
           S2 == AfterSlice(RunOps([S1 EXCEPT !.runq = Tail(@)], p, fuel), p)
       IN \E o2 \in SetToSeqs(IF S2.proc[p].result # None THEN LocalAwaiters(S2, p) ELSE {}) :
            LET S3 == NotifyLocal(S2, p, o2) IN
            \E o3 \in SetToSeqs(Finished(S3)) :
              Commit(AnswerRequests(Report(S3, o3)), w, k)

Send(q, w, c) == [q EXCEPT ![w] = Append(@, c)]

\* union of two result lists; a reported result wins over "not finished yet"
RECURSIVE MergeRs(_, _)
MergeRs(a, b) ==
  IF b = <<>> THEN a
  ELSE LET t == Head(b)[1]
           r == Head(b)[2]
       IN MergeRs(IF AHas(a, t) /\ AGet(a, t) # None /\ r = None THEN a ELSE APut(a, t, r), Tail(b))

GotNow(rs) == {rs[i][1] : i \in {i \in 1..Len(rs) : rs[i][2] # None}}

\* resources owned by pid t
OwnedBy(t) == {r \in AKeys(owner) : AGet(owner, r) = t}

RECURSIVE Transfer(_, _, _)
Transfer(ow, rs, to) == IF rs = {} THEN ow
                        ELSE LET r == CHOOSE x \in rs : TRUE IN Transfer(APut(ow, r, to), rs \ {r}, to)

ResInRegs(regs) == UNION {ResIn(regs[i]) : i \in 1..Len(regs)}
TopRes(regs) == {regs[i].r : i \in {i \in 1..Len(regs) : regs[i].k = "res"}}

\* environment.rs cleanup_process_resources for every finished process in `ts`
RECURSIVE Cleanup(_, _, _, _)
Cleanup(ow, be, log, rs) ==      \* rs: resources to close, closed in ascending order (hash order in the code)
  IF rs = {} THEN <<ow, be, log>>
  ELSE LET r == Min(rs) IN
       Cleanup(ADel(ow, r), [be EXCEPT !.open = @ \ {r}],
               Append(log, [call |-> "close", res |-> r, was_open |-> r \in be.open]), rs \ {r})

EnvHandle(w) ==
  /\ evtQ[w] # <<>>
  /\ LET e == Head(evtQ[w]) IN
     /\ evtQ' = [evtQ EXCEPT ![w] = Tail(@)]
     /\ CASE e.t = "SpawnAction" ->      \* environment.rs handle_spawn
               /\ nextPid < MaxPid
               /\ \E place \in (IF Placement = "any" THEN Workers
                                ELSE IF \E r \in TopRes(e.regs) : AHas(owner, r)
                                THEN {router[AGet(owner, r)] : r \in {r \in TopRes(e.regs) : AHas(owner, r)}}
                                ELSE {nextPid % NW}) :
                    /\ router' = (nextPid :> place) @@ router
                    /\ cmdQ' = Send(Send(cmdQ, place,
                                         [t |-> "SpawnProcess", id |-> nextPid, script |-> e.script,
                                          regs |-> e.regs, path |-> e.path]),
                                    router[e.c], [t |-> "NotifySpawn", p |-> e.c, pid |-> nextPid])
               /\ owner' = Transfer(owner, ResInRegs(e.regs), nextPid)
               /\ nextPid' = nextPid + 1
               /\ UNCHANGED <<pending, outcome, obs, backend>>
          [] e.t = "DeliverAction" ->    \* environment.rs handle_deliver
               /\ cmdQ' = Send(cmdQ, router[e.to], [t |-> "DeliverMessage", to |-> e.to, m |-> e.m])
               /\ owner' = Transfer(owner, ResIn(e.m), e.to)
               /\ UNCHANGED <<router, nextPid, pending, outcome, obs, backend>>
          [] e.t = "AwaitAction" ->      \* environment.rs handle_await_processes
               LET ws == {router[e.ts[i]] : i \in 1..Len(e.ts)}
                   RECURSIVE Go(_, _)
                   Go(q, rest) == IF rest = {} THEN q
                                  ELSE LET x == CHOOSE x \in rest : TRUE
                                       IN Go(Send(q, x, [t |-> "QueryAndAwait", a |-> e.a,
                                                         ts |-> SelectSeq(e.ts, LAMBDA t : router[t] = x)]),
                                             rest \ {x})
               IN /\ pending' = APut(pending, e.a, [expected |-> ws, responses |-> <<>>])
                  /\ cmdQ' = Go(cmdQ, ws)
                  /\ obs' = [obs EXCEPT !.envGot[e.a] = {}]
                  /\ UNCHANGED <<router, nextPid, outcome, owner, backend>>
          [] e.t = "ProcessResults" ->   \* environment.rs handle_process_results
               LET sw == router[e.rs[1][1]]
                   cl == Cleanup(owner, backend, obs.backend, UNION {OwnedBy(t) : t \in GotNow(e.rs)})
                   obs1 == [obs EXCEPT !.backend = cl[3]]
               IN
               /\ UNCHANGED <<router, nextPid, outcome>>
               /\ owner' = cl[1] /\ backend' = cl[2]
               /\ IF AHas(pending, e.a)
                  THEN LET pa == AGet(pending, e.a)
                           old == IF AHas(pa.responses, sw) THEN AGet(pa.responses, sw) ELSE <<>>
                           new == IF "replace_responses" \in Defects THEN e.rs ELSE MergeRs(old, e.rs)
                           resp == APut(pa.responses, sw, new)
                           exp == pa.expected \ {sw}
                           got == obs.envGot[e.a] \cup GotNow(e.rs)
                           RECURSIVE All(_)
                           All(rr) == IF rr = <<>> THEN <<>> ELSE MergeRs(Head(rr)[2], All(Tail(rr)))
                       IN IF exp = {}
                          THEN /\ pending' = ADel(pending, e.a)
                               /\ cmdQ' = Send(cmdQ, router[e.a],
                                               [t |-> "UpdateAwaitResults", a |-> e.a, rs |-> All(resp)])
                               /\ obs' = [obs1 EXCEPT !.updates = Append(@, [a |-> e.a, rs |-> All(resp), got |-> got]),
                                                      !.envGot[e.a] = {}]
                          ELSE /\ pending' = APut(pending, e.a, [expected |-> exp, responses |-> resp])
                               /\ cmdQ' = cmdQ
                               /\ obs' = [obs1 EXCEPT !.envGot[e.a] = got]
                  ELSE /\ cmdQ' = Send(cmdQ, router[e.a], [t |-> "UpdateAwaitResults", a |-> e.a, rs |-> e.rs])
                       /\ pending' = pending /\ obs' = obs1
          [] e.t = "ResultResponse" ->   \* environment.rs handle_result_response
               /\ outcome' = Some(e.r)
               /\ UNCHANGED <<cmdQ, router, nextPid, pending, obs, owner, backend>>
          [] e.t = "EffectRequest" ->    \* environment.rs handle_effect_request
               /\ UNCHANGED <<router, nextPid, pending, outcome>>
               /\ IF e.res # None /\ AHas(owner, e.res[1]) /\ AGet(owner, e.res[1]) # e.p
                  THEN \* ownership violation: an error completion, the backend is not touched
                       /\ cmdQ' = Send(cmdQ, router[e.p],
                                       [t |-> "EffectCompletion", p |-> e.p, ok |-> FALSE,
                                        e |-> "Process " \o ToString(e.p) \o " does not own resource " \o ToString(e.res[1])])
                       /\ UNCHANGED <<owner, backend, obs>>
                  ELSE LET isOpen == e.res # None /\ e.res[1] \in backend.open
                           okk == e.op = "open" \/ (e.op # "openfail" /\ isOpen)     \* "openfail": a path that does not exist
                           newRes == backend.next
                           val == CASE e.op = "open" -> [k |-> "res", r |-> newRes]
                                    [] e.op = "use" -> [k |-> "bin", b |-> <<47>>]
                                    [] OTHER -> OkV
                           entry == [call |-> "execute", p |-> e.p, op |-> IF e.op = "openfail" THEN "open" ELSE e.op, res |-> e.res,
                                     owner |-> IF e.res # None /\ AHas(owner, e.res[1])
                                               THEN Some(AGet(owner, e.res[1])) ELSE None,
                                     created |-> IF e.op = "open" THEN Some(newRes) ELSE None, ok |-> okk]     \* ("openfail" creates nothing)
                           done == IF okk THEN [t |-> "EffectCompletion", p |-> e.p, ok |-> TRUE, v |-> val]
                                   ELSE [t |-> "EffectCompletion", p |-> e.p, ok |-> FALSE,
                                         e |-> IF e.op = "openfail" THEN "Not found: !x" ELSE "Invalid argument: closed"]
                           be1 == CASE e.op = "open" -> [backend EXCEPT !.open = @ \cup {newRes}, !.next = newRes + 1]
                                    [] e.op = "close" /\ isOpen -> [backend EXCEPT !.open = @ \ {e.res[1]}]
                                    [] OTHER -> backend
                       IN /\ obs' = [obs EXCEPT !.backend = Append(@, entry)]
                          /\ \E mode \in IOModes :
                               IF mode = "now"
                               THEN \* handle_effect_completion at once: a created resource is registered to the requester
                                    /\ backend' = be1
                                    /\ owner' = IF e.op = "open" THEN APut(owner, newRes, e.p) ELSE owner
                                    /\ cmdQ' = Send(cmdQ, router[e.p], done)
                               ELSE \* the backend keeps the completion until the next process_completions()
                                    /\ backend' = [be1 EXCEPT !.inflight = Append(@, done)]
                                    /\ UNCHANGED <<owner, cmdQ>>
     /\ UNCHANGED <<runq, spawning, selecting, awaited, awaitersFor, resultReq, effecting, nextRef, proc, now>>

\* Environment::step begins with effect_backend.process_completions(): every completion the backend has
\* ready is handled (handle_effect_completion), in order
RECURSIVE Deliver(_, _, _)
Deliver(q, ow, cs) ==
  IF cs = <<>> THEN <<q, ow>>
  ELSE LET c == Head(cs) IN
       Deliver(Send(q, router[c.p], c),
               IF c.ok /\ c.v.k = "res" THEN APut(ow, c.v.r, c.p) ELSE ow, Tail(cs))

EnvCompletions ==
  /\ backend.inflight # <<>>
  /\ LET d == Deliver(cmdQ, owner, backend.inflight) IN cmdQ' = d[1] /\ owner' = d[2]
  /\ backend' = [backend EXCEPT !.inflight = <<>>]
  /\ UNCHANGED <<evtQ, runq, spawning, selecting, awaited, awaitersFor, resultReq, effecting, nextRef,
                 proc, router, nextPid, pending, now, outcome, obs>>

TickAny(d) ==
  /\ now + d <= MaxTick
  /\ now' = now + d
  /\ UNCHANGED <<cmdQ, evtQ, runq, spawning, selecting, awaited, awaitersFor, resultReq, effecting, nextRef,
                 owner, backend, proc, router, nextPid, pending, outcome, obs>>

\* time is observable only through select timeouts, so the clock moves only while one is pending
TimeoutPending == \E p \in Pids : /\ proc[p].live /\ proc[p].sel # None /\ proc[p].result = None
                                   /\ \E i \in 1..Len(proc[p].sel[1].srcs) : Fires(proc[p].sel[1].srcs[i])

Tick(d) ==
  /\ TimeoutPending
  /\ TickAny(d)

(* ---------------------------------------------------------------------- *)
InitState(entry) ==
  [cmdQ |-> [w \in Workers |-> IF w = 0 THEN <<[t |-> "ResumeProcess", id |-> 0, script |-> entry],
                                               [t |-> "GetResult", p |-> 0]>> ELSE <<>>],
   evtQ |-> [w \in Workers |-> <<>>],
   runq |-> [w \in Workers |-> <<>>],
   spawning |-> [w \in Workers |-> {}],
   selecting |-> [w \in Workers |-> {}],
   awaited |-> [w \in Workers |-> {}],
   awaitersFor |-> [w \in Workers |-> <<>>],
   resultReq |-> [w \in Workers |-> {}],
   effecting |-> [w \in Workers |-> {}],
   nextRef |-> [w \in Workers |-> 0],
   owner |-> <<>>,
   backend |-> [open |-> {}, next |-> 1, inflight |-> <<>>],
   \* the REPL's persistent process exists and sleeps (environment.rs start_process(None))
   proc |-> [p \in Pids |-> IF p = 0
                            THEN [NewProc(0, EmptyRegs, TRUE, <<>>) EXCEPT !.result = Some(OkR(Nil))]
                            ELSE NoProc],
   router |-> (0 :> 0),
   nextPid |-> 1,
   pending |-> <<>>,
   now |-> 0,
   outcome |-> None,
   obs |-> [arrived |-> [p \in Pids |-> <<>>],
            sent |-> [p \in Pids |-> [q \in Pids |-> <<>>]],
            selects |-> <<>>, spawns |-> <<>>, updates |-> <<>>,
            envGot |-> [p \in Pids |-> {}],
            minted |-> <<>>, backend |-> <<>>,
            line |-> 1, outcomes |-> <<>>]]     \* host side: lines submitted so far, outcomes of the earlier lines

Init ==
  LET I == InitState(1) IN
  /\ cmdQ = I.cmdQ /\ evtQ = I.evtQ /\ runq = I.runq /\ spawning = I.spawning
  /\ selecting = I.selecting /\ awaited = I.awaited /\ awaitersFor = I.awaitersFor
  /\ resultReq = I.resultReq /\ proc = I.proc /\ router = I.router /\ nextPid = I.nextPid
  /\ pending = I.pending /\ now = I.now /\ outcome = I.outcome /\ obs = I.obs
  /\ effecting = I.effecting /\ nextRef = I.nextRef /\ owner = I.owner /\ backend = I.backend

(***************************************************************************)
(* The host submits the next line of the session (repl.rs evaluate): it    *)
(* may do so as soon as the previous line's result has reached it -- the   *)
(* processes that line spawned may still be running, messages may still be *)
(* in flight.  The persistent process is resumed with the new line's code  *)
(* (its variables = registers, its mailbox and its pid survive) and the    *)
(* result is requested again.  (compact / UpdateProgram / keep-sets only   *)
(* concern locals and code tables, which scripts abstract.)                *)
(***************************************************************************)
SubmitLine(entry) ==
  /\ outcome # None
  /\ cmdQ' = [cmdQ EXCEPT ![router[0]] = @ \o <<[t |-> "ResumeProcess", id |-> 0, script |-> entry],
                                                 [t |-> "GetResult", p |-> 0]>>]
  /\ outcome' = None
  /\ obs' = [obs EXCEPT !.line = @ + 1, !.outcomes = Append(@, outcome[1])]
  /\ UNCHANGED <<evtQ, runq, spawning, selecting, awaited, awaitersFor, resultReq, effecting, nextRef, owner,
                 backend, proc, router, nextPid, pending, now>>

NextLine == obs.line < Len(Lines) /\ SubmitLine(Lines[obs.line + 1])

WorkerAct == \E w \in Workers : \E k \in 0..Len(cmdQ[w]), fuel \in 0..MaxFuel : WorkerStep(w, k, fuel)
EnvAct == \E w \in Workers : EnvHandle(w)
Next == WorkerAct \/ EnvAct \/ EnvCompletions \/ Tick(1) \/ NextLine

Spec == Init /\ [][Next]_vars
=============================================================================
