------------------------------ MODULE MC_Types ------------------------------
(***************************************************************************)
(* Case generator for C09: TLC ENUMERATES type graphs node by node.        *)
(* A state is a sequence of nodes; node 1 is the pre-registered never type *)
(* (the receive component of every generated callable, so that component   *)
(* is EQUAL on both sides of every pair); every later node is chosen from  *)
(* Choices over 2 tuple names ("A","B" and unnamed), 2 labels ("x","y" and *)
(* unlabelled) with children among the earlier nodes.  BFS with MaxNodes=3 *)
(* enumerates every such graph; `-simulate` with a larger MaxNodes draws a *)
(* seeded sample of bigger ones.                                           *)
(* For every state whose last node n is a well-formed root (closed,        *)
(* contractive) and every earlier well-formed i (and pair i<j; triples     *)
(* carry no verdicts, they serve transitivity) such that the whole graph   *)
(* is reachable from the chosen roots, one line                            *)
(*    <<"CASE", ToJson([g, roots, v])>>                                    *)
(* is printed: the graph in the two-table form of Types.tla, the root ids  *)
(* and the specification's verdicts at depth D for every ordered pair:     *)
(* Contained / Overlap, each with a witness (cw: a value of a outside b;   *)
(* ow: a value in both).                                                   *)
(***************************************************************************)
EXTENDS Types, Json, IOUtils

CONSTANTS MaxNodes, D, SampleMod, SampleRem

VARIABLE ns

Names  == {"", "A", "B"}
Labs1  == {"", "x", "y"}
Labs2  == {<<"", "">>, <<"x", "y">>, <<"x", "">>}
PLabs1 == {"x", "y"}

Never == [k |-> "uni", ms |-> <<>>]

F(l, t) == [l |-> l, t |-> t]

RECURSIVE AscSeq(_)
AscSeq(S) == IF S = {} THEN <<>>
              ELSE LET m == CHOOSE x \in S : \A y \in S : x <= y
                   IN  <<m>> \o AscSeq(S \ {m})

Leaves ==
  {[k |-> "int"], [k |-> "bin"], [k |-> "ref"], [k |-> "res", r |-> "R"],
   [k |-> "cyc", n |-> 1]}
  \cup (IF MaxNodes >= 4 THEN {[k |-> "cyc", n |-> 2]} ELSE {})  \* needs >= 4 nodes to be closed
  \cup {[k |-> "tup", name |-> nm, fs |-> <<>>] : nm \in Names}
  \cup {[k |-> "par", name |-> nm, fs |-> <<>>] : nm \in {"", "A"}}

(* nodes that may be appended when the user nodes 2..n exist *)
Choices(n) ==
  LET C == 2..n IN
  Leaves
  \cup {[k |-> "tup", name |-> nm, fs |-> <<F(l, c)>>] : nm \in Names, l \in Labs1, c \in C}
  \cup {[k |-> "tup", name |-> nm, fs |-> <<F(ls[1], c1), F(ls[2], c2)>>] :
          nm \in Names, ls \in Labs2, c1 \in C, c2 \in C}
  \cup {[k |-> "par", name |-> nm, fs |-> <<F(l, c)>>] : nm \in Names, l \in PLabs1, c \in C}
  \cup {[k |-> "par", name |-> nm, fs |-> <<F("x", c1), F("y", c2)>>] :
          nm \in Names, c1 \in C, c2 \in C}
  \cup {[k |-> "uni", ms |-> AscSeq(S)] : S \in {T \in SUBSET C : Cardinality(T) \in 1..3}}
  \cup {[k |-> "fn", p |-> c1, r |-> c2, rc |-> 1] : c1 \in C, c2 \in C}
  \cup {[k |-> "proc", s |-> c1, r |-> c2] : c1 \in C, c2 \in C}

Init == ns = <<Never>>
Next == Len(ns) < MaxNodes + 1 /\ \E nd \in Choices(Len(ns)) : ns' = Append(ns, nd)
Spec == Init /\ [][Next]_ns

(* the two-table form *)
TupIdx(i) == Cardinality({j \in 1..i : ns[j].k = "tup"})
ToGraph ==
  [types  |-> [i \in DOMAIN ns |-> IF ns[i].k = "tup" THEN [k |-> "tup", t |-> TupIdx(i)]
                                   ELSE ns[i]],
   tuples |-> LET ts == SelectSeq(ns, LAMBDA x : x.k = "tup")
              IN  [i \in DOMAIN ts |-> [name |-> ts[i].name, fs |-> ts[i].fs]]]

(* A seeded sample of the enumerated graphs: only states whose checksum falls in the      *)
(* residue class SampleRem (mod SampleMod) emit cases; SampleMod = 1 takes them all.      *)
KindCode(k) == CASE k = "int" -> 1 [] k = "bin" -> 2 [] k = "ref" -> 3 [] k = "res" -> 5
                 [] k = "cyc" -> 7 [] k = "tup" -> 11 [] k = "par" -> 13 [] k = "uni" -> 17
                 [] k = "fn" -> 19 [] k = "proc" -> 23
RECURSIVE SumSeq(_)
SumSeq(q) == IF q = <<>> THEN 0 ELSE q[1] + SumSeq(Tail(q))
NodeCode(nd) ==
  KindCode(nd.k)
  + (IF nd.k \in {"tup", "par"}
     THEN (IF nd.name = "" THEN 0 ELSE IF nd.name = "A" THEN 29 ELSE 31)
          + SumSeq([i \in DOMAIN nd.fs |-> 3 * nd.fs[i].t + (IF nd.fs[i].l = "" THEN 0 ELSE
                                                            IF nd.fs[i].l = "x" THEN 37 ELSE 41)])
     ELSE 0)
  + (IF nd.k = "uni" THEN 5 * SumSeq(nd.ms) ELSE 0)
  + (IF nd.k = "fn" THEN 7 * nd.p + 11 * nd.r ELSE 0)
  + (IF nd.k = "proc" THEN 13 * nd.s + 17 * nd.r ELSE 0)
Checksum == SumSeq([i \in DOMAIN ns |-> (2 * i + 1) * NodeCode(ns[i])])
InClass == SampleMod = 1 \/ (Checksum % SampleMod) = SampleRem
Sampled  == Len(ns) <= 3 \/ InClass     \* C08: every graph with <= 2 nodes, a class of the larger
SampledC == Len(ns) <= 4 \/ InClass     \* C09: every graph with <= 3 nodes, a class of the larger

Covers(G, roots) ==
  {c.n : c \in UNION {Reach(G, r, <<>>) : r \in roots}} \cup {1} = DOMAIN G.types

Verdicts(G, R) ==
  LET U == TupleUniverse(G, Range(R)) IN
  {LET esc == Escapees(G, U, R[p[1]], R[p[2]], D)
       com == Common(G, U, R[p[1]], R[p[2]], D)
   IN  [a |-> p[1], b |-> p[2], contained |-> esc = {}, cw |-> Wit(esc),
        overlap |-> com # {}, ow |-> Wit(com)]
   : p \in {q \in (DOMAIN R) \X (DOMAIN R) : q[1] # q[2]}}

PrintCase(G, R) ==
  PrintT(<<"CASE", ToJson([g |-> G, roots |-> R, v |-> Verdicts(G, R)])>>)

Emit ==
  LET n == Len(ns)
      G == ToGraph
      W == {i \in 2..(n - 1) : WellFormed(G, i)}
  IN  (n >= 2 /\ SampledC /\ WellFormed(G, n)) =>
        /\ \A i \in W : Covers(G, {i, n}) => PrintCase(G, <<i, n>>)
        /\ \A i \in W : \A j \in W :
             (i < j /\ Covers(G, {i, j, n})) =>
               PrintT(<<"CASE", ToJson([g |-> G, roots |-> <<i, j, n>>, v |-> {}])>>)

---------------------------------------------------------------------------
(* C08: (pattern type T, value v) cases.  T is the last node; the values   *)
(* are the depth <= 2 members of every well-formed node of the graph plus  *)
(* a few fixed ones, restricted to values a Quiver expression can denote   *)
(* with a known static type: ints, bins, refs, tuples of those, and        *)
(* function literals `#P { e }` whose result type is literal-exact.        *)
(* Verdicts: must (v definitely inhabits T), may (not refuted), sc (every  *)
(* value of the STATIC type of the expression - same shape, any int / bin  *)
(* leaves, the same function signature - definitely inhabits T).           *)
DV == 2

RECURSIVE LitT(_, _)
LitT(G, n) ==
  LET t == G.types[n] IN
  CASE t.k \in {"int", "bin"} -> TRUE
    [] t.k = "tup" -> \A c \in Range(Kids(G, n)) : LitT(G, c)
    [] OTHER -> FALSE

RECURSIVE Renderable(_, _)
Renderable(G, v) ==
  CASE v.k \in {"int", "bin", "ref"} -> TRUE
    [] v.k = "tup" -> \A i \in DOMAIN v.fs : Renderable(G, v.fs[i])
    [] v.k = "fn"  -> v.ctx = <<>> /\ Closed(G, v.n) /\ LitT(G, G.types[v.n].r)
    \* a process value: the pid of a process spawned from a function that receives s and returns a
    \* literal of exactly type r (rendered three ways: the spawn's result, `&.` taken in the process's
    \* entry function, `&.` taken in a helper function the entry function calls)
    [] v.k = "proc" -> v.ctx = <<>> /\ Closed(G, v.n) /\ LitT(G, G.types[v.n].r)
    [] OTHER -> FALSE

Basic ==
  {I0, [k |-> "bin", b |-> <<1>>], [k |-> "ref", i |-> 0],
   TupVal("", <<>>, <<>>), TupVal("A", <<>>, <<>>), TupVal("A", <<"x">>, <<I0>>),
   TupVal("", <<"x", "y">>, <<I0, I0>>), TupVal("B", <<"">>, <<I0>>)}

Emit8 ==
  LET n == Len(ns)
      G == ToGraph
      W == {i \in 2..n : WellFormed(G, i)}
      U == TupleUniverse(G, W)
      V == {v \in Basic \cup UNION {Vals(G, U, i, <<>>, DV) : i \in W} : Renderable(G, v)}
  IN  (n >= 2 /\ Sampled /\ WellFormed(G, n) /\ Covers(G, {n})) =>
        \A v \in V :
          PrintT(<<"VCASE", ToJson([g |-> G, t |-> n, v |-> v,
                     must |-> Inhabits(G, U, v, n, D),
                     may  |-> MayInhabit(G, U, v, n, D),
                     sc   |-> \A w \in ShapeVals(v) : Inhabits(G, U, w, n, D)])>>)
=============================================================================
