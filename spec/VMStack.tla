------------------------------ MODULE VMStack ------------------------------
(***************************************************************************)
(* C07 (well-formed bytecode) and the static part of C16 (no operand       *)
(* survives a tail call): the bytecode abstract machine as a work-list     *)
(* fixpoint over the functions of bytecode images dumped from the REAL     *)
(* compiler by harness/src/bin/bcdump.rs.                                  *)
(*                                                                         *)
(* Input: the ndjson file named by the environment variable VMSTACK_IN,    *)
(* one image per line:                                                     *)
(*   [id, line, form, nconst, arity, ntypes, caps, tids, nbuiltins,        *)
(*    entries : <<[fi, l0, keep]>>,    wrapper functions (REPL lines) and   *)
(*                                     the locals they start with          *)
(*    fns : <<[fi, code : <<[op, a]>>]>>]   position k holds function k-1  *)
(*                                                                         *)
(* One behaviour per ANALYSIS ITEM <<image, function, entry locals>>:      *)
(* every function starts with l0 = its captures; a wrapper function starts *)
(* with the variables bound by the earlier lines of its session.           *)
(* The state is the analysis state of the item:                            *)
(*   H[pc+1] = operand height on entry to pc (relative to the frame:       *)
(*             entry 1 = the argument), -1 = not reached;  pc = len is the *)
(*             function's exit;                                            *)
(*   L[pc+1] = number of locals defined on ALL paths reaching pc (minimum) *)
(*   work    = pcs whose out-edges still have to be propagated.            *)
(* One TLC step propagates up to Grain work-list items (Grain = 1: one     *)
(* instruction per state; the default is the whole function per step, one  *)
(* state per function).  The first rule an item breaks is recorded in err  *)
(* and the behaviour stops; the invariants below are the C07 clauses.      *)
(***************************************************************************)
EXTENDS VMSem, FiniteSets, TLC, Json, IOUtils

CONSTANT Grain

VARIABLES it,    \* <<image index, function position (fi + 1), entry locals>>
          ph,    \* "new" | "run" | "done"
          H, L, work,
          err,   \* <<>> or <<[rule, pc, h, l, x]>>
          stat   \* [steps, joins, ldiff, tails, branch]  coverage counters of this item

vars == <<it, ph, H, L, work, err, stat>>

Imgs == ndJsonDeserialize(IOEnv.VMSTACK_IN)

EntryFis(P) == {P.entries[i].fi : i \in 1..Len(P.entries)}

Items(p) ==
  LET P == Imgs[p] IN
    {<<p, k, P.caps[k]>> : k \in {j \in 1..Len(P.fns) : (j - 1) \notin EntryFis(P)}}
    \cup {<<p, P.entries[i].fi + 1, P.entries[i].l0>> : i \in 1..Len(P.entries)}

AllItems == UNION {Items(p) : p \in 1..Len(Imgs)}

Code(i) == Imgs[i[1]].fns[i[2]].code

MinOf(S) == CHOOSE x \in S : \A y \in S : x <= y

Bad(rule, pc, h, l, x) == <<[rule |-> rule, pc |-> pc, h |-> h, l |-> l, x |-> x]>>

(***************************************************************************)
(* Propagate the state after `pc` (height h2, locals l2) to successor s.   *)
(***************************************************************************)
Flow(S, n, s, h2, l2) ==
  IF S.err # <<>> THEN S
  ELSE IF s < 0 \/ s > n THEN [S EXCEPT !.err = Bad("jump_range", s, h2, l2, n)]
  ELSE IF S.H[s + 1] = -1 THEN
         IF s = n /\ h2 # 1 THEN [S EXCEPT !.err = Bad("exit_height", s, h2, l2, 1)]
         ELSE [S EXCEPT !.H[s + 1] = h2, !.L[s + 1] = l2,
                        !.work = IF s < n THEN @ \cup {s} ELSE @]
  ELSE IF S.H[s + 1] # h2 THEN [S EXCEPT !.err = Bad("join_height", s, h2, l2, S.H[s + 1])]
  ELSE LET S1 == [S EXCEPT !.stat.joins = @ + 1,
                           !.stat.ldiff = IF S.L[s + 1] # l2 THEN @ + 1 ELSE @]
       IN  IF l2 < S.L[s + 1]
           THEN [S1 EXCEPT !.L[s + 1] = l2, !.work = IF s < n THEN @ \cup {s} ELSE @]
           ELSE S1

(***************************************************************************)
(* Propagate one work-list item (the lowest pc) through its instruction.   *)
(***************************************************************************)
StepOne(S, code, T) ==
  LET n  == Len(code)
      pc == MinOf(S.work)
      I  == code[pc + 1]
      h  == S.H[pc + 1]
      l  == S.L[pc + 1]
      S0 == [S EXCEPT !.work = @ \ {pc}, !.stat.steps = @ + 1,
                      !.stat.tails = IF I.op = "TailCall" THEN @ \cup {pc} ELSE @,
                      !.stat.branch = @ \/ I.op \in {"JumpIf", "Call", "TailCall", "Spawn", "Select"}]
  IN  IF ~IndexOK(I, T) THEN [S0 EXCEPT !.err = Bad("index_range", pc, h, l, I.a)]
      ELSE IF ~OperandOK(I) THEN [S0 EXCEPT !.err = Bad("operand", pc, h, l, I.a)]
      ELSE IF h < Needs(I, T) THEN [S0 EXCEPT !.err = Bad("underflow", pc, h, l, Needs(I, T))]
      ELSE IF I.op = "TailCall" /\ h # Needs(I, T)
             THEN [S0 EXCEPT !.err = Bad("tailcall_height", pc, h, l, Needs(I, T))]
      ELSE IF I.op = "Load" /\ ~LocalsOK(I, l) THEN [S0 EXCEPT !.err = Bad("load_undefined", pc, h, l, I.a)]
      ELSE IF I.op = "Reset" /\ ~LocalsOK(I, l) THEN [S0 EXCEPT !.err = Bad("reset_range", pc, h, l, I.a)]
      ELSE LET h2 == h + Delta(I, T)
               l2 == LocalsAfter(I, l)
               ss == Succs(I, pc)
           IN  IF Len(ss) = 0 THEN S0
               ELSE IF Len(ss) = 1 THEN Flow(S0, n, ss[1], h2, l2)
               ELSE Flow(Flow(S0, n, ss[1], h2, l2), n, ss[2], h2, l2)

RECURSIVE Run(_, _, _, _)
Run(S, code, T, k) ==
  IF k = 0 \/ S.work = {} \/ S.err # <<>> THEN S
  ELSE Run(StepOne(S, code, T), code, T, k - 1)

Start(i) ==
  LET n == Len(Code(i)) IN
    [H    |-> [j \in 1..(n + 1) |-> IF j = 1 THEN 1 ELSE -1],
     L    |-> [j \in 1..(n + 1) |-> IF j = 1 THEN i[3] ELSE -1],
     work |-> IF n > 0 THEN {0} ELSE {},
     err  |-> IF Imgs[i[1]].tids[i[2]] >= Imgs[i[1]].ntypes
                THEN Bad("type_index", 0, 1, i[3], Imgs[i[1]].tids[i[2]]) ELSE <<>>,
     stat |-> [steps |-> 0, joins |-> 0, ldiff |-> 0, tails |-> {}, branch |-> FALSE]]

Where(i) == [id |-> Imgs[i[1]].id, line |-> Imgs[i[1]].line, form |-> Imgs[i[1]].form,
             img |-> i[1], fi |-> i[2] - 1, l0 |-> i[3]]

Init == /\ it \in AllItems
        /\ ph = "new" /\ H = <<>> /\ L = <<>> /\ work = {} /\ err = <<>>
        /\ stat = [steps |-> 0, joins |-> 0, ldiff |-> 0, tails |-> {}, branch |-> FALSE]

Next ==
  /\ ph # "done"
  /\ LET S0 == IF ph = "new" THEN Start(it)
               ELSE [H |-> H, L |-> L, work |-> work, err |-> err, stat |-> stat]
         S  == Run(S0, Code(it), Imgs[it[1]], Grain)
         fin == S.work = {} \/ S.err # <<>>
     IN  /\ it' = it
         /\ ph' = IF fin THEN "done" ELSE "run"
         /\ err' = S.err
         /\ stat' = S.stat
         /\ work' = S.work
         \* a finished, clean analysis drops its tables (the state stays small); a failed one
         \* keeps them so that the counterexample shows the heights and locals reached
         /\ H' = IF fin /\ S.err = <<>> THEN <<>> ELSE S.H
         /\ L' = IF fin /\ S.err = <<>> THEN <<>> ELSE S.L
         /\ fin /\ S.err # <<>> =>
              PrintT(<<"VIOL", ToJson(Where(it) @@ S.err[1] @@
                        [op |-> IF S.err[1].pc < Len(Code(it)) /\ S.err[1].pc >= 0
                                THEN Code(it)[S.err[1].pc + 1].op ELSE "exit"])>>)
         /\ fin /\ S.err = <<>> =>
              PrintT(<<"STAT", it[1], it[2] - 1, S.stat.steps, S.stat.joins, S.stat.ldiff,
                       Cardinality(S.stat.tails), IF S.stat.branch THEN 1 ELSE 0>>)

Spec == Init /\ [][Next]_vars

(***************************************************************************)
(* The C07 clauses (and C16's static clause), one invariant per clause.    *)
(***************************************************************************)
Is(rule) == err # <<>> /\ err[1].rule = rule
NoUnderflow       == ~Is("underflow")        \* the stack never underflows
JumpsInside       == ~Is("jump_range")       \* jumps stay inside the function
IndicesInRange    == ~Is("index_range") /\ ~Is("type_index") /\ ~Is("operand")
LoadsDefined      == ~Is("load_undefined")   \* every Load reads a slot defined on all paths
ResetInRange      == ~Is("reset_range")      \* Reset(i) never grows the locals
JoinHeightsAgree  == ~Is("join_height")      \* one height at every join
ExitHeightOne     == ~Is("exit_height")      \* argument consumed, exactly one result
TailCallHeights   == ~Is("tailcall_height")  \* TailCall(true) at 1, TailCall(false) at 2
=============================================================================
