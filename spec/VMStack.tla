------------------------------ MODULE VMStack ------------------------------
(***************************************************************************)
(* C07 (well-formed bytecode) and the static part of C16 (no operand       *)
(* survives a tail call): the bytecode abstract machine as a work-list     *)
(* fixpoint over the functions of bytecode images dumped from the REAL     *)
(* compiler by harness/src/bin/bcdump.rs.                                  *)
(*                                                                         *)
(* Input: the ndjson file named by the environment variable VMSTACK_IN,    *)
(* one image per line:                                                     *)
(*   [id, line, form, nconst, arity, ntypes, caps, tids, nbuiltins,        *)
(*    entries : <<[fi, l0, keep]>>,    wrapper functions (REPL lines) and   *)
(*                                     the locals they start with          *)
(*    fns : << code >>]   position k holds function k-1;                   *)
(*                        code = << <<op, a>>, .. >> (see VMSem)           *)
(*                                                                         *)
(* One behaviour per ANALYSIS ITEM <<image, function, entry locals, keep>>:*)
(* every function starts with l0 = its captures; a wrapper function starts *)
(* with the variables bound by the earlier lines of its session, and the   *)
(* REPL relies on `keep` locals of its persistent frame afterwards (the    *)
(* highest binding index + 1; 0 = nothing / not known).                    *)
(*                                                                         *)
(* The state is the analysis state of the item.  Abstract values are       *)
(* <<h, l, t, s, rel>> (t, s, rel: the nil classes described below); h = operand height on entry to a pc, relative to the frame    *)
(* (entry: 1 = the argument); l = number of locals defined on ALL paths    *)
(* reaching the pc (the minimum over the paths -- the COUNT may differ     *)
(* between paths, only definedness is judged).  A pc that is not the       *)
(* target of a jump has exactly one predecessor, so its abstract value     *)
(* needs no storage: the map M holds <<h, l>> only at the LABELS (pc 0,    *)
(* every jump target, and the exit pc = len), <<-1, -1>> = not reached;    *)
(* cur is the abstract value being carried through straight-line code;     *)
(* work = labels whose out-paths still have to be (re)walked (again when l *)
(* decreased).  One TLC step propagates Grain instructions.  The first     *)
(* rule an item breaks is recorded in err and the behaviour stops; the     *)
(* invariants at the end are the C07 clauses.                              *)
(***************************************************************************)
EXTENDS VMSem, FiniteSets, TLC, Json, IOUtils

CONSTANT Grain

VARIABLE st   \* one record:
  \* it   : <<image index, function position (fi + 1), entry locals, keep>>
  \* ph   : "root" (the single initial state, fans out to the items) | "new" | "run" | "done"
  \* M    : <<label pc, class of the top operand>> -> <<h, l, t, s, rel>>
  \* cur  : <<>> or <<pc, <<h, l, t, s, rel>>>>
  \* work : set of <<label pc, class>>
  \* err  : <<>> or <<[rule, pc, h, l, x]>>
  \* stat : coverage counters of this item

Imgs == ndJsonDeserialize(IOEnv.VMSTACK_IN)

EntryFis(P) == {P.entries[i].fi : i \in 1..Len(P.entries)}

Items(p) ==
  LET P == Imgs[p] IN
    IF "only" \in DOMAIN P
      \* the engine's quick tier hands over a selection <<fi + 1, l0, keep>> of the items (one
      \* representative per distinct function shape); the thorough tier never does
      THEN {<<p, P.only[i][1], P.only[i][2], P.only[i][3]>> : i \in 1..Len(P.only)}
      ELSE {<<p, k, P.caps[k], 0>> : k \in {j \in 1..Len(P.fns) : (j - 1) \notin EntryFis(P)}}
           \cup {<<p, P.entries[i].fi + 1, P.entries[i].l0, P.entries[i].keep>> : i \in 1..Len(P.entries)}

AllItems == UNION {Items(p) : p \in 1..Len(Imgs)}

Code(i) == Imgs[i[1]].fns[i[2]]

MinOf(S) == CHOOSE x \in S : \A y \in S : x <= y

Bad(rule, pc, h, l, x) == <<[rule |-> rule, pc |-> pc, h |-> h, l |-> l, x |-> x]>>

Unset == <<-1, -1>>

(***************************************************************************)
(* Nil classes.  The compiler tests "did the condition succeed" with the   *)
(* idiom Duplicate; Not; JumpIf on a value that a failed match left as     *)
(* Tuple(NIL): the locals a chain's LATER terms bind are defined only on   *)
(* the path where the value is not nil, and the reads sit behind that      *)
(* test.  So the abstract value also carries t = class of the top operand  *)
(* ("n" nil, "t" not nil, "u" unknown), s = class of the operand below it  *)
(* and rel = how the top relates to the one below ("=" a copy, "!" its     *)
(* negation, "" nothing known), and the map M keeps one value per          *)
(* <<label, t>>: paths arriving with a nil top and with a non-nil top are  *)
(* propagated separately, and JumpIf follows only the edges the class      *)
(* allows (handle_jump_if: jump iff the popped value is not nil).          *)
(***************************************************************************)
Classes == {"n", "t", "u"}
Flip(c) == CASE c = "n" -> "t" [] c = "t" -> "n" [] OTHER -> "u"
FlipRel(r) == CASE r = "=" -> "!" [] r = "!" -> "=" [] OTHER -> ""
JoinC(a, b) == IF a = b THEN a ELSE "u"
JoinR(a, b) == IF a = b THEN a ELSE ""

\* <<t, s, rel>> after a non-branching instruction
ClassAfter(I, T, t, s, rel) ==
  CASE Op(I) = "Tuple"     -> IF T.arity[A(I) + 1] = 0 THEN <<IF A(I) = 0 THEN "n" ELSE "t", t, "">>
                              ELSE <<"t", "u", "">>
    [] Op(I) = "Constant"  -> <<"t", t, "">>
    [] Op(I) = "Builtin"   -> <<"t", t, "">>
    [] Op(I) = "Self"      -> <<"t", t, "">>
    [] Op(I) = "Process"   -> <<"t", t, "">>
    [] Op(I) = "Function"  -> <<"t", IF T.caps[A(I) + 1] = 0 THEN t ELSE "u", "">>
    [] Op(I) = "Load"      -> <<"u", t, "">>
    [] Op(I) = "Pick"      -> <<IF A(I) = 0 THEN t ELSE IF A(I) = 1 THEN s ELSE "u", t,
                                IF A(I) = 0 THEN "=" ELSE "">>
    [] Op(I) = "Duplicate" -> <<t, t, "=">>
    [] Op(I) = "Not"       -> <<Flip(t), s, FlipRel(rel)>>
    [] Op(I) \in {"Pop", "Store"} -> <<s, "u", "">>
    [] Op(I) \in {"Reset", "Jump"} -> <<t, s, rel>>
    [] OTHER -> <<"u", "u", "">>

\* the operand below a tested top, once the test's outcome is known (wasNil = the popped top was nil)
Refine(s, rel, wasNil) ==
  CASE rel = "=" -> IF wasNil THEN "n" ELSE "t"
    [] rel = "!" -> IF wasNil THEN "t" ELSE "n"
    [] OTHER -> s

\* in-range jump targets, the entry and the exit
Labels(code) ==
  LET n == Len(code) IN
    {0, n} \cup {t \in {pc + A(code[pc + 1]) + 1 : pc \in {q \in 0..(n - 1) : Op(code[q + 1]) \in {"Jump", "JumpIf"}}} :
                   t >= 0 /\ t <= n}

(***************************************************************************)
(* Control arrives at label s with abstract value v = <<h, l, t, s2, rel>>.*)
(***************************************************************************)
Arrive(S, n, s, v) ==
  IF S.err # <<>> THEN S
  ELSE IF s = n /\ v[1] # 1 THEN [S EXCEPT !.err = Bad("exit_height", s, v[1], v[2], 1)]
  ELSE IF \E c \in Classes : S.M[<<s, c>>] # Unset /\ S.M[<<s, c>>][1] # v[1]
         THEN [S EXCEPT !.err = Bad("join_height", s, v[1], v[2],
                                    S.M[<<s, CHOOSE c \in Classes : S.M[<<s, c>>] # Unset /\ S.M[<<s, c>>][1] # v[1]>>][1])]
  ELSE LET key == <<s, v[3]>>
           old == S.M[key]
       IN IF old = Unset
            THEN [S EXCEPT !.M[key] = v, !.work = IF s < n THEN @ \cup {key} ELSE @]
          ELSE LET S1 == [S EXCEPT !.stat.joins = @ + 1,
                                   !.stat.ldiff = IF old[2] # v[2] THEN @ + 1 ELSE @]
                   nw == <<v[1], IF v[2] < old[2] THEN v[2] ELSE old[2], v[3], JoinC(old[4], v[4]), JoinR(old[5], v[5])>>
               IN  IF nw # old
                     THEN [S1 EXCEPT !.M[key] = nw, !.work = IF s < n THEN @ \cup {key} ELSE @]
                     ELSE S1

\* control falls through to s: carried on if s is an ordinary pc, merged if it is a label
Fall(S, n, s, v) ==
  IF <<s, "u">> \in DOMAIN S.M THEN Arrive([S EXCEPT !.cur = <<>>], n, s, v)
  ELSE [S EXCEPT !.cur = <<s, v>>]

\* control jumps to t
Jump(S, n, pc, t, v) ==
  IF S.err # <<>> THEN S
  ELSE IF t < 0 \/ t > n THEN [S EXCEPT !.err = Bad("jump_range", pc, v[1], v[2], t)]
  ELSE Arrive(S, n, t, v)

(***************************************************************************)
(* Propagate one instruction: the carried value, or else the lowest label  *)
(* of the work-list.                                                       *)
(***************************************************************************)
StepOne(S, code, T, selfcaps, keep) ==
  LET n  == Len(code)
      fromWork == S.cur = <<>>
      wk == IF fromWork THEN CHOOSE x \in S.work : \A y \in S.work : x[1] <= y[1] ELSE <<>>
      pc == IF fromWork THEN wk[1] ELSE S.cur[1]
      v  == IF fromWork THEN S.M[wk] ELSE S.cur[2]
      h  == v[1]
      l  == v[2]
      I  == code[pc + 1]
      S0 == [M |-> S.M, cur |-> <<>>, work |-> IF fromWork THEN S.work \ {wk} ELSE S.work,
             err |-> <<>>,
             stat |-> IF Op(I) = "TailCall"
                        THEN [S.stat EXCEPT !.steps = @ + 1, !.tails = @ \cup {pc}]
                        ELSE [S.stat EXCEPT !.steps = @ + 1]]
  IN  IF ~IndexOK(I, T) THEN [S0 EXCEPT !.err = Bad("index_range", pc, h, l, A(I))]
      ELSE IF ~OperandOK(I) THEN [S0 EXCEPT !.err = Bad("operand", pc, h, l, A(I))]
      ELSE LET need == Needs(I, T) IN
      IF h < need THEN [S0 EXCEPT !.err = Bad("underflow", pc, h, l, need)]
      ELSE IF Op(I) = "TailCall" /\ h # need
             THEN [S0 EXCEPT !.err = Bad("tailcall_height", pc, h, l, need)]
      ELSE IF Op(I) = "Load" /\ ~LocalsOK(I, l) THEN [S0 EXCEPT !.err = Bad("load_undefined", pc, h, l, A(I))]
      ELSE IF Op(I) = "Reset" /\ ~LocalsOK(I, l) THEN [S0 EXCEPT !.err = Bad("reset_range", pc, h, l, A(I))]
      ELSE LET h2 == h + Delta(I, T)
               l2 == LocalsAfter(I, l)
               c  == IF Op(I) = "JumpIf" THEN <<>> ELSE ClassAfter(I, T, v[3], v[4], v[5])
               v2 == IF Op(I) = "JumpIf" THEN <<>> ELSE <<h2, l2, c[1], c[2], c[3]>>
           IN  CASE Op(I) = "Jump"   -> Jump(S0, n, pc, pc + A(I) + 1, v2)
                 \* handle_jump_if: the popped top decides; an edge the class rules out is not taken,
                 \* and on each edge the operand below is refined by what the test has shown
                 [] Op(I) = "JumpIf" ->
                      LET vf == <<h2, l2, Refine(v[4], v[5], TRUE), "u", "">>
                          vj == <<h2, l2, Refine(v[4], v[5], FALSE), "u", "">>
                          Sf == IF v[3] = "t" THEN S0 ELSE Fall(S0, n, pc + 1, vf)
                      IN  IF v[3] = "n" THEN Sf ELSE Jump(Sf, n, pc, pc + A(I) + 1, vj)
                 \* TailCall(true) restarts this frame: height 1 (the argument), locals cut back
                 \* to the captures; TailCall(false) leaves for another function
                 \* (handle_tail_call: truncate_locals(locals_base) -- in the REPL's persistent
                 \* frame this discards every variable the session has bound)
                 [] Op(I) = "TailCall" ->
                      IF A(I) = 1 THEN Arrive(S0, n, 0, <<h2, selfcaps, "u", "u", "">>)
                      ELSE IF keep > 0 THEN [S0 EXCEPT !.err = Bad("handover", pc, h, l, keep)]
                      ELSE S0
                 [] OTHER -> Fall(S0, n, pc + 1, v2)

RECURSIVE Run(_, _, _, _, _, _)
Run(S, code, T, selfcaps, keep, k) ==
  IF k = 0 \/ (S.work = {} /\ S.cur = <<>>) \/ S.err # <<>> THEN S
  ELSE Run(StepOne(S, code, T, selfcaps, keep), code, T, selfcaps, keep, k - 1)

Stat0 == [steps |-> 0, joins |-> 0, ldiff |-> 0, tails |-> {}]

Start(i) ==
  LET code == Code(i)
      n == Len(code)
      P == Imgs[i[1]]
  IN  [M    |-> [k \in Labels(code) \X Classes |->
                   IF k = <<0, "u">> THEN <<1, i[3], "u", "u", "">> ELSE Unset],
       cur  |-> <<>>,
       work |-> IF n > 0 THEN {<<0, "u">>} ELSE {},
       err  |-> IF P.tids[i[2]] < 0 \/ P.tids[i[2]] >= P.ntypes
                  THEN Bad("type_index", 0, 1, i[3], P.tids[i[2]]) ELSE <<>>,
       stat |-> Stat0]

Where(i) == [id |-> Imgs[i[1]].id, line |-> Imgs[i[1]].line, form |-> Imgs[i[1]].form,
             img |-> i[1], fi |-> i[2] - 1, l0 |-> i[3], keep |-> i[4]]

Init == st = [it |-> CHOOSE i \in AllItems : TRUE, ph |-> "root", M |-> <<>>, cur |-> <<>>,
              work |-> {}, err |-> <<>>, stat |-> Stat0]

\* one step of the analysis of item s.it; written as ONE expression so that TLC evaluates the
\* run once (LET definitions at action level are re-evaluated at every use)
Advance(s) ==
  LET i  == s.it
      S0 == IF s.ph = "new" THEN Start(i)
            ELSE [M |-> s.M, cur |-> s.cur, work |-> s.work, err |-> s.err, stat |-> s.stat]
      S  == Run(S0, Code(i), Imgs[i[1]], Imgs[i[1]].caps[i[2]], i[4], Grain)
      fin == (S.work = {} /\ S.cur = <<>>) \/ S.err # <<>>
      r  == [it |-> i, ph |-> IF fin THEN "done" ELSE "run", M |-> S.M, cur |-> S.cur,
             work |-> S.work, err |-> S.err, stat |-> S.stat]
  IN  IF ~fin THEN r
      ELSE IF S.err # <<>>
        THEN IF PrintT(<<"VIOL", ToJson(Where(i) @@ S.err[1] @@
                        [op |-> IF S.err[1].pc < Len(Code(i)) /\ S.err[1].pc >= 0
                                THEN Op(Code(i)[S.err[1].pc + 1]) ELSE "exit"])>>) THEN r ELSE r
        ELSE IF PrintT(<<"STAT", i[1], i[2] - 1, S.stat.steps, S.stat.joins, S.stat.ldiff,
                         Cardinality(S.stat.tails)>>) THEN r ELSE r

Next ==
  \/ /\ st.ph = "root"
     /\ \E i \in AllItems : st' = [st EXCEPT !.it = i, !.ph = "new"]
  \/ /\ st.ph \in {"new", "run"}
     /\ st' = Advance(st)

Spec == Init /\ [][Next]_st

(***************************************************************************)
(* The C07 clauses (and C16's static clause), one invariant per clause.    *)
(***************************************************************************)
Is(rule) == st.err # <<>> /\ st.err[1].rule = rule
NoUnderflow       == ~Is("underflow")        \* the stack never underflows
JumpsInside       == ~Is("jump_range")       \* jumps stay inside the function
IndicesInRange    == ~Is("index_range") /\ ~Is("type_index") /\ ~Is("operand")
LoadsDefined      == ~Is("load_undefined")   \* every Load reads a slot defined on all paths
ResetInRange      == ~Is("reset_range")      \* Reset(i) never grows the locals
JoinHeightsAgree  == ~Is("join_height")      \* one height at every join
ExitHeightOne     == ~Is("exit_height")      \* argument consumed, exactly one result
TailCallHeights   == ~Is("tailcall_height")  \* TailCall(true) at 1, TailCall(false) at 2
ReplBindingsSurvive == ~Is("handover")       \* no wrapper tail-calls away the session's variables
=============================================================================
