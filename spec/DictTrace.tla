----------------------------- MODULE DictTrace -----------------------------
(***************************************************************************)
(* C19 conformance oracle.  IOEnv.DICT_TRACE names an ndjson file written   *)
(* by engines/dict_engine.py; every line is one real run of std/dict.qv:    *)
(*   [id, nk, hist, ok, obs]                                                *)
(* hist is a history in the vocabulary of Dict.tla (abstract keys 1..nk),   *)
(* obs[j] is everything the implementation reported about version j AFTER   *)
(* the whole history had been executed:                                     *)
(*   get[k] (<<>> = nil, <<x>>), has[k], count, entries, keys, values,      *)
(*   itern (length of the iterator), iter (the iterator's elements)         *)
(* with concrete keys already translated back to the abstract ones (0 = a   *)
(* key the program never used, -1 = a value that is not an integer).        *)
(* ok = FALSE means the program did not evaluate to a value at all (runtime *)
(* error, rejected, crash): operations of a finite map are total, so that   *)
(* is a violation too.                                                      *)
(*                                                                         *)
(* One TLC state per record: `hist` is the record's history and `vers` is   *)
(* what Dict.tla says the versions are (Replay).  The invariant Conforms    *)
(* recomputes every observation from `vers` and compares.  Records are      *)
(* spread over LANES initial states so that all TLC workers are busy.       *)
(***************************************************************************)
EXTENDS Dict, TLC, Json, IOUtils

VARIABLE i

Recs  == ndJsonDeserialize(IOEnv.DICT_TRACE)
N     == Len(Recs)
Lanes == IF "DICT_LANES" \in DOMAIN IOEnv THEN atoi(IOEnv.DICT_LANES) ELSE 8

T_Keys == 1..64
T_Vals == Nat
T_None == {}
T_Zero == 0

TInit == /\ i \in 1..(IF N < Lanes THEN N ELSE Lanes)
         /\ hist = Recs[i].hist
         /\ vers = Replay(hist)
TNext == /\ i + Lanes <= N
         /\ i' = i + Lanes
         /\ hist' = Recs[i'].hist
         /\ vers' = Replay(hist')
TSpec == TInit /\ [][TNext]_<<vars, i>>

Range(s) == {s[n] : n \in DOMAIN s}
BagOf(s) == [x \in Range(s) |-> Cardinality({n \in DOMAIN s : s[n] = x})]

(* the individual comparisons for version j of record r, by name *)
Checks == {"get", "has", "count", "entries", "keys", "values", "itern", "iter"}
Holds(c, r, j) ==
  LET m == vers[j]  o == r.obs[j]  K == 1..r.nk IN
  CASE c = "get"     -> \A k \in K : o.get[k] = Get(m, k)
    [] c = "has"     -> \A k \in K : o.has[k] = Has(m, k)
    [] c = "count"   -> o.count = Count(m)
    [] c = "entries" -> Len(o.entries) = Count(m) /\ Range(o.entries) = Entries(m)
    [] c = "keys"    -> Len(o.keys) = Count(m) /\ Range(o.keys) = KeysOf(m)
    [] c = "values"  -> BagOf(o.values) = ValuesBag(m)
    [] c = "itern"   -> o.itern = Count(m)
    [] c = "iter"    -> Len(o.iter) = Count(m) /\ Range(o.iter) = Entries(m)

Failing(r) == {jc \in (1..Len(vers)) \X Checks : ~Holds(jc[2], r, jc[1])}

RecOK(r) == /\ r.ok
            /\ Len(r.obs) = Len(vers)
            /\ Failing(r) = {}

(* what the specification expects for version j (printed with a mismatch) *)
Expected(r, j) ==
  LET m == vers[j] IN
  [get |-> [k \in 1..r.nk |-> Get(m, k)], has |-> [k \in 1..r.nk |-> Has(m, k)],
   count |-> Count(m), entries |-> Entries(m), keys |-> KeysOf(m)]

Diagnose(r) ==
  IF ~r.ok \/ Len(r.obs) # Len(vers)
  THEN PrintT(<<"MISMATCH", ToJson([id |-> r.id, version |-> 0, failed |-> {"no-value"}])>>)
  ELSE LET F  == Failing(r)
           j0 == CHOOSE j \in {jc[1] : jc \in F} : \A jc \in F : j <= jc[1]
       IN PrintT(<<"MISMATCH", ToJson([id |-> r.id, version |-> j0,
                                       failed |-> {jc[2] : jc \in {q \in F : q[1] = j0}},
                                       versions |-> {jc[1] : jc \in F},
                                       expected |-> Expected(r, j0)])>>)

Conforms == RecOK(Recs[i]) \/ ~Diagnose(Recs[i])
=============================================================================
