SPECIFICATION MCSpec
CHECK_DEADLOCK FALSE
INVARIANTS
  UniverseCanonical ResultCanonical AbsencePropagates MixedRadicalsAbsent KindRules IntegerResults Emit
