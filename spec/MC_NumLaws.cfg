SPECIFICATION LawSpec
CHECK_DEADLOCK FALSE
INVARIANTS
  UniverseOK LawHolds
