SPECIFICATION TraceSpec
CONSTANTS
  NW = 4
  Scripts <- T_Scripts
  MaxTick = 100000000
  MaxPid = 8
  MaxFuel = 200
  Placement = "any"
  Defects <- T_Defects
  IOModes = {"now", "later"}
  Lines <- T_Lines
CHECK_DEADLOCK FALSE
CONSTRAINT Progress
POSTCONDITION TraceAccepted
