------------------------------- MODULE RtBase -------------------------------
(* Pure definitions shared by the mechanism model (Runtime), its properties and the
   observation monitor (RuntimeObs): options, values, association lists, select sources
   and their documented readiness. *)
EXTENDS Integers, Sequences, FiniteSets, TLC, SequencesExt, FiniteSetsExt, Functions

None    == <<>>
Some(v) == <<v>>

(* ---- values: every value is a record with a kind field ---- *)
Nil       == [k |-> "nil"]
OkV       == [k |-> "tup", name |-> "Ok", fs |-> <<>>]
IntV(n)   == [k |-> "int", n |-> n]
PidV(p)   == [k |-> "pid", p |-> p]
TupV(fs)  == [k |-> "tup", name |-> "", fs |-> fs]
ErrV(e)   == [ok |-> FALSE, e |-> e]
OkR(v)    == [ok |-> TRUE, v |-> v]

RECURSIVE Eval(_, _)
Eval(e, regs) ==
  CASE e.e = "c" -> e.v
    [] e.e = "r" -> regs[e.r]
    [] e.e = "t" -> TupV([i \in 1..Len(e.fs) |-> Eval(e.fs[i], regs)])
    [] e.e = "f" -> regs[e.r].fs[e.i + 1]
    [] e.e = "hb" -> [k |-> "bin", b |-> e.b]      \* a binary built at run time (a heap slot in the code)

(* an expression that mentions no register has a value the observer can compute by itself *)
RECURSIVE Closed(_)
Closed(e) == CASE e.e = "c" -> TRUE
               [] e.e = "hb" -> TRUE
               [] e.e = "t" -> \A i \in 1..Len(e.fs) : Closed(e.fs[i])
               [] OTHER -> FALSE

(* does a value carry a binary (which lives on an executor heap in the code)? *)
RECURSIVE HasBin(_)
HasBin(v) == CASE v.k = "bin" -> TRUE
               [] v.k = "tup" -> \E i \in 1..Len(v.fs) : HasBin(v.fs[i])
               [] OTHER -> FALSE

(* resources mentioned by a value *)
RECURSIVE ResIn(_)
ResIn(v) == CASE v.k = "res" -> {v.r}
              [] v.k = "tup" -> UNION {ResIn(v.fs[i]) : i \in 1..Len(v.fs)}
              [] OTHER -> {}

(* pids mentioned by a value *)
RECURSIVE PidsIn(_)
PidsIn(v) == CASE v.k = "pid" -> {v.p}
               [] v.k = "tup" -> UNION {PidsIn(v.fs[i]) : i \in 1..Len(v.fs)}
               [] OTHER -> {}


(* association lists sorted by key: <<k, v>> pairs *)
AHas(a, k)    == \E i \in 1..Len(a) : a[i][1] = k
AGet(a, k)    == a[CHOOSE i \in 1..Len(a) : a[i][1] = k][2]
ADel(a, k)    == SelectSeq(a, LAMBDA e : e[1] # k)
RECURSIVE AInsSorted(_, _)
AInsSorted(a, e) == IF a = <<>> THEN <<e>>
                    ELSE IF e[1] < Head(a)[1] THEN <<e>> \o a
                    ELSE <<Head(a)>> \o AInsSorted(Tail(a), e)
APut(a, k, v) == AInsSorted(ADel(a, k), <<k, v>>)
AKeys(a)      == {a[i][1] : i \in 1..Len(a)}


\* script form:  [k |-> "await", reg], [k |-> "recv", tys, filt, acc], [k |-> "timeout", d]
\* evaluated:    [k |-> "await", t],   [k |-> "recv", tys, filt, acc], [k |-> "timeout", d]
EvalSrc(s, regs) ==
  IF s.k = "await" THEN [k |-> "await", t |-> regs[s.reg].p] ELSE s

IsRecv(s) == s.k = "recv"
\* a timeout that can fire in finite model time; a duration of 2^30 ms or more is a "never" sentinel
\* (`! [100000000000000000000000, p]`): it keeps nothing pending and is never "ready"
Fires(s) == s.k = "timeout" /\ s.d < 1073741824
RecvIndex(srcs, i) == Cardinality({j \in 1..(i - 1) : IsRecv(srcs[j])})   \* 0-based, as in the code
Tag(v) == IF v.k = "tup" /\ v.fs # <<>> /\ v.fs[1].k = "bin" THEN "btup"
          ELSE IF v.k = "tup" /\ v.fs # <<>> /\ v.fs[1].k = "pid" THEN "req"
          ELSE IF v.k = "tup" /\ v.fs # <<>> /\ v.fs[1].k = "res" THEN "rpair"    \* [\File, \File]: two handles in one message
          ELSE v.k
Compatible(m, s) == \E i \in 1..Len(s.tys) : s.tys[i] = Tag(m)            \* check_message_compatible
\* the filter body's verdict (a body that only calls an effect builtin and answers Ok accepts every message)
FilterAccepts(m, s) == s.body \in {"effect", "effect_read"} \/ \E i \in 1..Len(s.acc) : s.acc[i] = m


(* The documented readiness of a select source for a process-like record P with fields
   mailbox, awaiting (association list target -> option) and sel (option of a record with a
   `start` option): deliberately independent of the scan in Runtime. *)
SrcReady(P, src, t) ==
  CASE src.k = "await"   -> AHas(P.awaiting, src.t) /\ AGet(P.awaiting, src.t) # None
    [] src.k = "recv"    -> \E j \in 1..Len(P.mailbox) :
                               Compatible(P.mailbox[j], src) /\ (src.filt => FilterAccepts(P.mailbox[j], src))
    [] src.k = "timeout" -> P.sel # None /\ P.sel[1].start # None /\ t - P.sel[1].start[1] >= src.d

=============================================================================
