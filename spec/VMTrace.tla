------------------------------ MODULE VMTrace ------------------------------
(***************************************************************************)
(* The BINDING between the stack-effect semantics of VMSem.tla and the     *)
(* real instruction handlers: per-instruction traces of the REAL executor  *)
(* (harness/src/bin/vmtrace.rs: Executor::step(1, now) on the public sync  *)
(* path, one observation after every step) are replayed against the        *)
(* concrete-shape counterpart of the abstract machine of VMStack.tla.      *)
(*                                                                         *)
(* Input: the ndjson file named by VMTRACE_IN, one record per program:     *)
(*   [id, end, err, arity, caps,                                           *)
(*    fis : <<original function index>>,  fns : << code >>   the functions *)
(*         that were entered, in order of first entry (dense index 0..)    *)
(*    obs : << <<f, pc, stack, locals, frames>> >>]   obs[1] = the state   *)
(*         before the first step; <<-1, -1, s, l, 0>> = process finished   *)
(*                                                                         *)
(* The replay keeps a shadow of the frame stack: for each frame its        *)
(* function, the absolute stack height below its argument (sb), its        *)
(* locals base (lb) and, for a suspended frame, the pc of its Call.  For   *)
(* consecutive observations o, o' the instruction at (o.f, o.pc) must      *)
(* explain o' exactly:                                                     *)
(*   plain instruction : same frame, pc' a successor, stack' = stack +     *)
(*                       Delta, locals' = LocalsAfter;  and the relative   *)
(*                       height h = stack - sb is at least Needs;          *)
(*   Call of a function: a frame is pushed, pc' = 0, the function value is *)
(*                       gone (stack - 1), locals grow by the callee's     *)
(*                       captures, the callee's relative height is 1;      *)
(*   Call of a builtin : stack - 1, pc + 1;                                *)
(*   a frame whose pc reaches its length is popped IN THE SAME STEP: its   *)
(*                       relative height must be exactly 1, the locals     *)
(*                       are cut back to its base, the caller resumes      *)
(*                       after its Call (cascading);                       *)
(*   TailCall(true)    : same frame count, pc' = 0, stack unchanged, h = 1,*)
(*                       locals = base + captures;                         *)
(*   TailCall(false)   : same frame count and bases, other function,       *)
(*                       stack - 1 (h = 2 -> 1), locals = base + captures  *)
(*                       of the callee;                                    *)
(*   Select            : first step pops the sources (same pc), a later    *)
(*                       step pushes the result and advances.              *)
(* A mismatch is MODEL DRIFT (st.drift, invariant NoDrift): the spec's     *)
(* table and the handlers disagree -- reported as evidence, to be settled  *)
(* by reading executor.rs.  A run that ENDS in StackUnderflow,             *)
(* VariableUndefined, FunctionUndefined, ConstantUndefined or              *)
(* FrameUnderflow is a C07 violation (invariant RuntimeWellFormed): the    *)
(* compiler emitted bytecode the VM could not execute.                     *)
(***************************************************************************)
EXTENDS VMSem, FiniteSets, TLC, Json, IOUtils

CONSTANT Grain   \* observations validated per TLC step

VARIABLE st  \* [t : trace, i : index of the observation reached, fr : shadow frames,
             \*  sel : BOOLEAN (the Select at the top pc has taken its sources),
             \*  ph : "root" | "run" | "done", drift : <<>> or <<record>>]

Recs == ndJsonDeserialize(IOEnv.VMTRACE_IN)

BadErrors == {"StackUnderflow", "VariableUndefined", "FunctionUndefined", "ConstantUndefined",
              "FrameUnderflow"}

Drift(R, i, why, exp, got) ==
  <<[id |-> R.id, i |-> i, why |-> why, exp |-> exp, got |-> got,
     fi |-> IF R.obs[i][1] >= 0 THEN R.fis[R.obs[i][1] + 1] ELSE -1, pc |-> R.obs[i][2],
     op |-> IF R.obs[i][1] >= 0 /\ R.obs[i][2] < Len(R.fns[R.obs[i][1] + 1])
            THEN Op(R.fns[R.obs[i][1] + 1][R.obs[i][2] + 1]) ELSE "exit"]>>

CapsOf(R, f) == R.caps[R.fis[f + 1] + 1]     \* captures of dense function f

(***************************************************************************)
(* Pop exhausted frames.  X = [fr, pc, sh, ll, bad]: the shadow frames     *)
(* (top = the running frame), its pc, and the absolute stack / locals.     *)
(***************************************************************************)
RECURSIVE Settle(_, _)
Settle(R, X) ==
  IF X.bad # "" \/ Len(X.fr) = 0 THEN X
  ELSE LET top == X.fr[Len(X.fr)] IN
    IF top.f # -2 /\ X.pc < Len(R.fns[top.f + 1]) THEN X
    ELSE IF X.sh # top.sb + 1 THEN [X EXCEPT !.bad = "exit_height"]
    ELSE LET rest == SubSeq(X.fr, 1, Len(X.fr) - 1) IN
         IF Len(rest) = 0
           THEN [fr |-> rest, pc |-> -1, sh |-> X.sh - 1, ll |-> top.lb, bad |-> ""]   \* result taken
           ELSE Settle(R, [fr |-> rest, pc |-> rest[Len(rest)].ret + 1, sh |-> X.sh, ll |-> top.lb,
                           bad |-> ""])

(***************************************************************************)
(* Validate the step from observation i to i + 1.                          *)
(***************************************************************************)
StepObs(R, s) ==
  LET i   == s.i
      o   == R.obs[i]
      o2  == R.obs[i + 1]
      fr  == s.fr
      top == fr[Len(fr)]
      f   == o[1]
      pc  == o[2]
      sh  == o[3]
      ll  == o[4]
      code == R.fns[f + 1]
      I   == code[pc + 1]
      h   == sh - top.sb
      l   == ll - top.lb
      T   == R
      op  == Op(I)
      P(fr2, pc2, sh2, ll2, bad) == [fr |-> fr2, pc |-> pc2, sh |-> sh2, ll |-> ll2, bad |-> bad]
      \* the states the abstract machine allows next, before exhausted frames are popped
      pre ==
        CASE op = "Call" ->
               IF o2[5] > Len(fr)
               THEN <<P(Append([fr EXCEPT ![Len(fr)].ret = pc],
                               [f |-> o2[1], sb |-> sh - 2, lb |-> ll, ret |-> -1]),
                        0, sh - 1, ll + CapsOf(R, o2[1]), "")>>
               ELSE <<P(fr, pc + 1, sh - 1, ll, "")>>           \* builtin (or an empty callee)
          [] op = "TailCall" ->
               IF A(I) = 1
               THEN <<P(fr, 0, sh, top.lb + CapsOf(R, f), IF h # 1 THEN "tailcall_height" ELSE "")>>
               ELSE <<P([fr EXCEPT ![Len(fr)].f = o2[1]], 0, sh - 1,
                        top.lb + (IF o2[1] >= 0 THEN CapsOf(R, o2[1]) ELSE 0),
                        IF h # 2 THEN "tailcall_height" ELSE "")>>
                    \* ... or the callee has no instructions (`#'int`; never observed, so it is
                    \* not among the trace's functions: the pseudo function -2): its frame is
                    \* exhausted at once and popped in the same step
                    \o <<P([fr EXCEPT ![Len(fr)].f = -2], 0, sh - 1, top.lb,
                           IF h # 2 THEN "tailcall_height" ELSE "")>>
          [] op = "Select" ->
               IF ~s.sel THEN <<P(fr, pc, sh - 1, ll, "")>>           \* takes the sources
               ELSE <<P(fr, pc, sh, ll, ""),                           \* still waiting
                      P(fr, pc + 1, sh + 1, ll, "")>>                  \* pushes the selected value
          [] op = "Jump"   -> <<P(fr, pc + A(I) + 1, sh, ll, "")>>
          [] op = "JumpIf" -> <<P(fr, pc + 1, sh - 1, ll, ""), P(fr, pc + A(I) + 1, sh - 1, ll, "")>>
          [] OTHER -> <<P(fr, pc + 1, sh + Delta(I, T), top.lb + LocalsAfter(I, l), "")>>
      Exp(X) == IF Len(X.fr) = 0 THEN <<-1, -1, X.sh, X.ll, 0>>
                ELSE <<X.fr[Len(X.fr)].f, X.pc, X.sh, X.ll, Len(X.fr)>>
      Xs == [k \in 1..Len(pre) |-> Settle(R, pre[k])]
      hit == {k \in 1..Len(pre) : Xs[k].bad = "" /\ Exp(Xs[k]) = o2}
  IN  IF o[5] # Len(fr) \/ f # top.f THEN [s EXCEPT !.drift = Drift(R, i, "shadow_frames", <<top.f, Len(fr)>>, o)]
      \* (a Select that has already taken its sources waits with nothing of its own on the stack)
      ELSE IF h < Needs(I, T) /\ ~(op = "Select" /\ s.sel)
             THEN [s EXCEPT !.drift = Drift(R, i, "needs", <<Needs(I, T)>>, <<h>>)]
      ELSE IF ~LocalsOK(I, l) THEN [s EXCEPT !.drift = Drift(R, i, "locals", <<A(I)>>, <<l>>)]
      ELSE IF hit = {}
             THEN [s EXCEPT !.drift = Drift(R, i, IF Xs[1].bad # "" THEN Xs[1].bad ELSE "effect",
                                            Exp(Xs[1]), o2)]
      ELSE LET X == Xs[CHOOSE k \in hit : TRUE] IN
           [s EXCEPT !.i = i + 1, !.fr = X.fr,
                     !.sel = (op = "Select" /\ X.pc = pc /\ Len(X.fr) = Len(fr))]

RECURSIVE RunObs(_, _, _)
RunObs(R, s, k) ==
  IF k = 0 \/ s.drift # <<>> \/ s.i >= Len(R.obs) \/ Len(s.fr) = 0 THEN s
  ELSE RunObs(R, StepObs(R, s), k - 1)

Begin(t) ==
  LET R == Recs[t]
      s0 == [t |-> t, i |-> 1, fr |-> <<>>, sel |-> FALSE, ph |-> "run", drift |-> <<>>]
  IN  IF Len(R.obs) = 0 THEN [s0 EXCEPT !.ph = "done"]
      ELSE IF R.obs[1][2] # 0 \/ R.obs[1][3] # 1 \/ R.obs[1][4] # 0 \/ R.obs[1][5] # 1
             THEN [s0 EXCEPT !.drift = Drift(R, 1, "initial", <<0, 0, 1, 0, 1>>, R.obs[1])]
      ELSE [s0 EXCEPT !.fr = <<[f |-> R.obs[1][1], sb |-> 0, lb |-> 0, ret |-> -1]>>]

Advance(s) ==
  LET R == Recs[s.t]
      s2 == RunObs(R, s, Grain)
      fin == s2.drift # <<>> \/ s2.i >= Len(R.obs) \/ Len(s2.fr) = 0
      r == [s2 EXCEPT !.ph = IF fin THEN "done" ELSE "run"]
  IN  IF fin /\ s2.drift # <<>>
        THEN IF PrintT(<<"DRIFT", ToJson(s2.drift[1])>>) THEN r ELSE r
      ELSE IF fin /\ R.end = "error" /\ R.err \in BadErrors
        THEN IF PrintT(<<"VIOL", ToJson([id |-> R.id, rule |-> "runtime_error", err |-> R.err,
                                         steps |-> R.steps])>>) THEN r ELSE r
      ELSE r

Init == st = [t |-> 0, i |-> 0, fr |-> <<>>, sel |-> FALSE, ph |-> "root", drift |-> <<>>]

Next ==
  \/ /\ st.ph = "root"
     /\ \E t \in 1..Len(Recs) : st' = Begin(t)
  \/ /\ st.ph = "run"
     /\ st' = Advance(st)

Spec == Init /\ [][Next]_st

NoDrift == st.drift = <<>>

RuntimeWellFormed ==
  ~(st.ph = "done" /\ st.t > 0 /\ st.drift = <<>> /\ Recs[st.t].end = "error"
      /\ Recs[st.t].err \in BadErrors)
=============================================================================
