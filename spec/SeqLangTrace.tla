---------------------------- MODULE SeqLangTrace ----------------------------
(***************************************************************************)
(* Conformance judge for C02.  Reads records of REAL runs (one JSON object *)
(* per line of the file named by the environment variable SEQ_TRACE):      *)
(*     {"id": i, "ast": <program, see SeqLang>, "outcome": o}              *)
(* where o is what the real compiler + VM produced for the rendered        *)
(* program: {"t":"value","v":<value as qrun prints it>},                   *)
(* {"t":"error","e":<class>}, {"t":"none"} (instruction budget exhausted)  *)
(* or {"t":"crash"}.  For every record TLC evaluates the reference         *)
(* semantics Eval(ast) and requires  outcome \in Eval(ast).  A record for  *)
(* which the specification itself says Undefined (outside the documented   *)
(* core) or Diverges (fuel bound) is not judged and printed as SKIP.       *)
(* ONE STATE PER RECORD (root -> chunk -> record) so that the workers      *)
(* share the records; a disagreement prints                                *)
(*     <<"MISMATCH", {"id":..,"exp":[..],"obs":..}>>                       *)
(* and the Python side turns it into a VIOLATION / KNOWN-FINDING line.     *)
(***************************************************************************)
EXTENDS SeqLang, Json, IOUtils

VARIABLE st

Recs == ndJsonDeserialize(IOEnv.SEQ_TRACE)
N == Len(Recs)
ChunkSize == 100
NChunks == (N + ChunkSize - 1) \div ChunkSize
MinI(a, b) == IF a < b THEN a ELSE b

Init == st = [lvl |-> 0, i |-> 0]
Next == \/ st.lvl = 0 /\ \E c \in 1..NChunks : st' = [lvl |-> 1, i |-> c]
        \/ st.lvl = 1 /\ \E i \in ((st.i - 1) * ChunkSize + 1)..MinI(st.i * ChunkSize, N) :
                            st' = [lvl |-> 2, i |-> i]
TraceSpec == Init /\ [][Next]_st

Judge(r) ==
  LET S == Eval(r.ast)
  IN IF Undefined \in S THEN PrintT(<<"SKIP", ToJson([id |-> r.id, why |-> "undefined"])>>)
     ELSE IF Diverges \in S THEN PrintT(<<"SKIP", ToJson([id |-> r.id, why |-> "diverges"])>>)
     ELSE IF r.outcome \in S THEN TRUE
     ELSE PrintT(<<"MISMATCH", ToJson([id |-> r.id, exp |-> S, obs |-> r.outcome])>>)

\* always TRUE: the verdicts are the printed lines (every record is visited exactly once)
Conforms == st.lvl = 2 => Judge(Recs[st.i])
=============================================================================
