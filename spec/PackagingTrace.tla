--------------------------- MODULE PackagingTrace ---------------------------
(* Judges recorded packaging runs (IOEnv.PKG_TRACE, ndjson): one record per (program, history)
     [id, group, configs: [compiled, shaken, serde, merged (, inplace)], serde_identical]
   Rules: ConfigsAgree (all configurations of one record yield the same outcome),
          SerdeIdentical, HistoryIndependent (records of one group - the same program under
          different histories, or an import and its in-place reading - agree).  *)
EXTENDS Integers, Sequences, FiniteSets, TLC, Json, IOUtils

Rec == ndJsonDeserialize(IOEnv.PKG_TRACE)
VARIABLES i, seen      \* seen: group -> first outcome observed for it
Outcomes(r) == {r.configs[c] : c \in DOMAIN r.configs}

Judge(r) ==
  LET os == Outcomes(r)
      m1 == IF Cardinality(os) = 1 THEN TRUE
            ELSE PrintT("MISMATCH|" \o r.id \o "|ConfigsAgree|" \o ToString(r.configs))
      m2 == IF r.serde_identical THEN TRUE
            ELSE PrintT("MISMATCH|" \o r.id \o "|SerdeIdentical|bytecode does not re-serialise byte-identically")
      o == CHOOSE x \in os : TRUE
      m3 == IF r.group \in DOMAIN seen /\ seen[r.group] # o
            THEN PrintT("MISMATCH|" \o r.id \o "|HistoryIndependent|" \o ToString(<<seen[r.group], o>>))
            ELSE TRUE
  IN m1 /\ m2 /\ m3

Init == i = 1 /\ seen = <<>>
Next == /\ i <= Len(Rec)
        /\ Judge(Rec[i])
        /\ seen' = IF Rec[i].group \in DOMAIN seen THEN seen
                   ELSE (Rec[i].group :> (CHOOSE x \in Outcomes(Rec[i]) : TRUE)) @@ seen
        /\ i' = i + 1
Spec == Init /\ [][Next]_<<i, seen>>
Done == IF TLCGet("stats").diameter = Len(Rec) + 1 THEN TRUE
        ELSE PrintT(<<"INCOMPLETE", TLCGet("stats").diameter, Len(Rec)>>) /\ FALSE
=============================================================================
