----------------------------- MODULE TypesTrace -----------------------------
(***************************************************************************)
(* Conformance judge for C09.  Reads the answers of the REAL type checker  *)
(* (harness bin `typesreplay`), one JSON object per line of the file named *)
(* by the environment variable TYPES_TRACE:                                *)
(*   {"id":.., "g": graph, "roots": [ids], "judge": [[i,j]..] (the ordered *)
(*    pairs of root indices judged against the value sets; REFL and TRANS  *)
(*    are judged on the whole matrix),                                     *)
(*    "compat":  [[bool]]   compat[i][j]  = is_compatible(roots[i], roots[j]) *)
(*    "overlap": [[bool]]   overlap[i][j] = types_overlap(roots[i], roots[j]) *)
(*                          (self = value type, pattern = pattern type)    *)
(*    "narrow": [{"i","j","g": graph', "a","b", "inter": <<id>>|<<>>,      *)
(*                "compl": <<id>>|<<>>}]}                                   *)
(* graph' is the code's own registry (reachable part) after it computed    *)
(* intersect_types / the branch complement, a/b are roots[i]/roots[j] in   *)
(* it.  For every record TLC recomputes the bounded value sets of          *)
(* Types.tla and requires                                                  *)
(*   REFL    is_compatible(A,A)                                            *)
(*   SOUND   is_compatible(A,B) => Contained(A,B)     (witness otherwise)  *)
(*   TRANS   is_compatible(A,B) /\ is_compatible(B,C) => is_compatible(A,C)*)
(*   OVER    Overlap(A,B) => types_overlap(A,B)       (witness)            *)
(*   INTER   Vals(A) \cap Vals(B) \subseteq Vals(A & B)      (witness)     *)
(*   COMPL   Vals(A) \ Vals(B) \subseteq Vals(complement)    (witness)     *)
(* A root that is not closed and contractive is a generator error          *)
(* (ILLFORMED, a tool error, never an alarm).                              *)
(* One state per record; every mismatch is printed as                      *)
(*   <<"MISMATCH", {"id","rule","i","j","k","wit"}>>                       *)
(* and violates the invariant Conforms (run with -continue).               *)
(***************************************************************************)
EXTENDS Types, Json, IOUtils

VARIABLE st

Recs == ndJsonDeserialize(IOEnv.TYPES_TRACE)
N == Len(Recs)
D == IF "TYPES_D" \in DOMAIN IOEnv THEN atoi(IOEnv.TYPES_D) ELSE 3
ChunkSize == 200
NChunks == (N + ChunkSize - 1) \div ChunkSize
MinI(a, b) == IF a < b THEN a ELSE b

Init == st = [lvl |-> 0, i |-> 0]
Next == \/ st.lvl = 0 /\ \E c \in 1..NChunks : st' = [lvl |-> 1, i |-> c]
        \/ st.lvl = 1 /\ \E i \in ((st.i - 1) * ChunkSize + 1)..MinI(st.i * ChunkSize, N) :
                            st' = [lvl |-> 2, i |-> i]
TraceSpec == Init /\ [][Next]_st

Mis(rule, i, j, k, wit) == [rule |-> rule, i |-> i, j |-> j, k |-> k, wit |-> wit]

PairBad(r) ==
  LET G == r.g
      R == r.roots
      U == TupleUniverse(G, Range(R))
      I == DOMAIN R
      J == {<<r.judge[x][1], r.judge[x][2]>> : x \in DOMAIN r.judge}
      ill == {x \in I : ~WellFormed(G, R[x])}
  IN  IF ill # {} THEN {Mis("ILLFORMED", i, i, 0, <<>>) : i \in ill} ELSE
      {Mis("REFL", i, i, 0, <<>>) : i \in {x \in I : ~r.compat[x][x]}}
      \cup
      UNION {LET esc == Escapees(G, U, R[p[1]], R[p[2]], D)
             IN  IF r.compat[p[1]][p[2]] /\ esc # {}
                 THEN {Mis("SOUND", p[1], p[2], 0, Wit(esc))} ELSE {}
             : p \in J}
      \cup
      UNION {LET com == Common(G, U, R[p[1]], R[p[2]], D)
             IN  IF ~r.overlap[p[1]][p[2]] /\ com # {}
                 THEN {Mis("OVER", p[1], p[2], 0, Wit(com))} ELSE {}
             : p \in J}
      \cup
      {Mis("TRANS", p[1], p[2], p[3], <<>>) :
         p \in {q \in I \X I \X I : r.compat[q[1]][q[2]] /\ r.compat[q[2]][q[3]]
                                     /\ ~r.compat[q[1]][q[3]]}}

(* Reading of a narrowing result.  The compiler keeps the VARIANTS of the declared type A   *)
(* (narrowing.rs: "resolve a recursive field's Cycle to the boundary fixed by the type       *)
(* definition ... complement narrowing can drop sibling variants from the scrutinee"): the   *)
(* members of a result union are variants of A, their Cycle(1) still means A.  A value is    *)
(* counted as lost only if NEITHER this reading NOR the plain graph reading admits it.       *)
ResMay(G, U, v, r, a) ==
  LET ctxA == IF G.types[a].k = "uni" THEN <<a>> ELSE <<>> IN
  \/ MayInhabit(G, U, v, r, D)
  \/ IF G.types[r].k = "uni"
     THEN \E m \in Range(G.types[r].ms) : In(G, U, FALSE, v, m, ctxA, D)
     ELSE In(G, U, FALSE, v, r, ctxA, D)

(* the result graphs come from the code: only judge results the semantics terminates on *)
Judgeable(G, ids) == \A n \in ids : Contr(G, n, FALSE)

NarrowBad(r) ==
  UNION {LET G == n.g
             ids == {n.a, n.b} \cup Range(n.inter) \cup Range(n.compl)
             U == TupleUniverse(G, ids)
         IN  IF ~Judgeable(G, ids) THEN {}
             ELSE (IF n.inter = <<>> THEN {}
                   ELSE LET lost == {v \in Common(G, U, n.a, n.b, D) :
                                       ~ResMay(G, U, v, n.inter[1], n.a)}
                        IN  IF lost = {} THEN {} ELSE {Mis("INTER", n.i, n.j, 0, Wit(lost))})
                  \cup
                  (IF n.compl = <<>> THEN {}
                   ELSE LET lost == {v \in Diff(G, U, n.a, n.b, D) :
                                       ~ResMay(G, U, v, n.compl[1], n.a)}
                        IN  IF lost = {} THEN {} ELSE {Mis("COMPL", n.i, n.j, 0, Wit(lost))})
         : n \in Range(r.narrow)}

(* per-record statistics for the evidence file (measured, not asserted) *)
Stat(r) ==
  LET G == r.g
      R == r.roots
      U == TupleUniverse(G, Range(R))
      I == DOMAIN R
      P == {<<r.judge[x][1], r.judge[x][2]>> : x \in DOMAIN r.judge}
  IN  [id |-> r.id,
       pairs |-> Cardinality(P),
       contained |-> Cardinality({q \in P : Contained(G, U, R[q[1]], R[q[2]], D)}),
       overlapping |-> Cardinality({q \in P : Overlap(G, U, R[q[1]], R[q[2]], D)}),
       compat |-> Cardinality({q \in P : r.compat[q[1]][q[2]]}),
       incomplete |-> Cardinality({q \in P : ~r.compat[q[1]][q[2]]
                                             /\ ContainedMust(G, U, R[q[1]], R[q[2]], D)}),
       asym |-> Cardinality({q \in P : r.overlap[q[1]][q[2]] # r.overlap[q[2]][q[1]]}),
       narrow |-> Len(r.narrow),
       unjudged |-> Cardinality({x \in DOMAIN r.narrow :
                       ~Judgeable(r.narrow[x].g, {r.narrow[x].a, r.narrow[x].b}
                            \cup Range(r.narrow[x].inter) \cup Range(r.narrow[x].compl))})]

WantStat == "TYPES_STAT" \in DOMAIN IOEnv /\ IOEnv.TYPES_STAT = "1"

Conforms ==
  st.lvl = 2 =>
    LET r == Recs[st.i]
        bad == PairBad(r) \cup NarrowBad(r)
    IN  /\ WantStat => PrintT(<<"STAT", ToJson(Stat(r))>>)
        /\ \A m \in bad : PrintT(<<"MISMATCH", ToJson([id |-> r.id] @@ m)>>)
        /\ bad = {}
=============================================================================
