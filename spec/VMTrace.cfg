SPECIFICATION Spec
CONSTANTS
  Grain = 64
CHECK_DEADLOCK FALSE
INVARIANTS
  NoDrift
  RuntimeWellFormed
