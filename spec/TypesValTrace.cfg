SPECIFICATION TraceSpec
CHECK_DEADLOCK FALSE
INVARIANTS
  Conforms
