SPECIFICATION Spec
CHECK_DEADLOCK FALSE
POSTCONDITION Done
