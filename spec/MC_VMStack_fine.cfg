SPECIFICATION Spec
CONSTANTS
  Grain = 1
CHECK_DEADLOCK FALSE
INVARIANTS
  NoUnderflow
  JumpsInside
  IndicesInRange
  LoadsDefined
  ResetInRange
  JoinHeightsAgree
  ExitHeightOne
  TailCallHeights
  ReplBindingsSurvive
