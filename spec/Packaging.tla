------------------------------ MODULE Packaging ------------------------------
(***************************************************************************)
(* C10: packaging steps preserve behaviour.                                 *)
(*                                                                         *)
(* A *history* is a sequence of Merge(q) steps of other programs into one    *)
(* environment, followed by Run(p, config) with config one of               *)
(*   compiled  - Program::to_bytecode, executed as compiled                  *)
(*   shaken    - Program::to_bytecode_optimized (dead-code elimination)      *)
(*   serde     - JSON write/read of the shaken bytecode (`quiv compile` /    *)
(*               `quiv run`), which must re-serialise byte-identically       *)
(*   merged    - the shaken bytecode merged into an environment that already *)
(*               holds the history's programs (all table indices shifted and *)
(*               partially deduplicated)                                     *)
(* The specification: the outcome of Run depends on p alone,                 *)
(*      \A history, config : Outcome(history, p, config) = Meaning(p)        *)
(* and an import denotes the module body's value:                            *)
(*      Outcome(use of %m ...) = Outcome(same use of the body in place).     *)
(* This module enumerates the histories (TLC) and PackagingTrace judges the  *)
(* recorded outcomes; Meaning(p) is the value all configurations must agree  *)
(* on (and, for generated programs, the value SeqLang assigns: engine C02).  *)
(***************************************************************************)
EXTENDS Integers, Sequences, TLC, Json

CONSTANTS NPool,     \* size of the pool of programs that can be merged before the program under test
          MaxHist    \* longest history

VARIABLES hist, done
Init == hist = <<>> /\ done = FALSE
Next == \/ /\ ~done /\ Len(hist) < MaxHist
           /\ \E q \in 1..NPool : hist' = Append(hist, q) /\ done' = FALSE
        \/ /\ ~done /\ done' = TRUE /\ hist' = hist
Spec == Init /\ [][Next]_<<hist, done>>
Emit == done => PrintT(<<"HIST", ToJson(hist)>>)
=============================================================================
