----------------------------- MODULE RuntimeObs -----------------------------
(***************************************************************************)
(* Property monitor (L1) for recorded executions of the REAL runtime.       *)
(*                                                                         *)
(* A deterministic observer: every trace record only updates observation    *)
(* state (mailboxes, arrivals, sends, results, open selects, results known  *)
(* to awaiters, script positions).  It knows the scenario's scripts (what   *)
(* each process is supposed to do) but nothing about the mechanism.  The    *)
(* listed properties are judged on the observations; every failure is       *)
(* printed as  <<"VIOL", run id, record, property, rule, detail>>  and the  *)
(* check continues, so one TLC run judges a whole batch of runs.            *)
(***************************************************************************)
EXTENDS RtBase, Json, IOUtils

Rec == ndJsonDeserialize(IOEnv.TRACE)
Batch == JsonDeserialize(IOEnv.SCRIPTS)
Scripts == Batch.scripts
MaxPid == 10
Pids == 0..(MaxPid - 1)

VARIABLES l, O
ovars == <<l, O>>

Has(r, f) == f \in DOMAIN r
R == Rec[l]

Fresh(meta, id, expect) ==
  [id |-> id, meta |-> meta,
   script |-> [p \in Pids |-> IF p = 0 THEN meta.entry ELSE 0],
   pc |-> [p \in Pids |-> 1],
   path |-> [p \in Pids |-> <<>>],
   mbox |-> [p \in Pids |-> <<>>],
   arrived |-> [p \in Pids |-> <<>>],
   sent |-> [p \in Pids |-> [q \in Pids |-> <<>>]],
   res |-> [p \in Pids |-> None],
   sel |-> [p \in Pids |-> None],          \* [srcs, first, start, receiving]
   known |-> [p \in Pids |-> <<>>],        \* association list target -> option
   host |-> [p \in Pids |-> IF p = 0 THEN 0 ELSE -1],
   selecting |-> {}, spawning |-> {},
   spawnAt |-> {},
   pendingA |-> {}, envGot |-> [p \in Pids |-> {}],
   reportedDone |-> {},                    \* processes whose completion has been reported to the environment
   toDead |-> {},                          \* resources delivered to a process after that report
   own |-> <<>>,                           \* C14: resource -> owner, as the property defines it
   opened |-> {}, explicit |-> {}, autoClosed |-> <<>>,
   heap |-> [w \in 0..7 |-> None],          \* last heap snapshot per worker
   died |-> [p \in Pids |-> None],         \* select state a process had open when it got its result
   now |-> 0,
   expect |-> expect,                      \* <<scenario name, canonical results>> of an earlier run
   viol |-> <<>>]

V(o, prop, rule, detail) == [o EXCEPT !.viol = Append(@, <<o.id, l, prop, rule, ToString(detail)>>)]
Chk(o, cond, prop, rule, detail) == IF cond THEN o ELSE V(o, prop, rule, detail)

\* `let` operations are local and unobservable: the observer's position skips them
RECURSIVE SkipLets(_, _)
SkipLets(ops, i) == IF i <= Len(ops) /\ ops[i].op \in {"let", "mint", "selfpid"} THEN SkipLets(ops, i + 1) ELSE i
PcAt(o, p) == IF o.script[p] = 0 THEN o.pc[p] ELSE SkipLets(Scripts[o.script[p]], o.pc[p])
OpAt(o, p) ==
  IF o.script[p] = 0 \/ PcAt(o, p) > Len(Scripts[o.script[p]]) THEN [op |-> "none"]
  ELSE Scripts[o.script[p]][PcAt(o, p)]

(* ---------------- consumed commands ---------------- *)
RECURSIVE LearnResults(_, _)
LearnResults(a, rs) ==
  IF rs = <<>> THEN a
  ELSE LET t == Head(rs)[1]
           r == Head(rs)[2]
       IN LearnResults(IF r # None /\ r[1].ok THEN APut(a, t, Some(r[1].v)) ELSE a, Tail(rs))

Consume(o, w, c) ==
  CASE c.t = "DeliverMessage" ->
         [o EXCEPT !.mbox[c.to] = Append(@, c.m), !.arrived[c.to] = Append(@, c.m)]
    [] c.t = "UpdateAwaitResults" -> [o EXCEPT !.known[c.a] = LearnResults(@, c.rs)]
    [] c.t = "NotifySpawn" -> [o EXCEPT !.pc[c.p] = PcAt(o, c.p) + 1]
    [] c.t = "SpawnProcess" -> [o EXCEPT !.host[c.id] = w]
    [] c.t = "EffectCompletion" -> IF c.ok THEN [o EXCEPT !.pc[c.p] = PcAt(o, c.p) + 1] ELSE o
    [] OTHER -> o

(* ---------------- executor operations (hook events) ---------------- *)
RECURSIVE AwaitSrcs(_, _)
AwaitSrcs(srcs, ts) ==      \* bind the await sources, in order, to the logged target pids
  IF srcs = <<>> THEN <<>>
  ELSE IF Head(srcs).k = "await"
       THEN IF ts = <<>> THEN <<[k |-> "await", t |-> -1]>> \o AwaitSrcs(Tail(srcs), ts)
            ELSE <<[k |-> "await", t |-> Head(ts)]>> \o AwaitSrcs(Tail(srcs), Tail(ts))
       ELSE <<Head(srcs)>> \o AwaitSrcs(Tail(srcs), ts)

RECURSIVE ResetKnown(_, _)
ResetKnown(a, ts) == IF ts = <<>> THEN a ELSE ResetKnown(APut(a, Head(ts), None), Tail(ts))

Accepts(src, m) == Compatible(m, src) /\ (src.filt => FilterAccepts(m, src))
FirstAccepted(mb, src) ==
  IF \E j \in 1..Len(mb) : Accepts(src, mb[j])
  THEN Min({j \in 1..Len(mb) : Accepts(src, mb[j])}) ELSE 0

ApplyOp(o, x, now) ==
  CASE x.op = "select_init" ->
         LET op == OpAt(o, x.p) IN
         IF o.meta.entry = 0 THEN o          \* an unscripted session: only state-based rules apply
         ELSE IF op.op # "select"
         THEN V(o, "C03", "ScriptFollowed", <<"select executed where the script has", op.op, x.p>>)
         ELSE [o EXCEPT !.sel[x.p] = Some([srcs |-> AwaitSrcs(op.srcs, x.ts), first |-> now,
                                           start |-> IF x.ts = <<>> THEN Some(now) ELSE None]),
                        !.known[x.p] = ResetKnown(@, x.ts)]
    [] x.op = "select_complete" ->
         IF o.meta.entry = 0 THEN o
         ELSE IF o.sel[x.p] = None
         THEN V(o, "C05", "SelectOpen", <<"completion without an open select", x.p>>)
         ELSE IF x.src > Len(o.sel[x.p][1].srcs)
         THEN V(o, "C03", "ScriptFollowed", <<"select completed through a source the script does not list", x.p, x.src>>)
         ELSE
         LET st == o.sel[x.p][1]
             i == x.src
             src == st.srcs[i]
             \* the executor fixes the start of the wait at its first scan
             P == [mailbox |-> o.mbox[x.p], awaiting |-> o.known[x.p],
                   sel |-> Some([start |-> IF st.start = None THEN Some(now) ELSE st.start])]
             o1 == Chk(o, \A j \in 1..(i - 1) : ~SrcReady(P, st.srcs[j], now),
                       "C05", "SelectPriority", <<x.p, i, {j \in 1..(i - 1) : SrcReady(P, st.srcs[j], now)}>>)
             o2 == CASE src.k = "recv" ->
                         LET j == FirstAccepted(o1.mbox[x.p], src) IN
                         IF j = 0 THEN V(o1, "C05", "EarliestAccepted", <<"no acceptable message", x.p, x.v>>)
                         ELSE [Chk(o1, x.v = o1.mbox[x.p][j], "C05", "EarliestAccepted",
                                   <<x.p, "yielded", x.v, "expected", o1.mbox[x.p][j]>>)
                               EXCEPT !.mbox[x.p] = RemoveAt(@, j)]
                    [] src.k = "await" ->
                         Chk(o1, AHas(o1.known[x.p], src.t) /\ o1.known[x.p] # <<>> /\
                                 AGet(o1.known[x.p], src.t) = Some(x.v),
                             "C05", "AwaitYieldsResult", <<x.p, src.t, x.v>>)
                    [] src.k = "timeout" ->
                         Chk(o1, x.v = Nil /\ now - st.first >= src.d,
                             "C05", "TimeoutNotEarly", <<x.p, src.d, st.first, now, x.v>>)
         IN [o2 EXCEPT !.sel[x.p] = None, !.pc[x.p] = PcAt(o, x.p) + 1]
    [] x.op = "filter_verdict" ->
         IF o.sel[x.p] = None THEN o
         ELSE LET st == o.sel[x.p][1]
                  idx == {i \in 1..Len(st.srcs) : IsRecv(st.srcs[i]) /\ RecvIndex(st.srcs, i) + 1 = x.recv}
              IN IF idx = {} \/ ~Has(st, "held") THEN o
                 ELSE LET src == st.srcs[CHOOSE i \in idx : TRUE] IN
                      Chk(o, x.acc = FilterAccepts(st.held, src), "C05", "FilterIsVerdict",
                          <<x.p, st.held, x.acc>>)
    [] OTHER -> o

\* record the message a filter is being evaluated on (kept as field `held` of the open select)
ApplyOp2(o, x, now) ==
  IF x.op = "filter_call"
  THEN IF o.sel[x.p] = None \/ x.msg > Len(o.mbox[x.p]) THEN o
       ELSE LET st == o.sel[x.p][1] IN
            [o EXCEPT !.sel[x.p] = Some([srcs |-> st.srcs, first |-> st.first, start |-> st.start,
                                         held |-> o.mbox[x.p][x.msg]])]
  ELSE ApplyOp(o, x, now)

RECURSIVE FoldOps(_, _, _)
FoldOps(o, xs, now) == IF xs = <<>> THEN o ELSE FoldOps(ApplyOp2(o, Head(xs), now), Tail(xs), now)

RECURSIVE FoldConsume(_, _, _)
FoldConsume(o, w, cs) == IF cs = <<>> THEN o ELSE FoldConsume(Consume(o, w, Head(cs)), w, Tail(cs))

Runner(ops) == IF \E i \in 1..Len(ops) : ops[i].op = "run"
               THEN ops[CHOOSE i \in 1..Len(ops) : ops[i].op = "run"].p ELSE -1

(* ---------------- emitted events ---------------- *)
Emitted(o, p, e) ==
  CASE e.t = "SpawnAction" ->
         IF o.meta.entry = 0 THEN o ELSE
         LET op == OpAt(o, e.c)
             o1 == Chk(o, op.op = "spawn", "C04", "SpawnExactlyOnce",
                       <<"spawn executed where the script has", op.op, e.c>>)
             o2 == Chk(o1, <<e.c, PcAt(o, e.c)>> \notin o.spawnAt, "C04", "SpawnExactlyOnce",
                       <<"spawn operation executed twice", e.c, PcAt(o, e.c)>>)
         IN [o2 EXCEPT !.spawnAt = @ \cup {<<e.c, PcAt(o, e.c)>>}]
    [] e.t = "DeliverAction" ->
         IF p < 0 \/ o.meta.entry = 0 THEN o
         ELSE LET op == OpAt(o, p)
                  o1 == Chk(o, op.op \in {"send", "retsend"}, "C03", "ScriptFollowed",
                            <<"send executed where the script has", op.op, p>>)
                  \* what leaves the sender is what the script says it sends (bytes included)
                  o2 == IF op.op \in {"send", "retsend"} /\ Closed(op.val)
                        THEN Chk(o1, e.m = Eval(op.val, <<>>), "C06", "ContentPreserved",
                                 <<"process", p, "sent", e.m, "the script sends", Eval(op.val, <<>>)>>)
                        ELSE o1
              IN [o2 EXCEPT !.sent[p][e.to] = Append(@, e.m), !.pc[p] = PcAt(o, p) + 1]
    [] e.t = "EffectRequest" ->
         IF o.meta.entry = 0 THEN o
         ELSE LET op == OpAt(o, e.p)
                  \* ... or the script is at a select one of whose filters calls an effect builtin
                  inFilter == op.op = "select" /\ \E i \in 1..Len(op.srcs) :
                                 op.srcs[i].k = "recv" /\ op.srcs[i].body \in {"effect", "effect_fail", "effect_read"}
              IN Chk(o, op.op \in {"open", "use", "close"} \/ inFilter, "C03", "ScriptFollowed",
                     <<"effect requested where the script has", op.op, e.p>>)
    [] OTHER -> o

RECURSIVE FoldEmitted(_, _, _)
FoldEmitted(o, p, es) == IF es = <<>> THEN o ELSE FoldEmitted(Emitted(o, p, Head(es)), p, Tail(es))

(* ---------------- post snapshot ---------------- *)
Snapshot(o, w, pr, completedHere, resumedHere) ==
  LET p == pr.p
      o1 == Chk(o, pr.mailbox = o.mbox[p],
                IF p \in completedHere THEN "C05" ELSE "C04",
                IF p \in completedHere THEN "MailboxPreserved" ELSE "ExactlyOnce",
                <<p, "mailbox", pr.mailbox, "expected", o.mbox[p]>>)
      resumed == pr.persistent /\ (pr.result = <<>> \/ p \in resumedHere)
      o2 == Chk(o1, o.res[p] = None \/ pr.result = o.res[p] \/ resumed,
                "C15", "ResultStable", <<p, o.res[p], pr.result>>)
      st == IF pr.sel = <<>> \/ o.sel[p] = None THEN o.sel[p]
            ELSE Some([o.sel[p][1] EXCEPT !.start = pr.sel[1].start])
  IN [o2 EXCEPT !.mbox[p] = pr.mailbox,      \* resynchronise so that one loss is reported once
                !.res[p] = pr.result,
                !.known[p] = pr.awaiting,
                !.sel[p] = st,
                !.host[p] = w,
                !.died[p] = IF o.res[p] = None /\ pr.result # <<>> THEN pr.sel ELSE @]

RECURSIVE FoldSnap(_, _, _, _, _)
FoldSnap(o, w, prs, done, resumed) ==
  IF prs = <<>> THEN o ELSE FoldSnap(Snapshot(o, w, Head(prs), done, resumed), w, Tail(prs), done, resumed)

(* ---------------- C06: heap accounting at every slice boundary ---------------- *)
HeapRules(o, w, h) ==
  LET n == Len(h.rc)
      S == 0..(n - 1)
      reach == ToSet(h.reach)
      free == ToSet(h.free)
      pend == ToSet(h.pending)
      badCount == {s \in S : (h.rc[s + 1] > 0) # (s \in reach)}
      o1 == Chk(o, badCount = {}, "C06", "Counted", {<<s, h.rc[s + 1], s \in reach>> : s \in badCount})
      o2 == Chk(o1, \A s \in reach : s \in S /\ ~h.freed[s + 1], "C06", "NoReachableFreed",
                {s \in reach : s \notin S \/ h.freed[s + 1]})
      o3 == Chk(o2, (\A s \in S : h.freed[s + 1] <=> s \in free) /\
                    (\A i, j \in 1..Len(h.free) : h.free[i] = h.free[j] => i = j),
                "C06", "FreeList", <<h.free, h.freed>>)
      orphans == {s \in S : ~h.freed[s + 1] /\ h.rc[s + 1] = 0 /\ s \notin pend}
      o4 == Chk(o3, orphans = {}, "C06", "NoOrphan", orphans)
      prev == o.heap[w]
      changed == IF prev = None THEN {}
                 ELSE {s \in ToSet(prev[1].reach) \cap S :
                         ~h.freed[s + 1] /\ (prev[1].hash[s + 1] # h.hash[s + 1] \/ prev[1].len[s + 1] # h.len[s + 1])}
      o5 == Chk(o4, changed = {}, "C06", "ContentStable", changed)
  IN [o5 EXCEPT !.heap[w] = Some(h)]

WorkerRecord(o, r) ==
  IF Has(r, "crash")
  THEN V(o, "C15", "NoWorkerCrash", r.crash)
  ELSE
  LET w == r.w
      p == Runner(r.ops)
      o1 == FoldConsume(o, w, r.consumed)
      o2 == FoldOps(o1, r.ops, r.now)
      o3 == FoldEmitted(o2, p, r.emitted)
      done == {r.ops[i].p : i \in {i \in 1..Len(r.ops) : r.ops[i].op = "select_complete"}}
      resumed == {r.consumed[i].id : i \in {i \in 1..Len(r.consumed) : r.consumed[i].t = "ResumeProcess"}}
      o4 == FoldSnap(o3, w, r.post.procs, done, resumed)
      hosted == {q \in Pids : o4.host[q] = w}
      o5a == HeapRules(o4, w, r.post.heap)
      \* C16 (space): a scripted process is parked in a select - and finishes normally - with an EMPTY operand stack: every script operation
      \* is a statement of its own, so whatever a completed select, a filter verdict or a call left behind would
      \* stay there for the rest of the process's life (one cell per iteration in a loop)
      parkedDirty == {r.post.procs[i].p : i \in {i \in 1..Len(r.post.procs) :
                         (r.post.procs[i].p \in ToSet(r.post.selecting) \/
                          (r.post.procs[i].result # <<>> /\ r.post.procs[i].result[1].ok /\ ~r.post.procs[i].persistent)) /\
                         r.post.procs[i].stack # 0}}
      o5 == IF o.meta.entry = 0 THEN o5a
            ELSE Chk(o5a, parkedDirty = {}, "C16", "ParkedStackEmpty",
                     {<<r.post.procs[i].p, r.post.procs[i].stack>> : i \in {i \in 1..Len(r.post.procs) : r.post.procs[i].p \in parkedDirty}})
  IN [o5 EXCEPT !.selecting = (@ \ hosted) \cup ToSet(r.post.selecting),
                !.spawning = (@ \ hosted) \cup ToSet(r.post.spawning),
                !.now = r.now]

(* ---------------- environment records ---------------- *)
SomeKeys(rs) == {rs[i][1] : i \in {i \in 1..Len(rs) : rs[i][2] # None}}
CmdsOf(r, t) == SelectSeq(r.cmds, LAMBDA c : c.c.t = t)

(* ---------------- C14: ownership, judged on the backend's call log ---------------- *)
RECURSIVE OwnTransfer(_, _, _)
OwnTransfer(ow, rs, to) == IF rs = {} THEN ow
                           ELSE LET x == CHOOSE x \in rs : TRUE IN OwnTransfer(APut(ow, x, to), rs \ {x}, to)
ResInAll(vs) == UNION {ResIn(vs[i]) : i \in 1..Len(vs)}
Count(seq, x) == Cardinality({i \in 1..Len(seq) : seq[i] = x})

\* a resource that has been closed (explicitly or at its owner's exit) has no owner any more
Gone(o, x) == x \in o.explicit \/ Count(o.autoClosed, x) > 0

BackendCall(o, b) ==
  IF b.call = "execute"
  THEN LET o1 == IF b.res = <<>> THEN o
                 ELSE Chk(o, ~AHas(o.own, b.res[1]) \/ AGet(o.own, b.res[1]) = b.p \/ Gone(o, b.res[1]),
                          "C14", "UseOnlyByOwner", <<"process", b.p, "operated on resource", b.res[1], "owned by", o.own>>)
       IN IF b.op = "open" /\ b.ok /\ b.created # <<>>
          THEN [o1 EXCEPT !.own = APut(@, b.created[1], b.p), !.opened = @ \cup {b.created[1]}]
          ELSE IF b.op = "close" /\ b.ok /\ b.res # <<>> THEN [o1 EXCEPT !.explicit = @ \cup {b.res[1]}]
          ELSE o1
  ELSE LET o1 == Chk(o, ~AHas(o.own, b.res) \/ b.res \in o.explicit \/ o.res[AGet(o.own, b.res)] # None,
                     "C14", "NoCloseWhileOwnerAlive", <<"resource", b.res, "closed while owner is running", o.own>>)
       IN IF b.was_open THEN [o1 EXCEPT !.autoClosed = Append(@, b.res)] ELSE o1

RECURSIVE FoldBackend(_, _)
FoldBackend(o, bs) == IF bs = <<>> THEN o ELSE FoldBackend(BackendCall(o, Head(bs)), Tail(bs))

Ownership(o, r) ==
  LET e == IF r.consumed = <<>> THEN [t |-> "none"] ELSE r.consumed[1].e
      sp == SelectSeq(r.cmds, LAMBDA c : c.c.t = "SpawnProcess")
      o1 == CASE e.t = "SpawnAction" /\ sp # <<>> ->
                   [o EXCEPT !.own = OwnTransfer(@, ResIn(e.arg) \cup ResInAll(e.caps), sp[1].c.id)]
              [] e.t = "DeliverAction" -> [o EXCEPT !.own = OwnTransfer(@, ResIn(e.m), e.to),
                                                     \* handles that reach a process whose completion the environment
                                                     \* already knows (its clean-up has run): see toDead below
                                                     !.toDead = IF e.to \in o.reportedDone THEN @ \cup ResIn(e.m) ELSE @]
              [] e.t = "EffectRequest" /\ e.res # <<>> /\ AHas(o.own, e.res[1]) /\ AGet(o.own, e.res[1]) # e.p
                   /\ ~Gone(o, e.res[1]) ->
                   Chk(o, r.backend = <<>> /\ \E i \in 1..Len(r.cmds) :
                             r.cmds[i].c.t = "EffectCompletion" /\ r.cmds[i].c.p = e.p /\ ~r.cmds[i].c.ok,
                       "C14", "NeverReachesBackend",
                       <<"process", e.p, "is not the owner of", e.res[1], "backend", r.backend, "answer", r.cmds>>)
              \* the rightful owner of an open resource is never refused: its operation reaches the backend
              [] e.t = "EffectRequest" /\ e.res # <<>> /\ AHas(o.own, e.res[1]) /\ AGet(o.own, e.res[1]) = e.p
                   /\ ~Gone(o, e.res[1]) ->
                   Chk(o, r.backend # <<>>, "C14", "OwnerCanUse",
                       <<"process", e.p, "owns resource", e.res[1], "but was answered", r.cmds>>)
              [] OTHER -> o
  IN FoldBackend(o1, r.backend)

EnvRecord(oo, r) ==
  LET o == Ownership(oo, r)
      o0 == IF Has(r, "crash") THEN V(o, "C15", "NoWorkerCrash", r.crash) ELSE o IN
  IF r.consumed = <<>> THEN o0
  ELSE
  LET e == r.consumed[1].e
      pend == {r.post.pending[i][1] : i \in 1..Len(r.post.pending)}
  IN
  CASE e.t = "SpawnAction" ->
         LET sp == CmdsOf(r, "SpawnProcess")
             ns == CmdsOf(r, "NotifySpawn")
         IN IF Len(sp) # 1 \/ Len(ns) # 1 \/ ns[1].c.p # e.c \/ ns[1].c.pid # sp[1].c.id
            THEN V(o0, "C04", "SpawnerGetsPid", <<"spawn of", e.c, "answered by", r.cmds>>)
            ELSE LET id == sp[1].c.id
                     op == OpAt(o0, e.c)
                 IN IF op.op # "spawn" \/ id \notin Pids THEN o0
                    ELSE [o0 EXCEPT !.script[id] = op.script, !.pc[id] = 1,
                                    !.path[id] = Append(o0.path[e.c], PcAt(o0, e.c))]
    [] e.t = "DeliverAction" ->
         LET dm == CmdsOf(r, "DeliverMessage") IN
         Chk(o0, Len(dm) = 1 /\ dm[1].c.to = e.to /\ dm[1].c.m = e.m,
             "C04", "ExactlyOnce", <<"delivery of", e.m, "to", e.to, "became", r.cmds>>)
    [] e.t = "AwaitAction" ->
         [o0 EXCEPT !.pendingA = pend, !.envGot[e.a] = {}]
    [] e.t = "ProcessResults" ->
         LET up == CmdsOf(r, "UpdateAwaitResults")
             got == IF e.a \in o0.pendingA THEN o0.envGot[e.a] \cup SomeKeys(e.rs) ELSE SomeKeys(e.rs)
             o1 == IF up = <<>> THEN o0
                   ELSE Chk(o0, \A t \in got : AHas(up[1].c.rs, t) /\ AGet(up[1].c.rs, t) # None,
                            "C05", "AwaitResultNotDropped",
                            <<"awaiter", e.a, "received", got, "forwarded", up[1].c.rs>>)
         IN [o1 EXCEPT !.pendingA = pend,
                       !.envGot[e.a] = IF e.a \in pend THEN got ELSE {},
                       !.reportedDone = @ \cup SomeKeys(e.rs)]
    [] OTHER -> o0

(* ---------------- end of a run ---------------- *)
InternalErrors == {"StackUnderflow", "TypeMismatch", "FrameUnderflow", "CallInvalid",
                   "VariableUndefined", "FunctionUndefined", "FieldAccessInvalid",
                   "ConstantUndefined", "BuiltinUndefined", "ArityMismatch"}

Known(o) == {p \in Pids : o.script[p] # 0 /\ o.host[p] >= 0}
DoneP(o, p) == o.res[p] # None
FailedP(o, p) == o.res[p] # None /\ ~o.res[p][1].ok

\* at quiescence the clock has passed every started deadline, so a select that still lists a timeout
\* never started its timer and never will: a lost wake-up
ReadyQ(o, p, src) ==
  IF src.k = "await" THEN src.t \in Pids /\ DoneP(o, src.t)
  ELSE IF src.k = "timeout" THEN Fires(src)
  ELSE SrcReady([mailbox |-> o.mbox[p], awaiting |-> o.known[p], sel |-> o.sel[p]], src, o.now)

FromP(o, q, p) == SelectSeq(o.arrived[q], LAMBDA m : \E i \in 1..Len(o.sent[p][q]) : o.sent[p][q][i] = m)
NoDup(s) == \A i, j \in 1..Len(s) : s[i] = s[j] => i = j

OwnFailure(o, p) ==
  LET op == OpAt(o, p) IN
  \/ op.op = "fail" /\ o.res[p][1].e = op.e
  \/ op.op \in {"open", "use", "close"}          \* an effect of its own failed (I/O error, ownership violation)
  \/ o.died[p] # None /\ o.died[p] # <<>> /\ o.died[p][1].receiving # <<>>     \* died inside a filter body

DiedAwaiting(o, p) ==
  IF o.died[p] = None \/ o.died[p] = <<>> THEN {}
  ELSE {o.died[p][1].srcs[i].t : i \in {i \in 1..Len(o.died[p][1].srcs) : o.died[p][1].srcs[i].k = "await"}}

RECURSIVE Canon(_, _)
Canon(o, v) == CASE v.k = "pid" -> [k |-> "pid", path |-> IF v.p \in Pids THEN o.path[v.p] ELSE <<-1>>]
                 [] v.k = "tup" -> [v EXCEPT !.fs = [i \in 1..Len(v.fs) |-> Canon(o, v.fs[i])]]
                 [] v.k = "ref" -> [k |-> "ref"]
                 [] OTHER -> v
CanonR(o, r) == IF r = None THEN None ELSE IF r[1].ok THEN Some(OkR(Canon(o, r[1].v))) ELSE r
CanonResults(o) == {<<o.path[p], CanonR(o, o.res[p])>> : p \in Known(o)}

RECURSIVE RefsOf(_)
RefsOf(v) == CASE v.k = "ref" -> <<v>>
               [] v.k = "tup" -> FlattenSeq([i \in 1..Len(v.fs) |-> RefsOf(v.fs[i])])
               [] OTHER -> <<>>

\* always-properties, judged at the end of every run whether or not it is quiescent
Always(o) ==
  LET ps == Known(o)
      o1 == Chk(o, \A q \in ps : NoDup(o.arrived[q]) /\
                     \A i \in 1..Len(o.arrived[q]) : \E p \in ps : \E j \in 1..Len(o.sent[p][q]) :
                        o.sent[p][q][j] = o.arrived[q][i],
                "C04", "ExactlyOnce", "a message arrived twice or was never sent")
      o2 == Chk(o1, \A q \in ps : \A p \in ps : IsPrefix(FromP(o, q, p), o.sent[p][q]),
                "C04", "SenderFIFO", {<<p, q, o.sent[p][q], FromP(o, q, p)>> : p, q \in ps})
      o3 == Chk(o2, \A p \in ps : FailedP(o, p) => o.res[p][1].e \notin InternalErrors,
                "C15", "NoInternalError", {<<p, o.res[p]>> : p \in {p \in ps : FailedP(o, p)}})
      o4 == Chk(o3, \A p \in ps : FailedP(o, p) =>
                       \/ OwnFailure(o, p)
                       \/ \E t \in DiedAwaiting(o, p) : t \in Pids /\ o.res[t] = o.res[p],
                "C15", "FailureContained",
                {<<p, o.res[p]>> : p \in {p \in ps : FailedP(o, p) /\ ~OwnFailure(o, p)}})
      leaves == SetToSeq({p \in ps \ {0} : o.res[p] # None /\ o.res[p][1].ok})
      minted == FlattenSeq([i \in 1..Len(leaves) |-> RefsOf(o.res[leaves[i]][1].v)])
      o4b == Chk(o4, NoDup(minted), "C13", "RefsUnique", minted)
  IN o4b

AtQuiescence(o, r) ==
  LET ps == Known(o)
      o1 == Chk(o, \A p, q \in ps : Len(FromP(o, q, p)) = Len(o.sent[p][q]),
                "C04", "Settled", "a sent message never arrived")
      blocked == {p \in ps : ~DoneP(o, p)}
      o2 == Chk(o1, o.spawning \cap blocked = {}, "C04", "SpawnerGetsPid", o.spawning)
      lost == {p \in blocked \ o.spawning :
                 \/ o.sel[p] = None
                 \/ \E i \in 1..Len(o.sel[p][1].srcs) : ReadyQ(o, p, o.sel[p][1].srcs[i])}
      o3 == Chk(o2, lost = {}, "C04", "NoLostWakeup",
                {<<p, o.sel[p], o.mbox[p]>> : p \in lost})
      o4 == Chk(o3, \A p \in ps : (\E t \in DiedAwaiting(o, p) \cup
                                       (IF o.sel[p] = None THEN {} ELSE
                                        {o.sel[p][1].srcs[i].t : i \in {i \in 1..Len(o.sel[p][1].srcs) :
                                                                       o.sel[p][1].srcs[i].k = "await"}}) :
                                       t \in Pids /\ FailedP(o, t) /\ ~DoneP(o, p)) => FALSE,
                "C15", "AwaitersFail", "a process awaiting a failed process is still blocked")
      o5 == IF o.meta.terminates
            THEN Chk(o4, blocked = {} /\ r.outcome.t # "none", "C03", "NoHang", <<blocked, r.outcome>>)
            ELSE o4
      leaked == {x \in o.opened : x \notin o.explicit /\ AHas(o.own, x) /\ AGet(o.own, x) \in Pids /\
                                   DoneP(o, AGet(o.own, x)) /\ Count(o.autoClosed, x) # 1}
      \* the pinned finding (known_findings.json, res_owner_unawaited): the environment closes a terminated
      \* process's resources only when its completion is REPORTED to it, which happens only for processes some
      \* awaiter asked about; a leak whose owner's completion never reached the environment is that finding, any
      \* other leak is not
      neverReported == {x \in leaked : AGet(o.own, x) \notin o.reportedDone /\ Count(o.autoClosed, x) = 0}
      o5a == Chk(o5, neverReported = {}, "C14", "ClosedAtExitNeverReported",
                 <<"resources never closed: the owner's completion was never reported to the environment", neverReported, o.own>>)
      \* second pinned finding (res_delivered_to_finished): a handle delivered to a process AFTER the environment
      \* cleaned up behind it becomes the property of a dead process and is never closed
      lateOwned == {x \in leaked \ neverReported : x \in o.toDead /\ Count(o.autoClosed, x) = 0}
      o5a2 == Chk(o5a, lateOwned = {}, "C14", "ClosedAtExitDeliveredToFinished",
                  <<"resources never closed: delivered to a process whose clean-up had already run", lateOwned, o.own>>)
      o5b == Chk(o5a2, (leaked \ neverReported) \ lateOwned = {}, "C14", "ClosedExactlyOnceAtExit",
                 <<"resources whose owner has terminated but that were not closed exactly once",
                   (leaked \ neverReported) \ lateOwned, o.own, o.autoClosed>>)
      o5c == Chk(o5b, \A x \in o.opened : Count(o.autoClosed, x) <= 1, "C14", "ClosedExactlyOnceAtExit", o.autoClosed)
      canon == CanonResults(o)
      o6 == IF ~o.meta.confluent THEN o5c
            ELSE IF o.expect # None /\ o.expect[1][1] = o.meta.scenario
                 THEN Chk(o5c, canon = o.expect[1][2], "C03", "Confluent", <<canon, o.expect[1][2]>>)
                 ELSE [o5c EXCEPT !.expect = Some(<<o.meta.scenario, canon>>)]
  IN o6

EndRecord(o, r) ==
  LET o0 == IF Has(o.meta, "expected_outcome")
            THEN Chk(o, r.outcome.t = "value" /\ r.outcome.v = o.meta.expected_outcome,
                     "C06", "ContentPreserved", <<r.outcome, o.meta.expected_outcome>>)
            ELSE o
      exp == IF Has(o.meta, "expected_results")
             THEN {<<o.meta.expected_results[n][1], o.meta.expected_results[n][2]>> : n \in 1..Len(o.meta.expected_results)}
             ELSE {}
      o0b == IF Has(o.meta, "expected_results") /\ r.quiescent
             THEN Chk(o0, CanonResults(o0) = exp, "C06", "ContentPreserved",
                      <<"per-process results", CanonResults(o0), "the model assigns", exp>>)
             ELSE o0
      o1 == Always(o0b) IN
  IF r.quiescent THEN AtQuiescence(o1, r)
  ELSE IF o.meta.terminates THEN V(o1, "C03", "NoHang", "step budget exhausted before quiescence")
  ELSE o1

(* ---------------- the observer ---------------- *)
Step(o, r) ==
  CASE r.k = "init"   -> Fresh(r.meta, r.id, o.expect)
    [] r.k = "worker" -> WorkerRecord(o, r)
    [] r.k = "env"    -> EnvRecord(o, r)
    [] r.k = "tick"   -> [o EXCEPT !.now = r.now]
    [] r.k = "end"    -> EndRecord(o, r)
    \* the host submitted the next line of a scripted session: the persistent process runs that line's script
    [] r.k = "line" /\ Has(r, "entry") -> [o EXCEPT !.script[0] = r.entry, !.pc[0] = 1]
    [] OTHER -> o

RECURSIVE PrintAll(_)
PrintAll(vs) ==
  IF vs = <<>> THEN TRUE
  ELSE /\ PrintT("VIOL|" \o Head(vs)[1] \o "|" \o ToString(Head(vs)[2]) \o "|" \o Head(vs)[3] \o "|" \o
                 Head(vs)[4] \o "|" \o Head(vs)[5])
       /\ PrintAll(Tail(vs))

ObsInit == l = 1 /\ O = Fresh([entry |-> 0, scenario |-> "", confluent |-> FALSE, terminates |-> FALSE], "", None)
ObsNext ==
  /\ l <= Len(Rec)
  /\ l' = l + 1
  /\ LET o2 == Step(O, R) IN
     /\ PrintAll(SubSeq(o2.viol, Len(O.viol) + 1, Len(o2.viol)))
     /\ O' = IF R.k = "end" THEN [o2 EXCEPT !.viol = <<>>] ELSE o2
ObsSpec == ObsInit /\ [][ObsNext]_ovars

ObsDone == IF TLCGet("stats").diameter = Len(Rec) + 1 THEN TRUE
           ELSE PrintT(<<"INCOMPLETE", TLCGet("stats").diameter, Len(Rec)>>) /\ FALSE
=============================================================================
