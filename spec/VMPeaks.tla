------------------------------ MODULE VMPeaks ------------------------------
(***************************************************************************)
(* C16, dynamic part: a tail-recursive program run on the REAL VM for N    *)
(* and for 50 N iterations (harness/src/bin/vmtrace.rs, one instruction    *)
(* per step) must reach the same peak number of call frames, of locals and *)
(* of operand-stack cells, and its binary heap must stay within the same   *)
(* small number of slots -- space does not grow with the iteration count.  *)
(*                                                                         *)
(* Input: ndjson file named by VMPEAKS_IN, one record per program shape:   *)
(*   [id, small, large : [n, end, steps, frames, locals, stack, slots]]    *)
(* One state per record; the invariants are the property.                  *)
(***************************************************************************)
EXTENDS Integers, Sequences, TLC, Json, IOUtils

CONSTANT SlotBound      \* "a small constant": no shape keeps more binaries alive than this

VARIABLE st             \* [ph : "root" | "rec", k : record index]

Recs == ndJsonDeserialize(IOEnv.VMPEAKS_IN)

Init == st = [ph |-> "root", k |-> 0]
Next == st.ph = "root" /\ \E k \in 1..Len(Recs) : st' = [ph |-> "rec", k |-> k]
Spec == Init /\ [][Next]_st

R == Recs[st.k]

Say(rule) == PrintT(<<"VIOL", ToJson([id |-> R.id, rule |-> rule, small |-> R.small, large |-> R.large])>>)

\* both runs finished with a value, and the large one really iterated (not vacuous)
Completes ==
  st.ph = "rec" =>
    \/ /\ R.small.end = "value" /\ R.large.end = "value"
       /\ R.large.steps > 10 * R.small.steps
    \/ Say("incomplete") /\ FALSE

FramesConstant ==
  st.ph = "rec" => (R.small.frames = R.large.frames \/ (Say("frames_grow") /\ FALSE))

LocalsConstant ==
  st.ph = "rec" => (R.small.locals = R.large.locals \/ (Say("locals_grow") /\ FALSE))

StackConstant ==
  st.ph = "rec" => (R.small.stack = R.large.stack \/ (Say("stack_grows") /\ FALSE))

\* dropped binaries are reclaimed: the heap never needs more slots for 50 N than for N
HeapBounded ==
  st.ph = "rec" =>
    \/ R.large.slots <= R.small.slots /\ R.small.slots <= SlotBound
    \/ Say("heap_grows") /\ FALSE
=============================================================================
