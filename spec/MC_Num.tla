------------------------------- MODULE MC_Num -------------------------------
(***************************************************************************)
(* Case generation for C20.  TLC enumerates every (operation, operands)    *)
(* case over the operand universes of Num.tla - ONE STATE PER CASE - and   *)
(* prints one line  <<"CASE", json>>  per case with the operation, the     *)
(* operands, the specified result and a boundary flag.  The cases are run  *)
(* against std/num.qv by engines/num_engine.py and judged by NumTrace.tla. *)
(*                                                                         *)
(* State graph (three levels so that TLC's workers share the work):        *)
(*   root  ->  one "row" per (operation, first operand)  ->  one state per *)
(*   case of the row (a leaf; CHECK_DEADLOCK is off).                      *)
(*                                                                         *)
(* Sizes (measured 2026-09-26, 12 workers): |Universe| = 162 (25 ints,     *)
(* 68 rationals n/d with 2 <= d <= 6, 6 rationals n/1, 62 surds over the   *)
(* radicands 2,3,5,6, nil), |SmallU| = 51, |TinyU| = 14.                   *)
(*   unary   11 ops x 162                          =   1 782               *)
(*   arith   add sub mul div compare x 162^2       = 131 220               *)
(*   order   min max eq? lt? le? gt? ge? x 51^2    =  18 207               *)
(*   clamp   14^3 minus the empty ranges lo > hi   =   1 736               *)
(*   huge    4 unary laws x 162 x 4 M              =   2 592               *)
(*           3 binary laws x 14^2 x 4 M            =   2 352               *)
(*   total 157 889 cases (20 803 of them boundary); 159 128 distinct       *)
(*   states (root + 1 238 rows + cases), depth 3, 9-12 s.                  *)
(* All magnitudes stay far below 2^31 (|n| <= 12, d <= 6, see Num.tla).    *)
(* Every leaf also checks the specification's own sanity: the specified    *)
(* result is in canonical form, absence propagates, kind rules hold.       *)
(*                                                                         *)
(* Environment (optional): NUM_SKIP_UNARY / _ARITH / _ORDER / _CLAMP /     *)
(* _HUGE, when set, leave that group out (used for debugging only).        *)
(***************************************************************************)
EXTENDS Num, Json, IOUtils

VARIABLE st

SkipVar == [unary |-> "NUM_SKIP_UNARY", arith |-> "NUM_SKIP_ARITH", order |-> "NUM_SKIP_ORDER",
            clamp |-> "NUM_SKIP_CLAMP", huge |-> "NUM_SKIP_HUGE"]
On(g) == SkipVar[g] \notin DOMAIN IOEnv

(* the four huge literals; the engine maps id -> literal text (2^70, -(3^50), *)
(* (10^30+1)/7, -(2^80+1)/3) and asserts kind and sign                       *)
Hs == {Huge(1, "int", 1), Huge(2, "int", -1), Huge(3, "rat", 1), Huge(4, "rat", -1)}

Root == [lvl |-> 0]
Row(op, pre) == [lvl |-> 1, op |-> op, pre |-> pre]
Leaf(op, args) == [lvl |-> 2, op |-> op, args |-> args]

Rows ==
  (IF On("unary") THEN {Row(op, <<>>) : op \in UnaryOps} ELSE {})
  \cup (IF On("arith") THEN {Row(op, <<x>>) : op \in ArithOps, x \in Universe} ELSE {})
  \cup (IF On("order") THEN {Row(op, <<x>>) : op \in OrderOps, x \in SmallU} ELSE {})
  \cup (IF On("clamp") THEN {Row("clamp", <<x>>) : x \in TinyU} ELSE {})
  \cup (IF On("huge") THEN {Row(op, <<>>) : op \in HugeUnary} ELSE {})
  \cup (IF On("huge") THEN {Row(op, <<x>>) : op \in HugeBinary, x \in TinyU} ELSE {})

Suffixes(r) ==
  CASE r.op \in UnaryOps   -> {<<x>> : x \in Universe}
    [] r.op \in ArithOps   -> {<<y>> : y \in Universe}
    [] r.op \in OrderOps   -> {<<y>> : y \in SmallU}
    [] r.op = "clamp"      -> {<<lo, hi>> : lo \in TinyU, hi \in TinyU}
    [] r.op \in HugeUnary  -> {<<x, h>> : x \in Universe, h \in Hs}
    [] r.op \in HugeBinary -> {<<y, h>> : y \in TinyU, h \in Hs}

Admissible(op, a) == op = "clamp" => ClampDefined(a[1], a[2], a[3])

Init == st = Root
Next == \/ st.lvl = 0 /\ st' \in Rows
        \/ st.lvl = 1 /\ \E s \in {t \in Suffixes(st) : Admissible(st.op, st.pre \o t)} :
                            st' = Leaf(st.op, st.pre \o s)
MCSpec == Init /\ [][Next]_st

----------------------------------------------------------------------------
(* boundary class: zero, +-1 (both kinds), nil, equal operands, mixed       *)
(* radicals of the representative surds; all unary cases                   *)
NumArgs(a) == {i \in 1..Len(a) : a[i].k # "huge"}
SameV(x, y) == x.k = y.k /\ Same(x, y)
InSet(x, T) == \E t \in T : SameV(x, t)
Boundary(op, a) ==
  \/ Len(a) = 1
  \/ \E i \in NumArgs(a) : InSet(a[i], Special)
  \/ \E i, j \in NumArgs(a) : i < j /\ SameV(a[i], a[j])
  \/ \E i, j \in NumArgs(a) : /\ i < j /\ InSet(a[i], SurdReps) /\ InSet(a[j], SurdReps)
                              /\ a[i].r # a[j].r

Emit == st.lvl = 2 =>
          PrintT(<<"CASE", ToJson([op |-> st.op, args |-> st.args,
                                   exp |-> Spec(st.op, st.args),
                                   b |-> IF Boundary(st.op, st.args) THEN 1 ELSE 0])>>)

(* sanity of the specification itself, on every case *)
ResultCanonical == st.lvl = 2 => Canonical(Spec(st.op, st.args))
AbsencePropagates ==
  st.lvl = 2 /\ st.op # "lit" /\ (\E i \in NumArgs(st.args) : IsNil(st.args[i]))
     => IsNil(Spec(st.op, st.args))
MixedRadicalsAbsent ==       \* N3 for the two-operand operations
  st.lvl = 2 /\ st.op \in (ArithOps \cup OrderOps) /\ IsNum(st.args[1]) /\ IsNum(st.args[2])
             /\ ~Compatible(st.args[1], st.args[2])
     => IsNil(Spec(st.op, st.args))
KindRules ==
  st.lvl = 2 /\ st.op \in {"add", "sub", "mul", "div"} =>
    LET x == st.args[1]  y == st.args[2]  v == Spec(st.op, st.args) IN
      /\ (IsInt(x) /\ IsInt(y) /\ st.op # "div" => IsInt(v))                 \* F2
      /\ ((IsInt(x) /\ IsRat(y)) \/ (IsRat(x) /\ IsInt(y)) \/ (IsRat(x) /\ IsRat(y))
            => IsRat(v) \/ (st.op = "div" /\ IsNil(v)))                       \* F2 (never lowered)
      /\ (IsInt(x) /\ IsInt(y) /\ st.op = "div" => IsRat(v) \/ (y.n = 0 /\ IsNil(v)))  \* F3
      /\ (IsNil(v) => IsNil(x) \/ IsNil(y) \/ ~Compatible(x, y) \/ st.op = "div")
IntegerResults ==
  st.lvl = 2 /\ st.op \in {"numer", "denom", "floor", "ceil", "round", "to_int", "sign", "compare"}
     => Spec(st.op, st.args).k \in {"int", "nil"}
UniverseCanonical == st.lvl = 0 => \A x \in Universe \cup SmallU \cup TinyU : Canonical(x)
=============================================================================
