----------------------------- MODULE ReplTrace -----------------------------
(* Judges recorded REPL sessions against the session machine of Repl.tla.
   IOEnv.REPL_TRACE names an ndjson file; one record per session:
     [id, lines: <<[src, repl: outcome, vars: <<<<name, type, value>>..>>,
                    prog: outcome of the one program made of the accepted lines up to here]..>>,
      probes: <<[name, repl: value, prog: outcome of `accepted lines, &name`]..>>]
   One TLC state per session; every failed rule is printed as  MISMATCH|id|line|rule|detail. *)
EXTENDS Integers, Sequences, FiniteSets, TLC, Json, IOUtils, SequencesExt

Rec == ndJsonDeserialize(IOEnv.REPL_TRACE)
VARIABLE i
Nil == [k |-> "nil"]

Rejected(o) == o.t = "rejected"
IsNilValue(o) == o.t = "value" /\ o.v = Nil
Names(vs) == {vs[n][1] : n \in 1..Len(vs)}

\* fold over the lines of one session: <<dead, previous vars, messages>>
RECURSIVE Judge(_, _, _, _, _)
Judge(r, n, dead, prev, msgs) ==
  IF n > Len(r.lines) THEN msgs
  ELSE
  LET ln == r.lines[n] IN
  IF ln.repl.t = "none" \/ ln.repl.t = "crash"
  THEN Append(msgs, <<n, "SessionAlive", "the session did not answer (worker crashed or hung)">>)
  ELSE IF Rejected(ln.repl)
  THEN \* a rejected line leaves the session exactly as it was
       Judge(r, n + 1, dead, prev,
             IF ln.vars = prev THEN msgs
             ELSE Append(msgs, <<n, "RejectedLineLeavesSession", ToString(<<prev, ln.vars>>)>>))
  ELSE
  LET m1 == IF dead \/ Rejected(ln.prog) THEN msgs
            ELSE IF ln.repl = ln.prog THEN msgs
            ELSE Append(msgs, <<n, "LineEqualsProgramStep", ToString(<<ln.repl, ln.prog>>)>>)
      \* every earlier binding is still in scope unless this line rebound it
      kept == \A v \in 1..Len(prev) :
                 \/ \E w \in 1..Len(ln.vars) : ln.vars[w] = prev[v]
                 \/ ln.rebinds # <<>> /\ \E q \in 1..Len(ln.rebinds) : ln.rebinds[q] = prev[v][1]
      m2 == IF dead \/ kept THEN m1 ELSE Append(m1, <<n, "EarlierBindingsKept", ToString(<<prev, ln.vars>>)>>)
  IN Judge(r, n + 1, dead \/ IsNilValue(ln.repl) \/ ln.repl.t = "error", ln.vars, m2)

Probes(r, msgs, dead) ==
  IF dead THEN msgs
  ELSE LET bad == {n \in 1..Len(r.probes) : r.probes[n].prog.t = "value" /\ r.probes[n].prog.v # r.probes[n].repl}
       IN IF bad = {} THEN msgs
          ELSE Append(msgs, <<0, "VariableEqualsProgramBinding", ToString({r.probes[n] : n \in bad})>>)

RECURSIVE PrintAll(_, _)
PrintAll(id, ms) ==
  IF ms = <<>> THEN TRUE
  ELSE /\ PrintT("MISMATCH|" \o id \o "|" \o ToString(Head(ms)[1]) \o "|" \o Head(ms)[2] \o "|" \o Head(ms)[3])
       /\ PrintAll(id, Tail(ms))

\* a rejected line leaves the session exactly as it was: every other line behaves as in the session without it
Invisible(r, msgs) ==
  LET bad == {n \in 1..Len(r.removals) : r.removals[n].here # r.removals[n].there} IN
  IF bad = {} THEN msgs
  ELSE LET n == CHOOSE x \in bad : TRUE IN
       Append(msgs, <<r.removals[n].k, "RejectedLineInvisible", ToString(<<r.removals[n].here, r.removals[n].there>>)>>)

JudgeRecord(r) ==
  LET ms == Judge(r, 1, FALSE, <<>>, <<>>) IN PrintAll(r.id, Invisible(r, Probes(r, ms, r.dead)))

Init == i = 1
Next == i <= Len(Rec) /\ JudgeRecord(Rec[i]) /\ i' = i + 1
Spec == Init /\ [][Next]_i
Done == IF TLCGet("stats").diameter = Len(Rec) + 1 THEN TRUE
        ELSE PrintT(<<"INCOMPLETE", TLCGet("stats").diameter, Len(Rec)>>) /\ FALSE
=============================================================================
