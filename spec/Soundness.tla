------------------------------ MODULE Soundness ------------------------------
(***************************************************************************)
(* C01: type soundness, judged on recorded runs of accepted programs.       *)
(*                                                                         *)
(* A record is a one-event trace  [id, outcome, rich, type]  where `type`   *)
(* is the result type the compiler inferred, exported as a graph (root,     *)
(* types table, tuples table: the shape of quiver_core::types) and `rich`   *)
(* the produced value with tuple names and labels.  The property:           *)
(*   NotStuck     the run does not end in a VM-level type failure            *)
(*   Inhabits     a produced value structurally inhabits the inferred type   *)
(* Inh(v, T) is the membership relation of the type semantics: ints/bins/    *)
(* refs by kind, a tuple type by name, labels and field-wise membership,     *)
(* a partial by its named fields, a union by some member; recursive back     *)
(* references (`cycle`) and type variables are not judged (TRUE), functions, *)
(* processes and resources by kind only.                                     *)
(***************************************************************************)
EXTENDS Integers, Sequences, FiniteSets, TLC, Json, IOUtils

Rec == ndJsonDeserialize(IOEnv.SOUND_TRACE)
VARIABLE i

Stuck == {"TypeMismatch", "FieldAccessInvalid", "CallInvalid", "ArityMismatch", "StackUnderflow",
          "VariableUndefined", "FunctionUndefined", "FrameUnderflow", "ConstantUndefined", "BuiltinUndefined"}

Has(pairs, id) == \E n \in 1..Len(pairs) : pairs[n][1] = id
Get(pairs, id) == pairs[CHOOSE n \in 1..Len(pairs) : pairs[n][1] = id][2]

IsNil(v) == v.k = "tup" /\ v.tn = <<>> /\ v.fs = <<>>

\* nl: nil-tolerant judgement (see InhabitsUpToNil below)
RECURSIVE Inh(_, _, _, _, _)
Inh(v, T, G, d, nl) ==
  IF d = 0 \/ (nl /\ IsNil(v)) THEN TRUE
  ELSE
  CASE T.k = "int" -> v.k = "int"
    [] T.k = "bin" -> v.k = "bin"
    [] T.k = "ref" -> v.k = "ref"
    [] T.k = "tuple" ->
         IF ~Has(G.tuples, T.id) THEN TRUE
         ELSE LET info == Get(G.tuples, T.id) IN
              /\ v.k = "tup"
              /\ v.tn = info.name
              /\ Len(v.fs) = Len(info.fs)
              /\ \A n \in 1..Len(info.fs) :
                    /\ v.ls[n] = info.fs[n][1]
                    /\ (Has(G.types, info.fs[n][2]) => Inh(v.fs[n], Get(G.types, info.fs[n][2]), G, d - 1, nl))
    [] T.k = "union" -> \E n \in 1..Len(T.ms) : Has(G.types, T.ms[n]) => Inh(v, Get(G.types, T.ms[n]), G, d - 1, nl)
    [] T.k = "partial" ->
         /\ v.k = "tup"
         /\ (T.name = <<>> \/ v.tn = T.name)
         /\ \A n \in 1..Len(T.fs) :
               \E m \in 1..Len(v.fs) :
                  /\ v.ls[m] = T.fs[n][1]
                  /\ (Has(G.types, T.fs[n][2]) => Inh(v.fs[m], Get(G.types, T.fs[n][2]), G, d - 1, nl))
    [] T.k = "fn" -> v.k = "fn"
    [] T.k = "process" -> v.k = "pid"
    [] T.k = "resource" -> v.k = "res"
    [] OTHER -> TRUE            \* cycle, var: not judged

Judge(r) ==
  LET m1 == IF r.outcome.t = "error" /\ r.outcome.e \in Stuck
            THEN PrintT("MISMATCH|" \o r.id \o "|NotStuck|" \o r.outcome.e) ELSE TRUE
      \* Records marked nilok come from the program families in which the pinned defect
      \* bound-variable-loses-nil (a variable bound to nil is typed without nil; known_findings.json)
      \* strikes in a large share of the programs: there a nil is accepted at any position
      \* (InhabitsUpToNil); every other disagreement between value and type is still reported.
      nl == "nilok" \in DOMAIN r /\ r.nilok
      m2 == IF r.outcome.t = "value" /\ r.rich # <<>> /\ ~Inh(r.rich[1], r.type.root, r.type, 12, nl)
            THEN PrintT("MISMATCH|" \o r.id \o "|" \o (IF nl THEN "InhabitsUpToNil" ELSE "Inhabits") \o "|"
                        \o ToString(<<r.rich[1], r.type_text>>)) ELSE TRUE
  IN m1 /\ m2

Init == i = 1
Next == i <= Len(Rec) /\ Judge(Rec[i]) /\ i' = i + 1
Spec == Init /\ [][Next]_i
Done == IF TLCGet("stats").diameter = Len(Rec) + 1 THEN TRUE
        ELSE PrintT(<<"INCOMPLETE", TLCGet("stats").diameter, Len(Rec)>>) /\ FALSE
=============================================================================
