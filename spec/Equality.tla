------------------------------ MODULE Equality ------------------------------
(***************************************************************************)
(* C13 (equality part): pinned matches, literal matches and repeated        *)
(* binders treat two values as equal exactly when they are structurally the *)
(* same value, however each was built.                                      *)
(*                                                                         *)
(* Abstract values are records with a kind field (the projection the        *)
(* harness prints): int n / bigint s / bin b / nil / tup name fs / fn f caps *)
(* / pid p / ref w c.  A tuple's `name` carries its name AND its field      *)
(* labels.  SEq is the property's definition of "structurally the same".    *)
(***************************************************************************)
EXTENDS Integers, Sequences, FiniteSets, TLC

RECURSIVE SEq(_, _)
SEq(a, b) ==
  IF a.k # b.k THEN FALSE
  ELSE CASE a.k = "int"    -> a.n = b.n
         [] a.k = "bigint" -> a.s = b.s
         [] a.k = "bin"    -> a.b = b.b                                   \* byte-equal
         [] a.k = "nil"    -> TRUE
         [] a.k = "tup"    -> /\ a.name = b.name                          \* same name and field labels
                              /\ Len(a.fs) = Len(b.fs)
                              /\ \A i \in 1..Len(a.fs) : SEq(a.fs[i], b.fs[i])
         [] a.k = "fn"     -> /\ a.f = b.f                                \* identity of definition
                              /\ Len(a.caps) = Len(b.caps)
                              /\ \A i \in 1..Len(a.caps) : SEq(a.caps[i], b.caps[i])
         [] a.k = "pid"    -> a.p = b.p
         [] a.k = "ref"    -> a.w = b.w /\ a.c = b.c
         [] OTHER          -> a = b

\* the laws, on a small universe (checked by MC_Equality)
I(n) == [k |-> "int", n |-> n]
B(s) == [k |-> "bin", b |-> s]
T(nm, fs) == [k |-> "tup", name |-> nm, fs |-> fs]
Atoms == {I(0), I(1), B(<<>>), B(<<1>>), [k |-> "nil"]}
U1 == Atoms \cup {T(nm, <<x>>) : nm \in {"", "A", "A(x)"}, x \in Atoms}
U == U1 \cup {T("", <<x, y>>) : x \in Atoms, y \in {I(0), B(<<1>>)}}
Reflexive == \A a \in U : SEq(a, a)
Symmetric == \A a, b \in U : SEq(a, b) = SEq(b, a)
Transitive == \A a, b, c \in U1 : (SEq(a, b) /\ SEq(b, c)) => SEq(a, c)
Identity == \A a, b \in U : SEq(a, b) <=> a = b
ASSUME Reflexive /\ Symmetric /\ Transitive /\ Identity
=============================================================================
