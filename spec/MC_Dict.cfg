SPECIFICATION MCSpec
CONSTANTS
  Keys <- MC_Keys
  Vals <- MC_Vals
  FromLists <- MC_FromLists
  MaxOps <- MC_MaxOps
  MaxLive <- MC_MaxLive
CONSTRAINT Canonical
CHECK_DEADLOCK FALSE
INVARIANTS
  TypeOK HistoryDeterminesVersions LastOpLaw ObservationsAgree EmitCase
PROPERTIES
  EarlierVersionsUnchanged
