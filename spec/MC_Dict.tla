------------------------------ MODULE MC_Dict ------------------------------
(***************************************************************************)
(* Case generation for C19: TLC enumerates every history of Dict.tla up to *)
(* the bound, checks the specification's own invariants on the way, and    *)
(* prints one line <<"CASE", json>> per COMPLETE history (Len = MaxOps;    *)
(* all shorter histories are prefixes of these and every version is        *)
(* observed at the end, so nothing is lost).  The printed histories are    *)
(* replayed against std/dict.qv by engines/dict_engine.py.                 *)
(*                                                                         *)
(* Reduction: abstract keys (and values) are interchangeable in Dict.tla,  *)
(* so only histories that are canonical under renaming are explored: key   *)
(* i+1 is first used after key i (likewise values).  The engine re-expands *)
(* the symmetry when it picks concrete keys for the abstract ones.         *)
(*                                                                         *)
(* Environment (all optional): DICT_MAXOPS, DICT_MAXLIVE, DICT_MERGE (0/1),*)
(* DICT_FROM (0/1), DICT_SAMPLE_MOD / DICT_SAMPLE_REM (print only the      *)
(* complete histories whose arithmetic fingerprint is REM modulo MOD; the  *)
(* exploration itself is always exhaustive).                               *)
(***************************************************************************)
EXTENDS Dict, TLC, Json, IOUtils

EnvInt(name, default) == IF name \in DOMAIN IOEnv THEN atoi(IOEnv[name]) ELSE default

MC_Keys    == 1..4
MC_Vals    == 1..2
MC_MaxOps  == EnvInt("DICT_MAXOPS", 5)
MC_MaxLive == EnvInt("DICT_MAXLIVE", 4)
UseMerge   == EnvInt("DICT_MERGE", 1) = 1
UseFrom    == EnvInt("DICT_FROM", 1) = 1
SampleMod  == EnvInt("DICT_SAMPLE_MOD", 1)
SampleRem  == EnvInt("DICT_SAMPLE_REM", 0)

MC_FromLists ==
  IF UseFrom THEN
  { <<>>,
    << <<1, 1>>, <<1, 2>> >>,                         \* later pair wins
    << <<1, 1>>, <<2, 2>>, <<1, 2>> >>,
    << <<2, 1>>, <<1, 2>>, <<3, 1>> >>,
    << <<1, 1>>, <<2, 2>>, <<3, 1>>, <<4, 2>> >>,
    << <<4, 2>>, <<3, 2>>, <<4, 1>> >> }
  ELSE {}

MCNext == \/ \E v \in Live, k \in Keys, x \in Vals : Put(v, k, x)
          \/ \E v \in Live, k \in Keys : Remove(v, k)
          \/ UseMerge /\ \E v \in Live, w \in Live : Merge(v, w)
          \/ \E ps \in FromLists : From(ps)
MCSpec == Init /\ [][MCNext]_vars

(* canonical form under renaming of keys / values *)
KeySeq(o) == CASE o.op \in {"put", "remove"} -> <<o.k>>
               [] o.op = "merge" -> <<>>
               [] o.op = "from"  -> [i \in 1..Len(o.ps) |-> o.ps[i][1]]
ValSeq(o) == CASE o.op = "put"  -> <<o.x>>
               [] o.op \in {"remove", "merge"} -> <<>>
               [] o.op = "from" -> [i \in 1..Len(o.ps) |-> o.ps[i][2]]
RECURSIVE Flat(_, _)
Flat(F(_), h) == IF h = <<>> THEN <<>> ELSE F(h[1]) \o Flat(F, Tail(h))
FirstUseOrdered(s) == \A i \in 1..Len(s) : s[i] = 1 \/ \E j \in 1..(i - 1) : s[j] >= s[i] - 1
Canonical == FirstUseOrdered(Flat(KeySeq, hist)) /\ FirstUseOrdered(Flat(ValSeq, hist))

(* arithmetic fingerprint of a history, for seeded sampling of what is printed *)
Code(o) == CASE o.op = "put"    -> 1 + 7 * o.v + 31 * o.k + 131 * o.x
             [] o.op = "remove" -> 2 + 11 * o.v + 37 * o.k
             [] o.op = "merge"  -> 3 + 13 * o.v + 41 * o.w
             [] o.op = "from"   -> 4 + 17 * Len(o.ps) + (IF o.ps = <<>> THEN 0 ELSE 43 * o.ps[1][1] + 5 * o.ps[Len(o.ps)][1])
RECURSIVE FpOn(_, _)
FpOn(a, h) == IF h = <<>> THEN a ELSE FpOn((a * 131 + Code(h[1])) % 1000003, Tail(h))
Fp(h) == FpOn(7, h)

Complete == Len(hist) = MaxOps /\ Canonical
EmitCase ==
  (Complete /\ Fp(hist) % SampleMod = SampleRem) => PrintT(<<"CASE", ToJson(hist)>>)
=============================================================================
