------------------------------ MODULE HeapInd ------------------------------
(***************************************************************************)
(* Unbounded-length safety of the heap accounting design of Heap.tla,       *)
(* discharged with Apalache as an INDUCTIVE invariant:                      *)
(*     Init => IndInv            (--init=Init    --inv=IndInv --length=0)   *)
(*     IndInv /\ Next => IndInv' (--init=IndInit --inv=IndInv --length=1)   *)
(*     IndInv => C06 clauses     (--init=IndInit --inv=Props  --length=0)   *)
(* TLC explores Heap.tla exhaustively but only to MaxOps operations and     *)
(* with bounded counters; here behaviours are of ANY length and reference   *)
(* counts are unbounded integers (the slot and root universes stay fixed:   *)
(* 4 slots, 3 rooted fields).                                               *)
(*                                                                         *)
(* Abstraction with respect to Heap.tla (each step of Heap.tla is a step    *)
(* of this module): the reuse pool `free` and the queue `pending_free` are  *)
(* SETS (Alloc may reuse any free slot, not only the last one; the queue's  *)
(* duplicates and order do not matter to process_pending_free, which        *)
(* re-checks the count of every entry); content stamps and the operation    *)
(* counter are dropped.  The strengthening that makes the accounting        *)
(* inductive is  rc[s] = sum over the rooted fields of their references to  *)
(* s, together with: a floating slot (count 0, not freed) is held by a      *)
(* transient handle or queued.                                              *)
(***************************************************************************)
EXTENDS Integers, FiniteSets

NSlots == 4
Slots == {0, 1, 2, 3}
Roots == {"stack", "mailbox", "result"}

VARIABLES
  \* @type: Int -> Int;
  rc,
  \* @type: Set(Int);
  freed,
  \* @type: Set(Int);
  free,
  \* @type: Set(Int);
  pending,
  \* @type: Int;
  used,
  \* @type: <<Str, Int>> -> Int;
  roots,
  \* @type: Int -> Int;
  hand,
  \* @type: Str;
  phase

vars == <<rc, freed, free, pending, used, roots, hand, phase>>

\* @type: (Int) => Int;
Refs(s) == roots[<<"stack", s>>] + roots[<<"mailbox", s>>] + roots[<<"result", s>>]
Reach == {s \in Slots : Refs(s) > 0}
Held(s) == hand[s] > 0

Init ==
  /\ rc = [s \in Slots |-> 0] /\ freed = {} /\ free = {} /\ pending = {} /\ used = 0
  /\ roots = [p \in Roots \X Slots |-> 0]
  /\ hand = [s \in Slots |-> 0]
  /\ phase = "slice"

Alloc ==
  /\ phase = "slice"
  /\ \/ \E s \in free :
          /\ free' = free \ {s} /\ freed' = freed \ {s}
          /\ rc' = [rc EXCEPT ![s] = 0]
          /\ hand' = [hand EXCEPT ![s] = @ + 1]
          /\ used' = used
     \/ /\ free = {} /\ used < NSlots
        /\ hand' = [hand EXCEPT ![used] = @ + 1]
        /\ used' = used + 1
        /\ UNCHANGED <<free, freed, rc>>
  /\ UNCHANGED <<pending, roots, phase>>

Retain(r, s) ==
  /\ phase = "slice"
  /\ s < used /\ (Held(s) \/ s \in Reach)
  /\ rc' = [rc EXCEPT ![s] = @ + 1]
  /\ roots' = [roots EXCEPT ![<<r, s>>] = @ + 1]
  /\ UNCHANGED <<freed, free, pending, used, hand, phase>>

Release(r, s) ==
  /\ phase = "slice"
  /\ roots[<<r, s>>] > 0
  /\ rc' = [rc EXCEPT ![s] = @ - 1]
  /\ roots' = [roots EXCEPT ![<<r, s>>] = @ - 1]
  /\ hand' = [hand EXCEPT ![s] = @ + 1]
  /\ pending' = IF rc[s] = 1 THEN pending \cup {s} ELSE pending
  /\ UNCHANGED <<freed, free, used, phase>>

Overwrite(r, old, new) ==
  /\ phase = "slice"
  /\ roots[<<r, old>>] > 0 /\ new < used /\ (Held(new) \/ new \in Reach) /\ old # new
  /\ roots' = [roots EXCEPT ![<<r, old>>] = @ - 1, ![<<r, new>>] = @ + 1]
  /\ rc' = [rc EXCEPT ![new] = @ + 1, ![old] = @ - 1]
  /\ pending' = IF rc[old] = 1 THEN pending \cup {old} ELSE pending
  /\ UNCHANGED <<freed, free, used, hand, phase>>

Drop(s) ==
  /\ phase = "slice"
  /\ Held(s)
  /\ (rc[s] > 0 \/ s \in pending \/ hand[s] > 1)
  /\ hand' = [hand EXCEPT ![s] = @ - 1]
  /\ UNCHANGED <<rc, freed, free, pending, used, roots, phase>>

EndSlice ==
  /\ phase = "slice" /\ \A s \in Slots : hand[s] = 0
  /\ phase' = "boundary"
  /\ UNCHANGED <<rc, freed, free, pending, used, roots, hand>>

StartSlice ==
  /\ phase = "boundary"
  /\ LET dead == {s \in pending : rc[s] = 0 /\ s \notin freed} IN
     /\ free' = free \cup dead /\ freed' = freed \cup dead
  /\ pending' = {}
  /\ phase' = "slice"
  /\ UNCHANGED <<rc, used, roots, hand>>

Next ==
  \/ Alloc
  \/ \E r \in Roots, s \in Slots : Retain(r, s) \/ Release(r, s)
  \/ \E r \in Roots, a \in Slots, b \in Slots : Overwrite(r, a, b)
  \/ \E s \in Slots : Drop(s)
  \/ EndSlice \/ StartSlice

(* ---------------- the inductive invariant ---------------- *)
TypeOK ==
  /\ rc \in [Slots -> Int] /\ hand \in [Slots -> Int]
  /\ roots \in [Roots \X Slots -> Int]
  /\ freed \in SUBSET Slots /\ free \in SUBSET Slots /\ pending \in SUBSET Slots
  /\ used \in 0..NSlots
  /\ phase \in {"slice", "boundary"}

IndInv ==
  /\ TypeOK
  /\ \A p \in Roots \X Slots : roots[p] >= 0
  /\ \A s \in Slots :
       /\ hand[s] >= 0
       /\ rc[s] = Refs(s)                                   \* the count IS the number of rooted references
       /\ (s \in freed) => (rc[s] = 0 /\ hand[s] = 0 /\ s < used /\ s \notin pending)
       /\ (s >= used) => (rc[s] = 0 /\ hand[s] = 0 /\ s \notin freed /\ s \notin pending)
       \* a floating slot is held by a transient handle or queued for reclamation
       /\ (s < used /\ s \notin freed /\ rc[s] = 0) => (hand[s] > 0 \/ s \in pending)
  /\ freed = free
  /\ (phase = "boundary") => \A s \in Slots : hand[s] = 0

IndInit == TypeOK /\ IndInv

(* ---------------- C06's accounting clauses (as in Heap.tla) ---------------- *)
Counted == phase = "boundary" => \A s \in Slots : (rc[s] > 0) <=> (s \in Reach)
NoUseAfterFree == \A s \in Slots : s \in freed => (s \notin Reach /\ ~Held(s))
NoOrphan == phase = "boundary" => \A s \in Slots : (s < used /\ s \notin freed /\ rc[s] = 0) => s \in pending
NoUnderflow == \A s \in Slots : rc[s] >= 0
Props == Counted /\ NoUseAfterFree /\ NoOrphan /\ NoUnderflow
=============================================================================
