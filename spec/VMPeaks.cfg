SPECIFICATION Spec
CONSTANTS
  SlotBound = 8
CHECK_DEADLOCK FALSE
INVARIANTS
  Completes
  FramesConstant
  LocalsConstant
  StackConstant
  HeapBounded
