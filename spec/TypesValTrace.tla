---------------------------- MODULE TypesValTrace ---------------------------
(***************************************************************************)
(* Conformance judge for C08.  One JSON object per line of the file named  *)
(* by TYPES_VTRACE:                                                        *)
(*   {"id", "g": graph, "t": pattern type root, "v": value (Types.tla      *)
(*    form), "runs": [{"cfg": "direct"|"shaken"|"merged1"|"merged2",       *)
(*                     "form": "type"|"as"|"tuple"|"partial"|"receive",    *)
(*                     "acc": "acc"|"rej"|"err"|"skip"}]}                  *)
(* "acc"/"rej": the rendered program `f = #(S | Zq) { | =<pattern> => Ok | *)
(* No }, <value> f` (or, form "receive", a process whose first select      *)
(* source is `#W['t]` and that is sent W[<value>]) evaluated to Ok / No in *)
(* that configuration; "err": it                                           *)
(* ended in a runtime error or crash; "skip": the compiler rejected the    *)
(* rendering (not judged).  TLC recomputes membership and requires         *)
(*   SAME  for each form, the verdict is identical in all configurations   *)
(*   ACC   accepted => v possibly inhabits T (not refuted structurally)    *)
(*   MEM   every value of the static type of the expression definitely     *)
(*         inhabits T => accepted (in every configuration and form)        *)
(* Cases in between are not judged.                                        *)
(***************************************************************************)
EXTENDS Types, Json, IOUtils

VARIABLE st

Recs == ndJsonDeserialize(IOEnv.TYPES_VTRACE)
N == Len(Recs)
D == 3
ChunkSize == 200
NChunks == (N + ChunkSize - 1) \div ChunkSize
MinI(a, b) == IF a < b THEN a ELSE b

Init == st = [lvl |-> 0, i |-> 0]
Next == \/ st.lvl = 0 /\ \E c \in 1..NChunks : st' = [lvl |-> 1, i |-> c]
        \/ st.lvl = 1 /\ \E i \in ((st.i - 1) * ChunkSize + 1)..MinI(st.i * ChunkSize, N) :
                            st' = [lvl |-> 2, i |-> i]
TraceSpec == Init /\ [][Next]_st

Bad(r) ==
  LET G == r.g
      U == TupleUniverse(G, {r.t})
      runs == {r.runs[x] : x \in {y \in DOMAIN r.runs : r.runs[y].acc # "skip"}}
      may == MayInhabit(G, U, r.v, r.t, D)
      sc  == StaticContained(G, U, r.v, r.t, D)
  IN  {[rule |-> "SAME", cfg |-> a.cfg, form |-> a.form, acc |-> a.acc] :
         a \in {x \in runs : \E y \in runs : y.form = x.form /\ y.acc # x.acc}}
      \cup
      {[rule |-> "ACC", cfg |-> a.cfg, form |-> a.form, acc |-> a.acc] :
         a \in {x \in runs : x.acc = "acc" /\ ~may}}
      \cup
      {[rule |-> "MEM", cfg |-> a.cfg, form |-> a.form, acc |-> a.acc] :
         a \in {x \in runs : x.acc # "acc" /\ sc}}

Conforms ==
  st.lvl = 2 =>
    LET r == Recs[st.i]
        bad == Bad(r)
    IN  /\ \A m \in bad : PrintT(<<"MISMATCH", ToJson([id |-> r.id] @@ m)>>)
        /\ bad = {}
=============================================================================
