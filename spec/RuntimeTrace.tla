---------------------------- MODULE RuntimeTrace ----------------------------
(***************************************************************************)
(* Trace validation (implementation -> specification) for the mechanism    *)
(* model.  IOEnv.TRACE names an ndjson file with the records written by     *)
(* the simulator (one per atomic step of the REAL Environment / Workers);   *)
(* IOEnv.SCRIPTS names the JSON file with the batch's script table.  Each   *)
(* record must be explained by the corresponding Runtime action with the    *)
(* logged parameters, AND the projection of the model's next state must    *)
(* equal the logged post-state.  Unlogged choices (slice length, hash       *)
(* orders, placement) are inferred by TLC.                                  *)
(***************************************************************************)
EXTENDS RuntimeProps, Json, IOUtils

Rec == ndJsonDeserialize(IOEnv.TRACE)
Batch == JsonDeserialize(IOEnv.SCRIPTS)
T_Scripts == Batch.scripts
T_Defects == {Batch.defects[i] : i \in 1..Len(Batch.defects)}
T_Lines == <<>>      \* sessions: the "line" records carry their entry scripts

VARIABLE l      \* next record to explain
tvars == <<vars, l>>

R == Rec[l]
Has(r, f) == f \in DOMAIN r

CmdMatch(c, j) ==
  /\ c.t = j.t
  /\ CASE c.t = "ResumeProcess" -> c.id = j.id
       [] c.t = "GetResult" -> c.p = j.p
       [] c.t = "SpawnProcess" -> c.id = j.id
       [] c.t = "NotifySpawn" -> c.p = j.p /\ c.pid = j.pid
       [] c.t = "DeliverMessage" -> c.to = j.to /\ c.m = j.m
       [] c.t = "QueryAndAwait" -> c.a = j.a /\ c.ts = j.ts
       [] c.t = "UpdateAwaitResults" -> c.a = j.a /\ c.rs = j.rs
       [] c.t = "EffectCompletion" -> c.p = j.p /\ c.ok = j.ok /\ (IF c.ok THEN c.v = j.v ELSE c.e = j.e)
       [] OTHER -> FALSE

EvtMatch(e, j) ==
  /\ e.t = j.t
  /\ CASE e.t = "SpawnAction" -> e.c = j.c
       [] e.t = "DeliverAction" -> e.to = j.to /\ e.m = j.m
       [] e.t = "AwaitAction" -> e.a = j.a /\ e.ts = j.ts
       [] e.t = "ProcessResults" -> e.a = j.a /\ e.rs = j.rs
       [] e.t = "ResultResponse" -> e.r = j.r
       [] e.t = "EffectRequest" -> e.p = j.p /\ e.res = j.res
       [] OTHER -> FALSE

SeqMatch(xs, js, M(_, _)) == Len(xs) = Len(js) /\ \A i \in 1..Len(xs) : M(xs[i], js[i])

SelMatch(ms, js) ==
  IF ms = None THEN js = <<>>
  ELSE /\ js # <<>>
       /\ LET m == ms[1]
              j == js[1]
          IN /\ Len(m.srcs) = Len(j.srcs)
             /\ \A i \in 1..Len(m.srcs) :
                   /\ m.srcs[i].k = j.srcs[i].k
                   /\ m.srcs[i].k = "await" => m.srcs[i].t = j.srcs[i].t
                   /\ m.srcs[i].k = "timeout" => m.srcs[i].d = j.srcs[i].d
             /\ m.cursors = j.cursors
             /\ m.start = j.start
             /\ IF m.receiving = None THEN j.receiving = <<>>
                ELSE /\ j.receiving # <<>>
                     /\ m.receiving[1][1] + 1 = j.receiving[1][1]
                     /\ m.receiving[1][2] = j.receiving[1][2]

\* the logged post-state of worker w, against the primed model state
PostW(w, post) ==
  /\ runq'[w] = post.runq
  /\ spawning'[w] = ToSet(post.spawning)
  /\ selecting'[w] = ToSet(post.selecting)
  /\ awaited'[w] = ToSet(post.awaited)
  /\ effecting'[w] = ToSet(post.effecting)
  /\ nextRef'[w] = post.nextref
  /\ awaitersFor'[w] = post.awaiters
  /\ \A i \in 1..Len(post.procs) :
        LET pr == post.procs[i]
            P == proc'[pr.p]
        IN /\ P.live
           /\ P.mailbox = pr.mailbox
           /\ P.result = pr.result
           /\ P.awaiting = pr.awaiting
           /\ SelMatch(P.sel, pr.sel)
  /\ \A p \in Pids : (proc'[p].live /\ p \in DOMAIN router' /\ router'[p] = w)
                        => \E i \in 1..Len(post.procs) : post.procs[i].p = p

NewSuffix(old, new) == SubSeq(new, Len(old) + 1, Len(new))

TraceReset ==
  /\ R.k = "init"
  /\ LET I == InitState(R.meta.entry) IN
     /\ cmdQ' = I.cmdQ /\ evtQ' = I.evtQ /\ runq' = I.runq /\ spawning' = I.spawning
     /\ selecting' = I.selecting /\ awaited' = I.awaited /\ awaitersFor' = I.awaitersFor
     /\ resultReq' = I.resultReq /\ proc' = I.proc /\ router' = I.router /\ nextPid' = I.nextPid
     /\ pending' = I.pending /\ now' = I.now /\ outcome' = I.outcome /\ obs' = I.obs
     /\ effecting' = I.effecting /\ nextRef' = I.nextRef /\ owner' = I.owner /\ backend' = I.backend

\* every script operation costs at least one instruction unit: the units a record reports bound the fuel
RECURSIVE UnitsFrom(_, _)
UnitsFrom(ops, i) == IF i > Len(ops) THEN 0
                     ELSE (IF ops[i].op = "units" THEN ops[i].n ELSE 0) + UnitsFrom(ops, i + 1)
UnitsOf(ops) == UnitsFrom(ops, 1)
Min2(a, b) == IF a < b THEN a ELSE b

IdleRecord(r) == r.consumed = <<>> /\ r.emitted = <<>> /\ r.ops = <<>>

TraceWorker ==
  /\ R.k = "worker" /\ ~Has(R, "crash")
  /\ LET w == R.w
         k == Len(R.consumed)
     IN /\ now = R.now
        /\ k <= Len(cmdQ[w])
        /\ SeqMatch(SubSeq(cmdQ[w], 1, k), R.consumed, CmdMatch)
        /\ IF IdleRecord(R) THEN UNCHANGED vars
           ELSE \E fuel \in 0..Min2(MaxFuel, UnitsOf(R.ops)) : WorkerStep(w, k, fuel)
        /\ SeqMatch(NewSuffix(evtQ[w], evtQ'[w]), R.emitted, EvtMatch)
        /\ PostW(w, R.post)

TraceEnv ==
  /\ R.k = "env" /\ ~Has(R, "crash")
  /\ IF R.consumed = <<>> /\ R.cmds = <<>> THEN UNCHANGED vars
     ELSE IF R.consumed = <<>>
     THEN \* only process_completions() had something to do
          /\ EnvCompletions
          /\ owner' = R.post.owner
          /\ \A x \in Workers :
                SeqMatch(NewSuffix(cmdQ[x], cmdQ'[x]), SelectSeq(R.cmds, LAMBDA c : c.w = x),
                         LAMBDA c, j : CmdMatch(c, j.c))
     ELSE LET w == R.consumed[1].w IN
          /\ Len(R.consumed) = 1
          /\ evtQ[w] # <<>>
          /\ EvtMatch(Head(evtQ[w]), R.consumed[1].e)
          /\ EnvHandle(w)
          /\ nextPid' = R.post.nextpid
          /\ DOMAIN router' = {R.post.router[i][1] : i \in 1..Len(R.post.router)}
          /\ \A i \in 1..Len(R.post.router) : router'[R.post.router[i][1]] = R.post.router[i][2]
          /\ \A x \in Workers :
                SeqMatch(NewSuffix(cmdQ[x], cmdQ'[x]),
                         SelectSeq(R.cmds, LAMBDA c : c.w = x),
                         LAMBDA c, j : CmdMatch(c, j.c))
          /\ owner' = R.post.owner
          /\ LET nb == NewSuffix(obs.backend, obs'.backend) IN
             /\ Len(nb) = Len(R.backend)
             /\ \A i \in 1..Len(nb) : \E j \in 1..Len(R.backend) :
                   /\ nb[i].call = R.backend[j].call
                   /\ IF nb[i].call = "close"
                      THEN nb[i].res = R.backend[j].res /\ nb[i].was_open = R.backend[j].was_open
                      ELSE nb[i].p = R.backend[j].p /\ nb[i].op = R.backend[j].op /\ nb[i].res = R.backend[j].res
                           /\ nb[i].created = R.backend[j].created /\ nb[i].ok = R.backend[j].ok
          /\ Len(pending') = Len(R.post.pending)
          /\ \A i \in 1..Len(pending') :
                /\ pending'[i][1] = R.post.pending[i][1]
                /\ pending'[i][2].expected = ToSet(R.post.pending[i][2])

\* the host submitted the next line of a session (the record carries the line's entry script)
TraceLine == R.k = "line" /\ SubmitLine(R.entry)

TraceTick == R.k = "tick" /\ TickAny(R.d) /\ now' = R.now

\* the end record: the model agrees on quiescence and on what the host was told
TraceEnd ==
  /\ R.k = "end"
  /\ R.quiescent <=> Quiescent
  /\ CASE R.outcome.t = "value" -> outcome = Some(OkR(R.outcome.v))
       [] R.outcome.t = "error" -> outcome = Some(ErrV(R.outcome.e))
       [] OTHER -> outcome = None
  /\ UNCHANGED vars

TraceInit == l = 2 /\ Rec[1].k = "init" /\
  LET I == InitState(Rec[1].meta.entry) IN
  /\ cmdQ = I.cmdQ /\ evtQ = I.evtQ /\ runq = I.runq /\ spawning = I.spawning
  /\ selecting = I.selecting /\ awaited = I.awaited /\ awaitersFor = I.awaitersFor
  /\ resultReq = I.resultReq /\ proc = I.proc /\ router = I.router /\ nextPid = I.nextPid
  /\ pending = I.pending /\ now = I.now /\ outcome = I.outcome /\ obs = I.obs
  /\ effecting = I.effecting /\ nextRef = I.nextRef /\ owner = I.owner /\ backend = I.backend

TraceNext ==
  /\ l <= Len(Rec)
  /\ l' = l + 1
  /\ (TraceReset \/ TraceWorker \/ TraceEnv \/ TraceTick \/ TraceLine \/ TraceEnd)

TraceSpec == TraceInit /\ [][TraceNext]_tvars

\* progress register: the furthest record explained (needs -workers 1)
Progress == IF l > TLCGet(1) THEN TLCSet(1, l) ELSE TRUE
ProgressInit == TLCSet(1, 0)
ASSUME ProgressInit

TraceAccepted ==
  IF TLCGet(1) = Len(Rec) + 1 THEN TRUE
  ELSE /\ PrintT(<<"REJECTED", TLCGet(1), Len(Rec)>>)
       /\ FALSE
=============================================================================
