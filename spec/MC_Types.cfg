SPECIFICATION Spec
CHECK_DEADLOCK FALSE
CONSTANTS
  MaxNodes = 3
  D = 3
  SampleMod = 1
  SampleRem = 0
INVARIANTS
  Emit
