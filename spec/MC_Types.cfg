SPECIFICATION Spec
CHECK_DEADLOCK FALSE
CONSTANTS
  MaxNodes = 3
  D = 3
INVARIANTS
  Emit
