---------------------------- MODULE RuntimeProps ----------------------------
(***************************************************************************)
(* The listed properties C03, C04, C05, C13 (refs), C14, C15 as invariants  *)
(* over the mechanism model.  Readiness of a select source is defined from  *)
(* the documented semantics (Runtime!SrcReady), not from the scan.          *)
(***************************************************************************)
EXTENDS Runtime

Live == {p \in Pids : proc[p].live}
Done(p) == proc[p].result # None
Failed(p) == Done(p) /\ ~proc[p].result[1].ok

\* a timeout that can still fire: its select has started waiting (the clock may be capped by MaxTick)
PendingTimeout(P) == /\ P.live /\ P.sel # None /\ P.result = None /\ P.sel[1].start # None
                     /\ \E i \in 1..Len(P.sel[1].srcs) : Fires(P.sel[1].srcs[i])

\* nothing is in flight, nothing is runnable, and no clock advance can change that
Quiescent ==
  /\ \A w \in Workers : cmdQ[w] = <<>> /\ evtQ[w] = <<>> /\ runq[w] = <<>>
  /\ backend.inflight = <<>>
  /\ \A p \in Pids : ~PendingTimeout(proc[p])
  /\ obs.line >= Len(Lines)              \* every line of the session has been submitted

(* ---------------- C04 ---------------- *)
NoDup(s) == \A i, j \in 1..Len(s) : s[i] = s[j] => i = j
FromP(q, p) == SelectSeq(obs.arrived[q], LAMBDA m : \E i \in 1..Len(obs.sent[p][q]) : obs.sent[p][q][i] = m)

\* scenario messages are pairwise distinct, so the sender of an arrival is recoverable
ExactlyOnce ==
  \A q \in Pids :
    /\ NoDup(obs.arrived[q])
    /\ \A i \in 1..Len(obs.arrived[q]) :
          \E p \in Pids : \E j \in 1..Len(obs.sent[p][q]) : obs.sent[p][q][j] = obs.arrived[q][i]
    /\ \A p \in Pids : IsPrefix(FromP(q, p), obs.sent[p][q])           \* SenderFIFO

Settled == Quiescent => \A p, q \in Pids : Len(FromP(q, p)) = Len(obs.sent[p][q])

\* at quiescence an await is judged against the global truth (nothing is in flight any more)
\* ... and a timeout whose select never started its timer would never fire: that is a lost wake-up too
ReadyQ(p, src) ==
  IF src.k = "await" THEN Done(src.t)
  ELSE IF src.k = "timeout" THEN Fires(src)
  ELSE SrcReady(proc[p], src, now)

NoLostWakeup ==
  Quiescent =>
    \A p \in Live : ~Done(p) =>
        /\ p \in selecting[router[p]]
        /\ proc[p].sel # None
        /\ \A i \in 1..Len(proc[p].sel[1].srcs) : ~ReadyQ(p, proc[p].sel[1].srcs[i])

SpawnerGetsPid == Quiescent => \A w \in Workers : spawning[w] = {}
SpawnExactlyOnce == NoDup(obs.spawns)

(* ---------------- C05 ---------------- *)
Accepts(src, m) == Compatible(m, src) /\ (src.filt => FilterAccepts(m, src))
FirstAccepted(mb, src) ==
  IF \E j \in 1..Len(mb) : Accepts(src, mb[j])
  THEN Min({j \in 1..Len(mb) : Accepts(src, mb[j])}) ELSE 0

SelectPriority == \A n \in 1..Len(obs.selects) : obs.selects[n].earlier = {}

EarliestAccepted ==
  \A n \in 1..Len(obs.selects) :
    LET e == obs.selects[n] IN
    e.src.k = "recv" =>
      LET j == FirstAccepted(e.mailbox, e.src) IN
      j > 0 /\ e.removed = j /\ e.v = e.mailbox[j]          \* the message itself, not the verdict

MailboxPreserved ==
  \A n \in 1..Len(obs.selects) : obs.selects[n].src.k # "recv" => obs.selects[n].removed = 0

TimeoutNotEarly ==
  \A n \in 1..Len(obs.selects) :
    LET e == obs.selects[n] IN
    e.src.k = "timeout" => e.v = Nil /\ e.now - e.first >= e.src.d

AwaitYieldsResult ==
  \A n \in 1..Len(obs.selects) :
    LET e == obs.selects[n] IN
    e.src.k = "await" => Done(e.src.t) /\ proc[e.src.t].result[1].ok /\ proc[e.src.t].result[1].v = e.v

\* the environment never loses a completion it has received for a pending await
AwaitResultNotDropped ==
  \A n \in 1..Len(obs.updates) :
    LET u == obs.updates[n] IN
    \A t \in u.got : AHas(u.rs, t) /\ AGet(u.rs, t) # None

(* ---------------- C13 (refs) ---------------- *)
RefsUnique == NoDup(obs.minted)

(* ---------------- C14 ---------------- *)
\* every resource the backend still holds open belongs to a process that has not finished
ClosedAtExit ==
  Quiescent => \A r \in backend.open : AHas(owner, r) /\ ~Done(AGet(owner, r))
\* the backend never executes an operation on a resource for anybody but its recorded owner,
\* and never closes a resource on behalf of a process that is still running
BackendCallsLegal ==
  \A n \in 1..Len(obs.backend) :
    LET b == obs.backend[n] IN
    b.call = "execute" /\ b.res # None => b.owner = None \/ b.owner = Some(b.p)
OwnerKnown == \A r \in AKeys(owner) : AGet(owner, r) < nextPid

(* ---------------- C15 ---------------- *)
InternalErrors == {"StackUnderflow", "TypeMismatch", "FrameUnderflow", "CallInvalid",
                   "VariableUndefined", "FunctionUndefined", "FieldAccessInvalid"}
NoInternalError == \A p \in Live : Failed(p) => proc[p].result[1].e \notin InternalErrors

OwnFailure(p) ==
  LET P == proc[p]
      ops == Scripts[P.script]
  IN \/ P.pc <= Len(ops) /\ ops[P.pc].op = "fail" /\ P.result[1].e = ops[P.pc].e
     \/ P.pc <= Len(ops) /\ ops[P.pc].op \in {"open", "use", "close"}
     \/ P.phase \in {"filter", "fwait"}         \* died inside a filter body (forbidden operation, failed effect)

OpenAwaitTargets(p) ==
  IF proc[p].sel = None THEN {}
  ELSE {proc[p].sel[1].srcs[i].t : i \in {i \in 1..Len(proc[p].sel[1].srcs) : proc[p].sel[1].srcs[i].k = "await"}}

FailureContained ==
  \A p \in Live : Failed(p) =>
     \/ OwnFailure(p)
     \/ \E t \in OpenAwaitTargets(p) : Failed(t) /\ proc[t].result = proc[p].result

\* every process that awaits a failed one fails (once the news can no longer be in flight)
AwaitersFail ==
  Quiescent => \A p \in Live : (\E t \in OpenAwaitTargets(p) : Failed(t)) => Failed(p)

ResultStable ==
  [][\A p \in Pids : (proc[p].live /\ proc[p].result # None /\ ~(p = 0 /\ proc'[p].script # proc[p].script))
                        => proc'[p].result = proc[p].result]_vars

(* ---------------- C03 ---------------- *)
RECURSIVE Canon(_)
Canon(v) == CASE v.k = "pid" -> [k |-> "pid", path |-> IF proc[v.p].live THEN proc[v.p].path ELSE <<-1>>]
              [] v.k = "tup" -> [v EXCEPT !.fs = [i \in 1..Len(v.fs) |-> Canon(v.fs[i])]]
              [] OTHER -> v
CanonR(r) == IF r = None THEN None ELSE IF r[1].ok THEN Some(OkR(Canon(r[1].v))) ELSE r
CanonResults == {<<proc[p].path, CanonR(proc[p].result)>> : p \in Live}

AllDone == /\ \A p \in Live : Done(p)
           /\ outcome # None

NoHang == Quiescent => AllDone
=============================================================================
