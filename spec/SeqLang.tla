------------------------------- MODULE SeqLang -------------------------------
(***************************************************************************)
(* Reference semantics of the sequential core of Quiver (docs/spec.md,     *)
(* sections "Value flow" ... "Tail recursion"), as a big-step evaluator    *)
(* over an abstract syntax given as JSON-shaped records.  Property C02:    *)
(* the value produced by compiling and running a program equals the value  *)
(* this module defines.  The module is deliberately independent of the     *)
(* compiler: no types are inferred, no locals are numbered, nothing is     *)
(* narrowed - values flow, patterns are matched against values, scopes are *)
(* finite maps from names to values.                                       *)
(*                                                                         *)
(* ABSTRACT SYNTAX (close to quiver-compiler/src/ast.rs).  Options are     *)
(* <<>> / <<x>>, absent names are "".                                      *)
(*   program  [aliases: Seq([name, type]), steps: Seq(chain)]              *)
(*   chain    [pat: Opt(pattern), terms: Seq(term)]        `p = t1 t2 ..`  *)
(*   expr     [branches: Seq([cond: Seq(chain), cons: Opt(Seq(chain))])]   *)
(*   term     [t: "int", n] | [t: "bin", b] | [t: "str", segs: Seq(        *)
(*              [s: "text", b] | [s: "hole", body: expr])]                 *)
(*          | [t: "tuple", nk: "anon"|"named"|"inherit", name,             *)
(*               fields: Seq([label, f: "chain", chain]                    *)
(*                         | [label: "", f: "spread", src: ""|var])]       *)
(*          | [t: "match", pat] | [t: "block", body: expr]                 *)
(*          | [t: "fn", param: Opt(type), body: Opt(expr)]                 *)
(*          | [t: "access", src, path]  | [t: "ref", src, path]            *)
(*   src      [k: "id", name] | [k: "param"] | [k: "ripple"] | [k: "none"] *)
(*          | [k: "builtin", name] | [k: "tail", name: ""|var]             *)
(*          | [k: "tailripple"]                                            *)
(*   path     Seq([k: "f", name] | [k: "i", i])                            *)
(*   pattern  [p: "id", name] | [p: "wild"] | [p: "int", n] | [p: "bin", b]*)
(*          | [p: "str", b] | [p: "tuple", name, fields: Seq([label, pat])]*)
(*          | [p: "partial", name, fields: Seq([label, pat: Opt(pattern)])]*)
(*          | [p: "star", name] | [p: "pin", name] | [p: "type", type]     *)
(*          | [p: "or", alts: Seq(pattern)] | [p: "as", type, name]        *)
(*   type     [y: "int"] | [y: "bin"] | [y: "fn"] | [y: "cycle"] | [y: "any"]*)
(*          | [y: "alias", name] | [y: "union", types: Seq(type)]          *)
(*          | [y: "tuple", name, partial: BOOLEAN,                         *)
(*               fields: Seq([label, type])]                               *)
(*                                                                         *)
(* VALUES are records with a kind field: [k: "int", n], [k: "bin", b],     *)
(* [k: "nil"], [k: "tup", name, ls, fs] (ls = field labels, "" when        *)
(* unlabelled; the empty anonymous tuple IS nil) and function values       *)
(* [k: "fn", bi, param, body, env].  Show(v) gives the form in which the   *)
(* harness prints values (labels folded into the name, functions opaque).  *)
(*                                                                         *)
(* Every evaluator returns a result record [st, v, env]:                   *)
(*   "ok"    value v, scope env                                            *)
(*   "ret"   a tail call (`^`) has produced the result v of the ENCLOSING  *)
(*           function: propagates to the nearest function-call boundary    *)
(*   "err"   a documented error of a partial builtin (v.e = error class)   *)
(*   "div"   the fuel bound was exhausted (runaway recursion; not judged)  *)
(*   "undef" the program left the domain of this specification (unbound    *)
(*           name, field access on a value without that field, equality on *)
(*           functions, integers beyond the modelled range ...); such a    *)
(*           program is not a well-formed program of the core and is not   *)
(*           judged.                                                       *)
(***************************************************************************)
EXTENDS Integers, Sequences, FiniteSets, TLC

Fuel == 40              \* bound on the nesting depth of function calls
MaxInt == 100000000     \* integers beyond this magnitude are outside the modelled range
MaxFactor == 10000      \* operands of a multiplication

-----------------------------------------------------------------------------
(* Values *)
NilV == [k |-> "nil"]
IntV(n) == [k |-> "int", n |-> n]
BinV(b) == [k |-> "bin", b |-> b]
MkTup(name, ls, fs) == IF name = "" /\ Len(fs) = 0 THEN NilV
                       ELSE [k |-> "tup", name |-> name, ls |-> ls, fs |-> fs]
OkV == MkTup("Ok", <<>>, <<>>)
StrV(b) == MkTup("Str", <<"">>, <<BinV(b)>>)
ErrV(e) == [k |-> "err", e |-> e]

IsTup(v) == v.k = "tup" \/ v.k = "nil"
TName(v) == IF v.k = "tup" THEN v.name ELSE ""
TLs(v) == IF v.k = "tup" THEN v.ls ELSE <<>>
TFs(v) == IF v.k = "tup" THEN v.fs ELSE <<>>
IsStr(v) == v.k = "tup" /\ v.name = "Str" /\ Len(v.fs) = 1 /\ v.ls[1] = "" /\ v.fs[1].k = "bin"

EmptyEnv == [m \in {} |-> NilV]
Bind(env, n, v) == [m \in (DOMAIN env) \cup {n} |-> IF m = n THEN v ELSE env[m]]
Merge(env, b) == [m \in (DOMAIN env) \cup (DOMAIN b) |-> IF m \in DOMAIN b THEN b[m] ELSE env[m]]

FnV(param, body, env) == [k |-> "fn", bi |-> "", param |-> param, body |-> body, env |-> env]
BuiltinV(name) == [k |-> "fn", bi |-> name, param |-> <<>>, body |-> <<>>, env |-> EmptyEnv]
Builtins == {"__integer_add__", "__integer_subtract__", "__integer_multiply__",
             "__integer_divide__", "__integer_modulo__", "__integer_compare__",
             "__binary_concat__"}

\* position of the first field labelled l (0 if none)
LabelPos(ls, l) ==
  LET S == {i \in 1..Len(ls) : ls[i] = l}
  IN IF S = {} THEN 0 ELSE CHOOSE i \in S : \A j \in S : i <= j

RECURSIVE HasFn(_)
HasFn(v) == \/ v.k = "fn"
            \/ v.k = "tup" /\ \E i \in 1..Len(v.fs) : HasFn(v.fs[i])

\* the printed form (what the harness's qrun prints)
RECURSIVE JoinLs(_, _)
JoinLs(ls, i) == IF i > Len(ls) THEN ""
                 ELSE IF i = Len(ls) THEN ls[i] ELSE ls[i] \o "," \o JoinLs(ls, i + 1)
ShowName(name, ls) == IF \A i \in 1..Len(ls) : ls[i] = "" THEN name
                      ELSE name \o "(" \o JoinLs(ls, 1) \o ")"
RECURSIVE Show(_)
Show(v) == CASE v.k = "tup" -> [k |-> "tup", name |-> ShowName(v.name, v.ls),
                                fs |-> [i \in 1..Len(v.fs) |-> Show(v.fs[i])]]
             [] v.k = "fn" -> [k |-> "fn"]
             [] OTHER -> v

-----------------------------------------------------------------------------
(* Results *)
R(st, v, env) == [st |-> st, v |-> v, env |-> env]
Ok(v, env) == R("ok", v, env)
Undef(env) == R("undef", NilV, env)

-----------------------------------------------------------------------------
(* Types: membership of a value in a type expression.  `root` is the type  *)
(* that `^` refers back to (the body of the enclosing alias, or the        *)
(* outermost type written).                                                *)
RECURSIVE Inh(_, _, _, _)
Inh(v, T, root, al) ==
  CASE T.y = "int" -> v.k = "int"
    [] T.y = "bin" -> v.k = "bin"
    [] T.y = "fn" -> v.k = "fn"
    [] T.y = "any" -> TRUE                 \* a type variable of a generic function
    [] T.y = "union" -> \E i \in 1..Len(T.types) : Inh(v, T.types[i], root, al)
    [] T.y = "alias" -> T.name \in DOMAIN al /\ Inh(v, al[T.name], al[T.name], al)
    [] T.y = "cycle" -> Inh(v, root, root, al)
    [] T.y = "tuple" ->
         /\ IsTup(v)
         /\ IF T.partial
            THEN /\ (T.name = "" \/ T.name = TName(v))
                 /\ \A i \in 1..Len(T.fields) :
                      LET p == LabelPos(TLs(v), T.fields[i].label)
                      IN p > 0 /\ Inh(TFs(v)[p], T.fields[i].type, root, al)
            ELSE /\ T.name = TName(v)
                 /\ Len(T.fields) = Len(TFs(v))
                 /\ \A i \in 1..Len(T.fields) :
                      /\ T.fields[i].label = TLs(v)[i]
                      /\ Inh(TFs(v)[i], T.fields[i].type, root, al)
    [] OTHER -> FALSE

IsNilType(T) == T.y = "tuple" /\ T.name = "" /\ Len(T.fields) = 0 /\ ~T.partial
\* spec.md "Chains": a nilary callable (its parameter is nil) ignores the flowing value
Nilary(f) == f.bi = "" /\ (Len(f.param) = 0 \/ IsNilType(f.param[1]))

-----------------------------------------------------------------------------
(* Pattern matching.  A match state is [ok, bad, b]: b = the variables     *)
(* bound so far BY THIS PATTERN; a name that occurs twice must be bound to *)
(* equal values ("repeated binders").  A pin `&y` compares against the     *)
(* scope as it was BEFORE the match ("an existing variable").              *)
MS0 == [ok |-> TRUE, bad |-> FALSE, b |-> EmptyEnv]
Fail(ms) == [ms EXCEPT !.ok = FALSE]
Bad(ms) == [ms EXCEPT !.bad = TRUE]
Cond(ms, c) == IF c THEN ms ELSE Fail(ms)
EqCheck(ms, a, b) == IF HasFn(a) \/ HasFn(b) THEN Bad(ms)
                     ELSE Cond(ms, a.k = b.k /\ a = b)      \* value equality is structural
BindVar(name, v, ms) == IF name \in DOMAIN ms.b THEN EqCheck(ms, ms.b[name], v)
                        ELSE [ms EXCEPT !.b = Bind(ms.b, name, v)]

RECURSIVE Match(_, _, _, _, _), MatchFields(_, _, _, _, _, _), MatchPartial(_, _, _, _, _, _),
          MatchAlts(_, _, _, _, _, _), BindStar(_, _, _)

Match(p, v, env, ms, cx) ==
  IF ~ms.ok \/ ms.bad THEN ms ELSE
  CASE p.p = "id" -> BindVar(p.name, v, ms)
    [] p.p = "wild" -> ms
    [] p.p = "int" -> Cond(ms, v.k = "int" /\ v.n = p.n)
    [] p.p = "bin" -> Cond(ms, v.k = "bin" /\ v.b = p.b)
    [] p.p = "str" -> Cond(ms, IsStr(v) /\ v.fs[1].b = p.b)
    [] p.p = "tuple" ->
         \* same name, same number of fields, the same labels position by position
         IF /\ IsTup(v) /\ TName(v) = p.name /\ Len(TFs(v)) = Len(p.fields)
            /\ \A i \in 1..Len(p.fields) : p.fields[i].label = TLs(v)[i]
         THEN MatchFields(p.fields, TFs(v), 1, env, ms, cx)
         ELSE Fail(ms)
    [] p.p = "partial" ->
         IF /\ IsTup(v) /\ (p.name = "" \/ p.name = TName(v))
            /\ \A i \in 1..Len(p.fields) : LabelPos(TLs(v), p.fields[i].label) > 0
         THEN MatchPartial(p.fields, v, 1, env, ms, cx)
         ELSE Fail(ms)
    [] p.p = "star" ->
         IF IsTup(v) /\ (p.name = "" \/ p.name = TName(v)) THEN BindStar(v, 1, ms) ELSE Fail(ms)
    [] p.p = "pin" -> IF p.name \in DOMAIN env THEN EqCheck(ms, env[p.name], v) ELSE Bad(ms)
    [] p.p = "type" -> Cond(ms, Inh(v, p.type, p.type, cx.al))
    [] p.p = "as" -> IF Inh(v, p.type, p.type, cx.al) THEN BindVar(p.name, v, ms) ELSE Fail(ms)
    [] p.p = "or" -> MatchAlts(p.alts, 1, v, env, ms, cx)
    [] OTHER -> Bad(ms)

MatchFields(pfs, vfs, i, env, ms, cx) ==
  IF i > Len(pfs) \/ ~ms.ok \/ ms.bad THEN ms
  ELSE MatchFields(pfs, vfs, i + 1, env, Match(pfs[i].pat, vfs[i], env, ms, cx), cx)

MatchPartial(pfs, v, i, env, ms, cx) ==
  IF i > Len(pfs) \/ ~ms.ok \/ ms.bad THEN ms
  ELSE LET fv == TFs(v)[LabelPos(TLs(v), pfs[i].label)]
           m == IF Len(pfs[i].pat) = 0 THEN BindVar(pfs[i].label, fv, ms)
                ELSE Match(pfs[i].pat[1], fv, env, ms, cx)
       IN MatchPartial(pfs, v, i + 1, env, m, cx)

BindStar(v, i, ms) ==
  IF i > Len(TFs(v)) \/ ~ms.ok \/ ms.bad THEN ms
  ELSE BindStar(v, i + 1, IF TLs(v)[i] = "" THEN ms ELSE BindVar(TLs(v)[i], TFs(v)[i], ms))

\* alternation: the first alternative that matches decides (and supplies the bindings)
MatchAlts(alts, i, v, env, ms, cx) ==
  IF i > Len(alts) THEN Fail(ms)
  ELSE LET m == Match(alts[i], v, env, ms, cx)
       IN IF m.bad \/ m.ok THEN m ELSE MatchAlts(alts, i + 1, v, env, ms, cx)

\* "A match evaluates to Ok if it succeeds and nil if it fails"; the variables it binds are in
\* scope afterwards.  A failed match binds nothing.
DoMatch(p, v, env, cx) ==
  LET m == Match(p, v, env, MS0, cx)
  IN IF m.bad THEN Undef(env)
     ELSE IF m.ok THEN Ok(OkV, Merge(env, m.b))
     ELSE Ok(NilV, env)

-----------------------------------------------------------------------------
(* Builtins on small operands *)
Abs(n) == IF n < 0 THEN 0 - n ELSE n
TruncDiv(a, b) == LET q == Abs(a) \div Abs(b) IN IF (a < 0) = (b < 0) THEN q ELSE 0 - q
IntPair(a) == /\ a.k = "tup" /\ a.name = "" /\ Len(a.fs) = 2 /\ a.ls = <<"", "">>
              /\ a.fs[1].k = "int" /\ a.fs[2].k = "int"
BinPair(a) == /\ a.k = "tup" /\ a.name = "" /\ Len(a.fs) = 2 /\ a.ls = <<"", "">>
              /\ a.fs[1].k = "bin" /\ a.fs[2].k = "bin"
InRange(n) == Abs(n) <= MaxInt

Builtin(name, a) ==
  IF name = "__binary_concat__"
  THEN IF BinPair(a) THEN Ok(BinV(a.fs[1].b \o a.fs[2].b), EmptyEnv) ELSE Undef(EmptyEnv)
  ELSE IF ~IntPair(a) THEN Undef(EmptyEnv)
  ELSE LET x == a.fs[1].n
           y == a.fs[2].n
       IN IF ~InRange(x) \/ ~InRange(y) THEN Undef(EmptyEnv) ELSE
          CASE name = "__integer_add__" -> Ok(IntV(x + y), EmptyEnv)
            [] name = "__integer_subtract__" -> Ok(IntV(x - y), EmptyEnv)
            [] name = "__integer_multiply__" ->
                 IF Abs(x) > MaxFactor \/ Abs(y) > MaxFactor THEN Undef(EmptyEnv)
                 ELSE Ok(IntV(x * y), EmptyEnv)
            [] name = "__integer_divide__" ->
                 \* documented partiality: division by zero is a DomainError
                 IF y = 0 THEN R("err", ErrV("InvalidArgument:Division by zero"), EmptyEnv)
                 ELSE Ok(IntV(TruncDiv(x, y)), EmptyEnv)
            [] name = "__integer_modulo__" ->
                 IF y = 0 THEN R("err", ErrV("InvalidArgument:Modulo by zero"), EmptyEnv)
                 ELSE Ok(IntV(x - y * TruncDiv(x, y)), EmptyEnv)
            [] name = "__integer_compare__" ->
                 Ok(IntV(IF x < y THEN 0 - 1 ELSE IF x = y THEN 0 ELSE 1), EmptyEnv)
            [] OTHER -> Undef(EmptyEnv)

-----------------------------------------------------------------------------
(* Tuple construction helpers: a labelled field that is already present is *)
(* replaced in place ("later fields override earlier ones"), anything else *)
(* is appended.                                                            *)
AddField(acc, l, val) ==
  LET pos == IF l = "" THEN 0 ELSE LabelPos(acc.ls, l)
  IN IF pos = 0 THEN [ls |-> Append(acc.ls, l), fs |-> Append(acc.fs, val)]
     ELSE [ls |-> acc.ls, fs |-> [acc.fs EXCEPT ![pos] = val]]
RECURSIVE AddAll(_, _, _)
AddAll(acc, tv, j) == IF j > Len(TFs(tv)) THEN acc
                      ELSE AddAll(AddField(acc, TLs(tv)[j], TFs(tv)[j]), tv, j + 1)

RECURSIVE Walk(_, _, _)
Walk(val, path, i) ==
  IF i > Len(path) THEN <<val>>
  ELSE IF ~IsTup(val) THEN <<>>
  ELSE LET a == path[i]
           pos == IF a.k = "f" THEN LabelPos(TLs(val), a.name)
                  ELSE IF a.i < Len(TFs(val)) THEN a.i + 1 ELSE 0
       IN IF pos = 0 THEN <<>> ELSE Walk(TFs(val)[pos], path, i + 1)

-----------------------------------------------------------------------------
(* The evaluator.  cx = [al: aliases, par: Opt(value of `$`), self:        *)
(* Opt(the function being executed, target of `^`), fuel].                 *)
RECURSIVE EvalSeq(_, _, _, _, _), EvalChain(_, _, _, _), EvalTerms(_, _, _, _, _),
          EvalTerm(_, _, _, _), EvalBranches(_, _, _, _, _), EvalBlock(_, _, _, _),
          EvalStr(_, _, _, _, _, _), EvalFields(_, _, _, _, _, _), EvalTuple(_, _, _, _),
          EvalAccess(_, _, _, _), Call(_, _, _)

\* sequence = fallible pipe: each step starts from the previous step's result; a step that
\* evaluates to nil short-circuits the rest of the sequence to nil.  Bindings persist.
EvalSeq(chains, i, v, env, cx) ==
  IF i > Len(chains) THEN Ok(v, env)
  ELSE LET r == EvalChain(chains[i], v, env, cx)
       IN IF r.st # "ok" THEN r
          ELSE IF r.v.k = "nil" THEN r
          ELSE EvalSeq(chains, i + 1, r.v, r.env, cx)

\* chain = infallible pipe: nil flows like any other value.  `p = chain` matches the chain's
\* value against p (evaluating to Ok or nil).
EvalChain(c, v, env, cx) ==
  LET r == EvalTerms(c.terms, 1, v, env, cx)
  IN IF r.st # "ok" \/ Len(c.pat) = 0 THEN r
     ELSE DoMatch(c.pat[1], r.v, r.env, cx)

EvalTerms(terms, i, v, env, cx) ==
  IF i > Len(terms) THEN Ok(v, env)
  ELSE LET r == EvalTerm(terms[i], v, env, cx)
       IN IF r.st # "ok" THEN r ELSE EvalTerms(terms, i + 1, r.v, r.env, cx)

\* block: a new scope; every branch (and every consequence) starts from the block's parameter.
\* A branch whose condition sequence is nil falls to the next branch; `cond => cons` COMMITS:
\* the block takes the value of the consequence even when that is nil.  No branch: nil.
EvalBranches(bs, i, v, env, cx) ==
  IF i > Len(bs) THEN Ok(NilV, env)
  ELSE LET c == EvalSeq(bs[i].cond, 1, v, env, cx)
       IN IF c.st # "ok" THEN c
          ELSE IF c.v.k = "nil" THEN EvalBranches(bs, i + 1, v, env, cx)
          ELSE IF Len(bs[i].cons) = 0 THEN c
          ELSE EvalSeq(bs[i].cons[1], 1, v, c.env, cx)

EvalBlock(e, v, env, cx) ==
  LET r == EvalBranches(e.branches, 1, v, env, cx)
  IN [r EXCEPT !.env = env]          \* bindings made inside a block do not escape

\* function call: the body is a block whose parameter (and `$`) is the argument, evaluated in
\* the scope captured when the function literal was evaluated (closure).
Call(f, arg, cx) ==
  IF cx.fuel = 0 THEN R("div", NilV, EmptyEnv)
  ELSE IF f.bi # "" THEN Builtin(f.bi, arg)
  ELSE LET a == IF Nilary(f) THEN NilV ELSE arg
           c2 == [cx EXCEPT !.par = <<a>>, !.self = <<f>>, !.fuel = cx.fuel - 1]
       IN IF Len(f.param) = 1 /\ ~Inh(a, f.param[1], f.param[1], cx.al) THEN Undef(EmptyEnv)
          ELSE IF Len(f.body) = 0 THEN Ok(a, EmptyEnv)        \* `#T` is `#T { $ }`
          ELSE LET r == EvalBranches(f.body[1].branches, 1, a, f.env, c2)
               IN IF r.st = "ret" THEN [r EXCEPT !.st = "ok"] ELSE r

CallFrom(f, arg, env, cx) == [Call(f, arg, cx) EXCEPT !.env = env]
\* `^`: the result of the callee IS the result of the enclosing function
TailCall(f, arg, env, cx) ==
  LET r == Call(f, arg, cx) IN IF r.st = "ok" THEN R("ret", r.v, env) ELSE [r EXCEPT !.env = env]

\* strings are Str[bin]; a hole is evaluated like a block that receives the flowing value and
\* must evaluate to a Str
EvalStr(segs, i, acc, v, env, cx) ==
  IF i > Len(segs) THEN Ok(StrV(acc), env)
  ELSE IF segs[i].s = "text" THEN EvalStr(segs, i + 1, acc \o segs[i].b, v, env, cx)
  ELSE LET r == EvalBlock(segs[i].body, v, env, cx)
       IN IF r.st # "ok" THEN r
          ELSE IF ~IsStr(r.v) THEN Undef(env)
          ELSE EvalStr(segs, i + 1, acc \o r.v.fs[1].b, v, env, cx)

\* tuple fields are chains, evaluated left to right, each receiving its own copy of the flowing
\* value; a field is not a scope, so what one field binds is visible in the next and afterwards
EvalFields(fields, i, acc, v, env, cx) ==
  IF i > Len(fields) THEN Ok(MkTup("", acc.ls, acc.fs), env)
  ELSE LET fd == fields[i] IN
       IF fd.f = "spread"
       THEN LET src == IF fd.src = "" THEN <<v>>
                       ELSE IF fd.src \in DOMAIN env THEN <<env[fd.src]>> ELSE <<>>
            IN IF Len(src) = 0 THEN Undef(env)
               ELSE IF ~IsTup(src[1]) THEN Undef(env)
               ELSE EvalFields(fields, i + 1, AddAll(acc, src[1], 1), v, env, cx)
       ELSE LET r == EvalChain(fd.chain, v, env, cx)
            IN IF r.st # "ok" THEN r
               ELSE EvalFields(fields, i + 1, AddField(acc, fd.label, r.v), v, r.env, cx)

EvalTuple(t, v, env, cx) ==
  LET r == EvalFields(t.fields, 1, [ls |-> <<>>, fs |-> <<>>], v, env, cx)
      \* `~[..., y: 2]` / `a[..., y: 2]`: the name is inherited from the first spread's source
      sp == {i \in 1..Len(t.fields) : t.fields[i].f = "spread"}
      first == IF sp = {} THEN 0 ELSE CHOOSE i \in sp : \A j \in sp : i <= j
      srcv == IF first = 0 THEN <<>>
              ELSE IF t.fields[first].src = "" THEN <<v>>
              ELSE IF t.fields[first].src \in DOMAIN env THEN <<env[t.fields[first].src]>> ELSE <<>>
      name == IF t.nk = "named" THEN <<t.name>>
              ELSE IF t.nk = "anon" THEN <<"">>
              ELSE IF Len(srcv) = 1 /\ IsTup(srcv[1]) THEN <<TName(srcv[1])>> ELSE <<>>
  IN IF r.st # "ok" THEN r
     ELSE IF Len(name) = 0 THEN Undef(env)
     ELSE Ok(MkTup(name[1], TLs(r.v), TFs(r.v)), r.env)

\* variables, `$`, `~`, `.x`, builtins, tail calls.  "Callable variables are called with the
\* flowing value, others replace it" - likewise `$`, members reached from them, and builtins;
\* the flowing value itself (`~`, `.x`) is never applied.
EvalAccess(t, v, env, cx) ==
  LET s == t.src IN
  IF s.k = "tail" THEN
       LET b == IF s.name = "" THEN cx.self
                ELSE IF s.name \in DOMAIN env THEN <<env[s.name]>> ELSE <<>>
           w == IF Len(b) = 0 THEN <<>> ELSE Walk(b[1], t.path, 1)
       IN IF Len(w) = 0 THEN Undef(env)
          ELSE IF w[1].k # "fn" THEN Undef(env)
          ELSE TailCall(w[1], v, env, cx)
  ELSE IF s.k = "tailripple" THEN
       \* `^~`: the flowing value (a nilary function) is tail-called with nil
       IF v.k = "fn" /\ Nilary(v) THEN TailCall(v, NilV, env, cx) ELSE Undef(env)
  ELSE LET b == CASE s.k = "id" -> IF s.name \in DOMAIN env THEN <<env[s.name]>> ELSE <<>>
                  [] s.k = "param" -> cx.par
                  [] s.k = "ripple" -> <<v>>
                  [] s.k = "none" -> <<v>>
                  [] s.k = "builtin" -> IF s.name \in Builtins THEN <<BuiltinV(s.name)>> ELSE <<>>
                  [] OTHER -> <<>>
           w == IF Len(b) = 0 THEN <<>> ELSE Walk(b[1], t.path, 1)
       IN IF Len(w) = 0 THEN Undef(env)
          ELSE IF t.t = "access" /\ w[1].k = "fn" /\ s.k \in {"id", "param", "builtin"}
               THEN CallFrom(w[1], v, env, cx)
          ELSE Ok(w[1], env)

EvalTerm(t, v, env, cx) ==
  CASE t.t = "int" -> IF InRange(t.n) THEN Ok(IntV(t.n), env) ELSE Undef(env)
    [] t.t = "bin" -> Ok(BinV(t.b), env)
    [] t.t = "str" -> EvalStr(t.segs, 1, <<>>, v, env, cx)
    [] t.t = "tuple" -> EvalTuple(t, v, env, cx)
    [] t.t = "match" -> DoMatch(t.pat, v, env, cx)
    [] t.t = "block" -> EvalBlock(t.body, v, env, cx)
    [] t.t = "fn" -> Ok(FnV(t.param, t.body, env), env)    \* a literal: replaces the value
    [] t.t = "access" -> EvalAccess(t, v, env, cx)
    [] t.t = "ref" -> EvalAccess(t, v, env, cx)             \* `&f`: the value, never called
    [] OTHER -> Undef(env)

-----------------------------------------------------------------------------
(* Outcomes *)
Val(v) == [t |-> "value", v |-> v]
Error(e) == [t |-> "error", e |-> e]
Diverges == [t |-> "diverges"]
Undefined == [t |-> "undefined"]

AliasMap(aliases) ==
  [n \in {aliases[i].name : i \in 1..Len(aliases)} |->
     aliases[CHOOSE i \in 1..Len(aliases) : aliases[i].name = n].type]

\* The set of admissible outcomes of a whole program (a singleton: the core is deterministic).
\* The program is one sequence; its first step starts from nil.
Eval(prog) ==
  LET cx == [al |-> AliasMap(prog.aliases), par |-> <<>>, self |-> <<>>, fuel |-> Fuel]
      r == EvalSeq(prog.steps, 1, NilV, EmptyEnv, cx)
  IN CASE r.st = "ok" -> {Val(Show(r.v))}
       [] r.st = "err" -> {Error(r.v.e)}
       [] r.st = "div" -> {Diverges}
       [] OTHER -> {Undefined}
=============================================================================
