------------------------------- MODULE VMSem -------------------------------
(***************************************************************************)
(* Stack-effect semantics of the 24 Quiver bytecode instructions, read     *)
(* from quiver-core/src/executor.rs (execute_hot / execute_cold and the    *)
(* handle_* functions) -- DESIGN.md Appendix D.  Shared by VMStack.tla     *)
(* (static analysis of dumped bytecode, C07 / static part of C16) and      *)
(* VMTrace.tla (validation of per-instruction traces of the real VM).      *)
(*                                                                         *)
(* An instruction is a tuple <<"Constant", 3>> (operation, operand a;      *)
(* Process has a third element b, its function index); TailCall(true) is   *)
(* a = 1, TailCall(false) is a = 0.  (bcdump writes {"op":..,"a":..}; the  *)
(* engine re-encodes it as ["op", a] -- TLC parses tuples much faster.)    *)
(* T is the record of table sizes of the image the function belongs to:    *)
(*   nconst, ntypes, nbuiltins : sizes;  arity : tuple id -> field count;  *)
(*   caps : function index -> capture count   (sequences, id + 1).         *)
(*                                                                         *)
(* h = operand height relative to the frame's entry (entry: h = 1, the     *)
(* argument); l = locals relative to locals_base (entry: l = captures).    *)
(***************************************************************************)
EXTENDS Integers, Sequences

Op(I) == I[1]
A(I)  == I[2]
B(I)  == I[3]

Dyn == 99   \* "depends on the operand / the tables": see NeedsDyn, DeltaDyn

(***************************************************************************)
(* The table.  needs = operands the handler takes from (or inspects on)    *)
(* the stack; delta = net change of the height once the instruction has    *)
(* completed (for Call / Spawn / Send / Select: the whole call, spawn,     *)
(* send, select -- the callee is well-formed by induction: it consumes its *)
(* argument and leaves one result).                                        *)
(*   Constant  push                         handle_constant                *)
(*   Pop       pop                          handle_pop                     *)
(*   Duplicate needs a top, pushes a copy   handle_duplicate               *)
(*   Pick(n)   needs n+1, pushes a copy     handle_pick   (len <= n: err)  *)
(*   Rotate(n) needs n, permutes            handle_rotate (len < n: err)   *)
(*   Reset(i)  locals := i                  handle_reset  (i > l: err)     *)
(*   Load(i)   push locals[i]               handle_load   (undefined: err) *)
(*   Store     pop into a new local         handle_store                   *)
(*   Tuple(t)  pop arity[t], push 1         handle_tuple                   *)
(*   Get(i)    pop tuple, push field        handle_get                     *)
(*   IsType(t) pop, push Ok / nil           handle_is_type                 *)
(*   Jump(o)   pc := pc + o + 1             handle_jump                    *)
(*   JumpIf(o) pop; jump if not nil         handle_jump_if                 *)
(*   Call      pop fn and arg, push arg, new frame; at return the result   *)
(*             replaces the arg (builtin: pop 2 push 1)   handle_call      *)
(*   TailCall(true)  pop arg, cut locals to captures, push arg, pc := 0    *)
(*   TailCall(false) pop fn and arg, locals := callee captures, push arg   *)
(*   Function(f) pop captures[f], push closure           handle_function   *)
(*   Builtin(b) push                        handle_builtin                 *)
(*   Equal(n)  pop n, push 1                handle_equal  (n > len: err)   *)
(*   Not       pop, push                    handle_not                     *)
(*   Spawn     pop fn and arg; notify_spawn pushes the pid                 *)
(*   Send      pop target and message, push target back   handle_send      *)
(*   Self      push pid                     handle_self                    *)
(*   Select    pop sources ... push the selected value    handle_select    *)
(*   Process(p, f) push pid value           handle_process_ref             *)
(***************************************************************************)
Info == [
  Constant  |-> [needs |-> 0,   delta |-> 1],
  Pop       |-> [needs |-> 1,   delta |-> -1],
  Duplicate |-> [needs |-> 1,   delta |-> 1],
  Pick      |-> [needs |-> Dyn, delta |-> 1],
  Rotate    |-> [needs |-> Dyn, delta |-> 0],
  Reset     |-> [needs |-> 0,   delta |-> 0],
  Load      |-> [needs |-> 0,   delta |-> 1],
  Store     |-> [needs |-> 1,   delta |-> -1],
  Tuple     |-> [needs |-> Dyn, delta |-> Dyn],
  Get       |-> [needs |-> 1,   delta |-> 0],
  IsType    |-> [needs |-> 1,   delta |-> 0],
  Jump      |-> [needs |-> 0,   delta |-> 0],
  JumpIf    |-> [needs |-> 1,   delta |-> -1],
  Call      |-> [needs |-> 2,   delta |-> -1],
  TailCall  |-> [needs |-> Dyn, delta |-> Dyn],
  Function  |-> [needs |-> Dyn, delta |-> Dyn],
  Builtin   |-> [needs |-> 0,   delta |-> 1],
  Equal     |-> [needs |-> Dyn, delta |-> Dyn],
  Not       |-> [needs |-> 1,   delta |-> 0],
  Spawn     |-> [needs |-> 2,   delta |-> -1],
  Send      |-> [needs |-> 2,   delta |-> -1],
  Self      |-> [needs |-> 0,   delta |-> 1],
  Select    |-> [needs |-> 1,   delta |-> 0],
  Process   |-> [needs |-> 0,   delta |-> 1]]

\* only meaningful when IndexOK
NeedsDyn(I, T) ==
  CASE Op(I) = "Pick"     -> A(I) + 1
    [] Op(I) = "Rotate"   -> A(I)
    [] Op(I) = "Equal"    -> A(I)
    [] Op(I) = "Tuple"    -> T.arity[A(I) + 1]
    [] Op(I) = "Function" -> T.caps[A(I) + 1]
    [] Op(I) = "TailCall" -> IF A(I) = 1 THEN 1 ELSE 2

DeltaDyn(I, T) ==
  CASE Op(I) = "Tuple"    -> 1 - T.arity[A(I) + 1]
    [] Op(I) = "Function" -> 1 - T.caps[A(I) + 1]
    [] Op(I) = "Equal"    -> 1 - A(I)
    [] Op(I) = "TailCall" -> IF A(I) = 1 THEN 0 ELSE -1

Needs(I, T) == LET n == Info[Op(I)].needs IN IF n = Dyn THEN NeedsDyn(I, T) ELSE n
Delta(I, T) == LET d == Info[Op(I)].delta IN IF d = Dyn THEN DeltaDyn(I, T) ELSE d

\* every table index an instruction carries is in range (handle_constant: ConstantUndefined,
\* handle_tuple: unknown type, handle_function: FunctionUndefined, handle_builtin:
\* BuiltinUndefined; IsType silently answers "no" for an unknown type id; Process(p, f) builds a
\* pid value whose function index types the process).
IndexOK(I, T) ==
  CASE Op(I) = "Constant" -> A(I) >= 0 /\ A(I) < T.nconst
    [] Op(I) = "Tuple"    -> A(I) >= 0 /\ A(I) < Len(T.arity)
    [] Op(I) = "IsType"   -> A(I) >= 0 /\ A(I) < T.ntypes
    [] Op(I) = "Function" -> A(I) >= 0 /\ A(I) < Len(T.caps)
    [] Op(I) = "Builtin"  -> A(I) >= 0 /\ A(I) < T.nbuiltins
    [] Op(I) = "Process"  -> B(I) >= 0 /\ B(I) < Len(T.caps)
    [] OTHER -> TRUE

\* Rotate(0) would remove at index len (panic), Equal(0) indexes an empty vector (panic)
OperandOK(I) ==
  CASE Op(I) = "Rotate" -> A(I) >= 1
    [] Op(I) = "Equal"  -> A(I) >= 1
    [] OTHER -> A(I) >= 0 \/ Op(I) \in {"Jump", "JumpIf"}

\* requirement on the locals
LocalsOK(I, l) ==
  CASE Op(I) = "Load"  -> A(I) < l       \* VariableUndefined otherwise
    [] Op(I) = "Reset" -> A(I) <= l      \* handle_reset: target > len is an error
    [] OTHER -> TRUE

\* locals after the instruction
LocalsAfter(I, l) ==
  CASE Op(I) = "Store" -> l + 1
    [] Op(I) = "Reset" -> A(I)
    [] OTHER -> l
=============================================================================
