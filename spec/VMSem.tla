------------------------------- MODULE VMSem -------------------------------
(***************************************************************************)
(* Stack-effect semantics of the 24 Quiver bytecode instructions, read     *)
(* from quiver-core/src/executor.rs (execute_hot / execute_cold and the    *)
(* handle_* functions) -- DESIGN.md Appendix D.  Shared by VMStack.tla     *)
(* (static analysis of dumped bytecode, C07 / static part of C16) and      *)
(* VMTrace.tla (validation of per-instruction traces of the real VM).      *)
(*                                                                         *)
(* An instruction is a record [op |-> "Constant", a |-> 3] (Process also   *)
(* has b); TailCall(true) is a = 1, TailCall(false) is a = 0.              *)
(* T is the record of table sizes of the image the function belongs to:    *)
(*   nconst, ntypes, nbuiltins : sizes;  arity : tuple id -> field count;  *)
(*   caps : function index -> capture count   (sequences, id + 1).         *)
(*                                                                         *)
(* h = operand height relative to the frame's entry (entry: h = 1, the     *)
(* argument); l = locals relative to locals_base (entry: l = captures).    *)
(***************************************************************************)
EXTENDS Integers, Sequences

\* every table index an instruction carries is in range (handle_constant: ConstantUndefined,
\* handle_tuple: unknown type, handle_function: FunctionUndefined, handle_builtin:
\* BuiltinUndefined; IsType silently answers "no" for an unknown type id; Process(p, f) builds a
\* pid value whose function index types the process).
IndexOK(I, T) ==
  CASE I.op = "Constant" -> I.a >= 0 /\ I.a < T.nconst
    [] I.op = "Tuple"    -> I.a >= 0 /\ I.a < Len(T.arity)
    [] I.op = "IsType"   -> I.a >= 0 /\ I.a < T.ntypes
    [] I.op = "Function" -> I.a >= 0 /\ I.a < Len(T.caps)
    [] I.op = "Builtin"  -> I.a >= 0 /\ I.a < T.nbuiltins
    [] I.op = "Process"  -> I.b >= 0 /\ I.b < Len(T.caps)
    [] OTHER -> TRUE

\* Rotate(0) would remove at index len (panic), Equal(0) indexes an empty vector (panic)
OperandOK(I) ==
  CASE I.op = "Rotate" -> I.a >= 1
    [] I.op = "Equal"  -> I.a >= 1
    [] I.op \in {"Pick", "Get", "Load", "Reset"} -> I.a >= 0
    [] OTHER -> TRUE

\* operands the handler takes from (or inspects on) the stack; only meaningful when IndexOK
Needs(I, T) ==
  CASE I.op \in {"Constant", "Load", "Reset", "Jump", "Builtin", "Self", "Process"} -> 0
    [] I.op \in {"Pop", "Duplicate", "Store", "Get", "IsType", "JumpIf", "Not", "Select"} -> 1
    [] I.op = "Pick"     -> I.a + 1
    [] I.op = "Rotate"   -> I.a
    [] I.op = "Equal"    -> I.a
    [] I.op = "Tuple"    -> T.arity[I.a + 1]
    [] I.op = "Function" -> T.caps[I.a + 1]
    [] I.op \in {"Call", "Spawn", "Send"} -> 2
    [] I.op = "TailCall" -> IF I.a = 1 THEN 1 ELSE 2

\* net change of the height once the instruction (for Call/Spawn/Send/Select: the whole
\* call / spawn / send / select, callee well-formed by induction) has completed
Delta(I, T) ==
  CASE I.op \in {"Constant", "Duplicate", "Pick", "Load", "Builtin", "Self", "Process"} -> 1
    [] I.op \in {"Pop", "Store", "JumpIf", "Call", "Spawn", "Send"} -> -1
    [] I.op \in {"Rotate", "Get", "IsType", "Jump", "Not", "Select", "Reset"} -> 0
    [] I.op = "Tuple"    -> 1 - T.arity[I.a + 1]
    [] I.op = "Function" -> 1 - T.caps[I.a + 1]
    [] I.op = "Equal"    -> 1 - I.a
    [] I.op = "TailCall" -> IF I.a = 1 THEN 0 ELSE -1

\* requirement on the locals
LocalsOK(I, l) ==
  CASE I.op = "Load"  -> I.a < l       \* VariableUndefined otherwise
    [] I.op = "Reset" -> I.a <= l      \* handle_reset: target > len is an error
    [] OTHER -> TRUE

\* locals after the instruction
LocalsAfter(I, l) ==
  CASE I.op = "Store" -> l + 1
    [] I.op = "Reset" -> I.a
    [] OTHER -> l

\* pcs control can reach next, in the order (fall-through, jump target); TailCall ends the path
Succs(I, pc) ==
  CASE I.op = "Jump"     -> <<pc + I.a + 1>>
    [] I.op = "JumpIf"   -> <<pc + 1, pc + I.a + 1>>
    [] I.op = "TailCall" -> <<>>
    [] OTHER -> <<pc + 1>>
=============================================================================
