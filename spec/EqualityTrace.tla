--------------------------- MODULE EqualityTrace ---------------------------
(* Judges recorded equality verdicts (IOEnv.EQ_TRACE, ndjson).  One record per pair of
   construction paths:  [id, a, b (observed abstract values), same (the two paths denote the same
   abstract value by construction), verdicts: [pin, repeat, literal (each "Ok"/"nil"/"na")]].
   Rules: PathIndependent (paths built to denote the same value produce SEq values, and different
   ones do not), VerdictIsStructural (every in-language verdict = SEq(a, b)). *)
EXTENDS Equality, Json, IOUtils

Rec == ndJsonDeserialize(IOEnv.EQ_TRACE)
VARIABLE i

Msg(r, rule, d) == PrintT("MISMATCH|" \o r.id \o "|" \o rule \o "|" \o d)

Judge(r) ==
  LET eq == SEq(r.a, r.b)
      m1 == IF eq = r.same THEN TRUE
            ELSE Msg(r, "PathIndependent", ToString(<<"built to be", IF r.same THEN "equal" ELSE "different", r.a, r.b>>))
      bad == {v \in DOMAIN r.verdicts : r.verdicts[v] # "na" /\ (r.verdicts[v] = "Ok") # eq}
      m2 == IF bad = {} THEN TRUE
            ELSE Msg(r, "VerdictIsStructural", ToString(<<bad, r.verdicts, "structurally equal:", eq, r.a, r.b>>))
  IN m1 /\ m2

Init == i = 1
Next == i <= Len(Rec) /\ Judge(Rec[i]) /\ i' = i + 1
Spec == Init /\ [][Next]_i
Done == IF TLCGet("stats").diameter = Len(Rec) + 1 THEN TRUE
        ELSE PrintT(<<"INCOMPLETE", TLCGet("stats").diameter, Len(Rec)>>) /\ FALSE
=============================================================================
