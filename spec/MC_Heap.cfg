SPECIFICATION Spec
CONSTANTS
  NSlots = 3
  Roots = {"stack", "awaiting", "mailbox"}
  MaxOps = 8
  Defects = {}
CHECK_DEADLOCK FALSE
INVARIANTS Counted NoUseAfterFree FreeList NoOrphan NoUnderflow IndInvOnHeap
PROPERTIES ContentStable
