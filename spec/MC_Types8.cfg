SPECIFICATION Spec
CHECK_DEADLOCK FALSE
CONSTANTS
  MaxNodes = 2
  D = 3
INVARIANTS
  Emit8
