SPECIFICATION Spec
CHECK_DEADLOCK FALSE
CONSTANTS
  MaxNodes = 2
  D = 3
  SampleMod = 1
  SampleRem = 0
INVARIANTS
  Emit8
