-------------------------------- MODULE Num --------------------------------
(***************************************************************************)
(* C20 - "The num module computes exactly and propagates absence".         *)
(*                                                                         *)
(* An explicit specification of exact arithmetic over the value forms of   *)
(* std/num.qv:                                                             *)
(*                                                                         *)
(*   int   [k |-> "int",  n |-> i]                a bare integer           *)
(*   rat   [k |-> "rat",  n |-> p, d |-> q]       Rational[p, q]           *)
(*   surd  [k |-> "surd", a |-> c, b |-> c', r |-> n]   Surd[a, b, n]      *)
(*                                                = a + b*sqrt(n)          *)
(*   nil   [k |-> "nil"]                          []  (absence)            *)
(*   ok    [k |-> "ok"]                           Ok  (result of eq? ...)  *)
(*                                                                         *)
(* Every value is a record with a string field k, because TLC refuses to   *)
(* compare values of different kinds.                                      *)
(*                                                                         *)
(* The specification has two layers.                                       *)
(*  (1) DENOTATION: every non-nil value denotes an element a + b*sqrt(r)   *)
(*      of the field Q(sqrt r), written <<a, b, r>> with a, b exact        *)
(*      rationals <<num, den>> in lowest terms with den > 0 (normalised by *)
(*      the Gcd defined here) and r = 1, b = 0 for plain rationals.  The   *)
(*      field and order operations are defined on denotations.             *)
(*  (2) CANONICAL FORM: which *representation* of the exact result an      *)
(*      operation returns.  Rules (num.qv header comment, confirmed by     *)
(*      quiver-tests/tests/num.rs):                                        *)
(*       F1 a rational is in lowest terms with a positive denominator;     *)
(*       F2 "kind is a property of representation": with int/rational      *)
(*          operands add/sub/mul return an int iff both operands are ints, *)
(*          otherwise a rational - a rational is NEVER lowered to an int   *)
(*          (1/2 + 1/2 = 1/1, test_rational_result_is_not_lowered);        *)
(*       F3 div of ints/rationals always returns a rational (6/3 = 2/1),   *)
(*          nil when the divisor is zero;                                  *)
(*       F4 an operation with a surd operand collapses its result to the   *)
(*          simplest exact form: b = 0 gives a lowered rational (an int    *)
(*          when the denominator is 1), otherwise Surd[a, b, n] with       *)
(*          lowered coefficients (sqrt2*sqrt2 = 2, (1+sqrt2)-sqrt2 = 1);   *)
(*       F5 neg/abs preserve kind; numer/denom/floor/ceil/round/to_int/    *)
(*          sign return bare ints; sqrt returns the collapsed form (sqrt 4 *)
(*          = 2, sqrt(1/4) = 1/2, sqrt 8 = 2*sqrt2, sqrt 0 = 0);           *)
(*       N1 a nil operand gives nil; N2 division by zero gives nil;        *)
(*       N3 operands that carry different radicals give nil (sqrt2*sqrt3,  *)
(*          comparing sqrt2 with sqrt3); N4 sqrt of a negative number or   *)
(*          of a surd, numer/denom of a surd give nil; never an error.     *)
(*      min/max/clamp are the usual ones (std::min/max/clamp: the first    *)
(*      operand wins a tie, x < lo is decided first) and are nil when a    *)
(*      comparison they NEED is undefined (N1, N3) - the weakest reading   *)
(*      of N3: clamp(sqrt2, 1, sqrt3) is 1..sqrt3-undecidable only if      *)
(*      sqrt2 has to be compared with sqrt3.                               *)
(*                                                                         *)
(* TLC integers are 32-bit and overflow is an evaluation error.  All       *)
(* operand universes used with this module keep |numerators| <= 12,        *)
(* denominators <= 6, surd coefficients within {-2..2, +-1/2, +-3/2, 2/3}  *)
(* and radicands in {2,3,5,6}; the largest intermediate product (the law   *)
(* checks over triples) stays below 10^7.                                  *)
(***************************************************************************)
EXTENDS Integers, Sequences, FiniteSets, TLC

----------------------------------------------------------------------------
(* value constructors *)
Nil        == [k |-> "nil"]
OkV        == [k |-> "ok"]
I(n)       == [k |-> "int", n |-> n]
R(n, d)    == [k |-> "rat", n |-> n, d |-> d]
S(a, b, r) == [k |-> "surd", a |-> a, b |-> b, r |-> r]
(* a "huge magnitude" placeholder: stands for a literal M far outside the  *)
(* 32-bit range that only the implementation side sees; the specification  *)
(* needs its kind ("int" / "rat") and sign only (see the H* operations).   *)
Huge(id, kind, sgn) == [k |-> "huge", id |-> id, kind |-> kind, sgn |-> sgn]

IsNil(v)  == v.k = "nil"
IsInt(v)  == v.k = "int"
IsRat(v)  == v.k = "rat"
IsSurd(v) == v.k = "surd"
IsNum(v)  == v.k \in {"int", "rat", "surd"}

(* structural equality that never compares values of different kinds *)
RECURSIVE Same(_, _)
Same(x, y) ==
  /\ x.k = y.k
  /\ CASE x.k = "int"  -> x.n = y.n
       [] x.k = "rat"  -> x.n = y.n /\ x.d = y.d
       [] x.k = "surd" -> Same(x.a, y.a) /\ Same(x.b, y.b) /\ x.r = y.r
       [] x.k \in {"nil", "ok"} -> TRUE
       [] OTHER -> FALSE          \* "error", "other": never equal to a specified result

----------------------------------------------------------------------------
(* exact rationals <<n, d>>: d > 0, gcd(|n|, d) = 1 *)
AbsI(x) == IF x < 0 THEN -x ELSE x
SgnI(x) == IF x < 0 THEN -1 ELSE IF x = 0 THEN 0 ELSE 1
RECURSIVE Gcd(_, _)
Gcd(a, b) == IF b = 0 THEN a ELSE Gcd(b, a % b)          \* a, b >= 0

Q(n, d) ==                                               \* normalise n/d, d # 0
  LET g == Gcd(AbsI(n), AbsI(d))
      s == IF d < 0 THEN -1 ELSE 1
  IN  <<(s * n) \div g, (s * d) \div g>>                 \* exact divisions

Q0 == <<0, 1>>
Q1 == <<1, 1>>
QInt(i)    == <<i, 1>>
QAdd(p, q) == Q(p[1] * q[2] + q[1] * p[2], p[2] * q[2])
QNeg(p)    == <<-p[1], p[2]>>
QSub(p, q) == QAdd(p, QNeg(q))
QMul(p, q) == Q(p[1] * q[1], p[2] * q[2])
QInv(p)    == Q(p[2], p[1])                              \* p # 0
QDiv(p, q) == QMul(p, QInv(q))                           \* q # 0
QSgn(p)    == SgnI(p[1])
QCmp(p, q) == SgnI(p[1] * q[2] - q[1] * p[2])
QIsZero(p) == p[1] = 0
QOk(p)     == p[2] > 0 /\ Gcd(AbsI(p[1]), p[2]) = 1

----------------------------------------------------------------------------
(* denotation of a non-nil value: <<a, b, r>> = a + b*sqrt(r) *)
CoefQ(c) == IF c.k = "int" THEN <<c.n, 1>> ELSE <<c.n, c.d>>
Den(v) == CASE v.k = "int"  -> <<QInt(v.n), Q0, 1>>
            [] v.k = "rat"  -> <<<<v.n, v.d>>, Q0, 1>>
            [] v.k = "surd" -> <<CoefQ(v.a), CoefQ(v.b), v.r>>

(* The radical two denotations share: a plain rational defers to the       *)
(* other's radical; 0 = incompatible (rule N3).                            *)
Rad(x, y) == IF QIsZero(x[2]) THEN y[3]
             ELSE IF QIsZero(y[2]) THEN x[3]
             ELSE IF x[3] = y[3] THEN x[3] ELSE 0
Compatible(x, y) == IsNum(x) /\ IsNum(y) /\ Rad(Den(x), Den(y)) # 0

(* field operations in Q(sqrt r); operands are <<a, b, _>>, result <<a, b>> *)
FAdd(x, y, r) == <<QAdd(x[1], y[1]), QAdd(x[2], y[2])>>
FNeg(x)       == <<QNeg(x[1]), QNeg(x[2])>>
FSub(x, y, r) == <<QSub(x[1], y[1]), QSub(x[2], y[2])>>
FMul(x, y, r) == <<QAdd(QMul(x[1], y[1]), QMul(QMul(x[2], y[2]), QInt(r))),
                   QAdd(QMul(x[1], y[2]), QMul(x[2], y[1]))>>
FIsZero(x)    == QIsZero(x[1]) /\ QIsZero(x[2])
(* field norm N(a + b sqrt r) = a^2 - b^2 r; non-zero for every non-zero    *)
(* element because r is square-free (checked by law NormNonZero)           *)
FNorm(x, r)   == QSub(QMul(x[1], x[1]), QMul(QMul(x[2], x[2]), QInt(r)))
(* 1/y = conj(y) / N(y), y # 0 *)
FInv(y, r)    == LET nn == FNorm(y, r) IN <<QDiv(y[1], nn), QDiv(QNeg(y[2]), nn)>>
FDiv(x, y, r) == FMul(x, FInv(y, r), r)

(* sign of a + b*sqrt(r), r >= 1 not a perfect square unless b = 0.         *)
(* Same signs: that sign.  a > 0 > b: a > |b| sqrt r  <=>  a^2 > b^2 r.     *)
(* a < 0 < b: b sqrt r > |a|  <=>  b^2 r > a^2.                             *)
FSgn(x, r) ==
  LET sa == QSgn(x[1])
      sb == QSgn(x[2])
      dd == QSgn(FNorm(x, r))          \* sign(a^2 - b^2 r)
  IN  IF sb = 0 THEN sa
      ELSE IF sa = 0 THEN sb
      ELSE IF sa = sb THEN sa
      ELSE IF sa > 0 THEN dd ELSE -dd

----------------------------------------------------------------------------
(* canonical forms *)
Lower(q) == IF q[2] = 1 THEN I(q[1]) ELSE R(q[1], q[2])       \* rule F4
RatV(q)  == R(q[1], q[2])                                     \* rule F2/F3
Collapse(x, r) ==                                             \* rule F4
  IF r = 1 THEN Lower(QAdd(x[1], x[2]))
  ELSE IF QIsZero(x[2]) THEN Lower(x[1])
  ELSE S(Lower(x[1]), Lower(x[2]), r)

SquareFree(n) == n > 1 /\ \A j \in 2..n : n % (j * j) # 0
CoefCanonical(c) == \/ c.k = "int"
                    \/ c.k = "rat" /\ c.d >= 2 /\ Gcd(AbsI(c.n), c.d) = 1
(* the module's representation invariant *)
Canonical(v) ==
  CASE v.k = "int"  -> TRUE
    [] v.k = "rat"  -> v.d >= 1 /\ Gcd(AbsI(v.n), v.d) = 1
    [] v.k = "surd" -> /\ CoefCanonical(v.a) /\ CoefCanonical(v.b)
                       /\ ~QIsZero(CoefQ(v.b)) /\ SquareFree(v.r)
    [] v.k \in {"nil", "ok"} -> TRUE
    [] OTHER -> FALSE

----------------------------------------------------------------------------
(* arithmetic *)
AnyNil2(x, y) == IsNil(x) \/ IsNil(y)

(* the form of a binary arithmetic result (rules F2-F4); v = <<a, b>> *)
Form(op, x, y, v, r) ==
  IF IsSurd(x) \/ IsSurd(y) THEN Collapse(v, r)
  ELSE IF op = "div" \/ IsRat(x) \/ IsRat(y) THEN RatV(v[1])
  ELSE I(v[1][1])

Arith(op, x, y) ==
  IF AnyNil2(x, y) THEN Nil                                            \* N1
  ELSE LET dx == Den(x)  dy == Den(y)  r == Rad(dx, dy) IN
       IF r = 0 THEN Nil                                               \* N3
       ELSE IF op = "div" /\ FIsZero(dy) THEN Nil                      \* N2
       ELSE Form(op, x, y,
                 CASE op = "add" -> FAdd(dx, dy, r)
                   [] op = "sub" -> FSub(dx, dy, r)
                   [] op = "mul" -> FMul(dx, dy, r)
                   [] op = "div" -> FDiv(dx, dy, r), r)

Add(x, y) == Arith("add", x, y)
Sub(x, y) == Arith("sub", x, y)
Mul(x, y) == Arith("mul", x, y)
Div(x, y) == Arith("div", x, y)

(* compare: -1 / 0 / 1 as a bare int; nil for a nil operand or mixed radicals *)
Compare(x, y) ==
  IF AnyNil2(x, y) THEN Nil
  ELSE LET dx == Den(x)  dy == Den(y)  r == Rad(dx, dy) IN
       IF r = 0 THEN Nil ELSE I(FSgn(FSub(dx, dy, r), r))

Truth(b) == IF b THEN OkV ELSE Nil
Pred(x, y, allowed) == LET c == Compare(x, y) IN
                       IF IsNil(c) THEN Nil ELSE Truth(c.n \in allowed)
EqP(x, y) == Pred(x, y, {0})
LtP(x, y) == Pred(x, y, {-1})
LeP(x, y) == Pred(x, y, {-1, 0})
GtP(x, y) == Pred(x, y, {1})
GeP(x, y) == Pred(x, y, {0, 1})

Sign(x) == Compare(x, I(0))

Neg(x) == CASE IsNil(x)  -> Nil
            [] IsInt(x)  -> I(-x.n)
            [] IsRat(x)  -> R(-x.n, x.d)
            [] IsSurd(x) -> Collapse(FNeg(Den(x)), x.r)
AbsV(x) == IF IsNil(x) THEN Nil ELSE IF Sign(x).n < 0 THEN Neg(x) ELSE x

Min(x, y) == LET c == Compare(x, y) IN
             IF IsNil(c) THEN Nil ELSE IF c.n = 1 THEN y ELSE x
Max(x, y) == LET c == Compare(x, y) IN
             IF IsNil(c) THEN Nil ELSE IF c.n = -1 THEN y ELSE x
Clamp(x, lo, hi) ==
  IF IsNil(x) \/ IsNil(lo) \/ IsNil(hi) THEN Nil
  ELSE LET c1 == Compare(x, lo) IN
       IF IsNil(c1) THEN Nil
       ELSE IF c1.n = -1 THEN lo
       ELSE LET c2 == Compare(x, hi) IN
            IF IsNil(c2) THEN Nil ELSE IF c2.n = 1 THEN hi ELSE x
(* clamp is only meaningful for a non-empty range *)
ClampDefined(x, lo, hi) == AnyNil2(lo, hi) \/ IsNil(Compare(lo, hi)) \/ Compare(lo, hi).n <= 0

Numer(x) == CASE IsInt(x) -> x [] IsRat(x) -> I(x.n) [] OTHER -> Nil
Denom(x) == CASE IsInt(x) -> I(1) [] IsRat(x) -> I(x.d) [] OTHER -> Nil

(* sqrt(p/q) = sqrt(p q)/q = (k/q) sqrt m, where k^2 is the largest square  *)
(* dividing p q and m = p q / k^2 is square-free.                           *)
LargestSquareRoot(m) == CHOOSE k \in 1..m : /\ m % (k * k) = 0
                                             /\ \A j \in (k + 1)..m : m % (j * j) # 0
Sqrt(x) ==
  IF ~(IsInt(x) \/ IsRat(x)) THEN Nil                         \* N1, N4
  ELSE LET a == Den(x)[1] IN
       IF a[1] < 0 THEN Nil                                   \* N4
       ELSE IF a[1] = 0 THEN I(0)
       ELSE LET m == a[1] * a[2]
                k == LargestSquareRoot(m)
            IN  Collapse(<<Q0, Q(k, a[2])>>, m \div (k * k))

(* integer roundings, defined by their characteristic inequalities through *)
(* the exact order (not by an algorithm)                                   *)
LeV(x, y) == Compare(x, y).n <= 0
LtV(x, y) == Compare(x, y).n < 0
(* an integer bound with |x| < Bound(x): |a| + |b| sqrt r < |a| + 3|b| for r <= 8 *)
Bound(x) == LET d == Den(x) IN
            (AbsI(d[1][1]) \div d[1][2]) + 1 + d[3] * ((AbsI(d[2][1]) \div d[2][2]) + 1)
FloorI(x) == CHOOSE f \in (-Bound(x))..Bound(x) : LeV(I(f), x) /\ LtV(x, I(f + 1))
CeilI(x)  == CHOOSE c \in (-Bound(x))..Bound(x) : LtV(I(c - 1), x) /\ LeV(x, I(c))
Floor(x) == IF IsNil(x) THEN Nil ELSE I(FloorI(x))
Ceil(x)  == IF IsNil(x) THEN Nil ELSE I(CeilI(x))
(* truncation toward zero *)
ToInt(x) == IF IsNil(x) THEN Nil
            ELSE IF Sign(x).n >= 0 THEN I(FloorI(x)) ELSE I(CeilI(x))
(* nearest integer, halves away from zero: the integer n with              *)
(* |x - n| < 1/2, or |x - n| = 1/2 and |n| > |x|                           *)
Round(x) == IF IsNil(x) THEN Nil
            ELSE IF Sign(x).n >= 0 THEN I(FloorI(Add(x, R(1, 2))))
            ELSE I(CeilI(Sub(x, R(1, 2))))

----------------------------------------------------------------------------
(* "huge magnitude" classes.  M is an integer or rational literal beyond    *)
(* anything TLC can represent; only the implementation sees it.  What the  *)
(* specification can still judge are scaling laws whose exact result is    *)
(* small; its FORM is the one obtained with the unit / zero of M's kind    *)
(* (an int M keeps ints ints, a rational M makes the result rational).     *)
HUnit(h) == IF h.kind = "int" THEN I(h.sgn) ELSE R(h.sgn, 1)
HZero(h) == IF h.kind = "int" THEN I(0) ELSE R(0, 1)
HAddSub(x, h)    == Sub(Add(x, HZero(h)), HZero(h))            \* (x + M) - M
HSubAdd(x, h)    == Add(Sub(x, HZero(h)), HZero(h))            \* (x - M) + M
HMulDiv(x, h)    == Div(Mul(x, HUnit(h)), HUnit(h))            \* (x * M) / M
HScaleDiv(x, y, h) == Div(Mul(x, HUnit(h)), Mul(y, HUnit(h)))  \* (x M) / (y M)
HShiftCmp(x, y, h) == Compare(Add(x, HZero(h)), Add(y, HZero(h)))   \* x + M ? y + M
HScaleCmp(x, y, h) == Compare(Mul(x, HUnit(h)), Mul(y, HUnit(h)))   \* x M ? y M
HSign(x, h)      == Sign(Mul(x, HUnit(h)))                     \* sign(x M)

(* compare rendered through the public predicates (num.qv does not export  *)
(* compare): -1 if lt?, 0 if eq?, 1 if gt?, nil if none holds              *)
Cmp3(x, y) == IF LtP(x, y).k = "ok" THEN I(-1)
              ELSE IF EqP(x, y).k = "ok" THEN I(0)
              ELSE IF GtP(x, y).k = "ok" THEN I(1) ELSE Nil

----------------------------------------------------------------------------
(* dispatch by operation name: the specified result of one case *)
UnaryOps   == {"lit", "neg", "abs", "sqrt", "numer", "denom", "floor", "ceil", "round", "to_int", "sign"}
ArithOps   == {"add", "sub", "mul", "div", "compare"}
OrderOps   == {"min", "max", "eq?", "lt?", "le?", "gt?", "ge?"}
HugeUnary  == {"h_addsub", "h_subadd", "h_muldiv", "h_sign"}
HugeBinary == {"h_scalediv", "h_shiftcmp", "h_scalecmp"}

Spec(op, a) ==
  CASE op = "lit"     -> a[1]
    [] op = "neg"     -> Neg(a[1])
    [] op = "abs"     -> AbsV(a[1])
    [] op = "sqrt"    -> Sqrt(a[1])
    [] op = "numer"   -> Numer(a[1])
    [] op = "denom"   -> Denom(a[1])
    [] op = "floor"   -> Floor(a[1])
    [] op = "ceil"    -> Ceil(a[1])
    [] op = "round"   -> Round(a[1])
    [] op = "to_int"  -> ToInt(a[1])
    [] op = "sign"    -> Sign(a[1])
    [] op = "add"     -> Add(a[1], a[2])
    [] op = "sub"     -> Sub(a[1], a[2])
    [] op = "mul"     -> Mul(a[1], a[2])
    [] op = "div"     -> Div(a[1], a[2])
    [] op = "compare" -> Cmp3(a[1], a[2])
    [] op = "min"     -> Min(a[1], a[2])
    [] op = "max"     -> Max(a[1], a[2])
    [] op = "eq?"     -> EqP(a[1], a[2])
    [] op = "lt?"     -> LtP(a[1], a[2])
    [] op = "le?"     -> LeP(a[1], a[2])
    [] op = "gt?"     -> GtP(a[1], a[2])
    [] op = "ge?"     -> GeP(a[1], a[2])
    [] op = "clamp"   -> Clamp(a[1], a[2], a[3])
    [] op = "h_addsub"   -> HAddSub(a[1], a[2])
    [] op = "h_subadd"   -> HSubAdd(a[1], a[2])
    [] op = "h_muldiv"   -> HMulDiv(a[1], a[2])
    [] op = "h_sign"     -> HSign(a[1], a[2])
    [] op = "h_scalediv" -> HScaleDiv(a[1], a[2], a[3])
    [] op = "h_shiftcmp" -> HShiftCmp(a[1], a[2], a[3])
    [] op = "h_scalecmp" -> HScaleCmp(a[1], a[2], a[3])
    [] OTHER -> [k |-> "unknown-op"]

----------------------------------------------------------------------------
(* operand universes *)
Ints     == {I(n) : n \in -12..12}
RatsD    == {R(p[1], p[2]) : p \in {q \in (-12..12) \X (2..6) : Gcd(AbsI(q[1]), q[2]) = 1}}
(* integer-valued rationals are canonical too (4/2 = 2/1 stays a rational) *)
Rats1    == {R(n, 1) : n \in {-12, -3, -1, 0, 1, 2}}
CoefA    == {I(0), I(1), I(-2), R(1, 2), R(-3, 2)}
CoefB    == {I(1), I(-1), I(2), R(-1, 2), R(2, 3)}
CoefAs   == {I(0), I(1), R(-3, 2)}
CoefBs   == {I(1), R(-1, 2)}
SurdsOf(r, A, B) == {S(a, b, r) : a \in A, b \in B}
Surds    == SurdsOf(2, CoefA, CoefB) \cup SurdsOf(3, CoefA, CoefB)
            \cup SurdsOf(5, CoefAs, CoefBs) \cup SurdsOf(6, CoefAs, CoefBs)
Universe == Ints \cup RatsD \cup Rats1 \cup Surds \cup {Nil}

(* boundary values: zero, +-1 in both kinds, nil *)
Special  == {I(0), I(1), I(-1), R(0, 1), R(1, 1), R(-1, 1), Nil}
(* representatives for the mixed-radical boundary class *)
SurdReps == {S(I(0), I(1), r) : r \in {2, 3, 5, 6}} \cup {S(I(1), R(-1, 2), r) : r \in {2, 3, 5, 6}}

(* reduced universes for the order-derived operations, clamp and the laws *)
SmallU == {I(n) : n \in {-12, -2, -1, 0, 1, 2, 3, 7}}
          \cup {R(-7, 2), R(-1, 2), R(1, 2), R(3, 2), R(2, 3), R(-5, 3), R(11, 4), R(-12, 5), R(5, 6),
                R(0, 1), R(1, 1), R(2, 1), R(-3, 1)}
          \cup SurdsOf(2, {I(0), I(1), I(-2), R(1, 2)}, {I(1), I(-1), R(-1, 2), R(2, 3)})
          \cup SurdsOf(3, {I(0), I(1), R(-3, 2)}, {I(1), I(-1), R(-1, 2)})
          \cup SurdsOf(5, {I(0), R(-3, 2)}, {I(1), R(-1, 2)})
          \cup {Nil}
TinyU  == {I(-2), I(0), I(1), I(3), R(1, 2), R(-3, 2), R(2, 1), R(7, 3),
           S(I(0), I(1), 2), S(I(1), R(-1, 2), 2), S(I(-2), I(1), 2), S(I(0), I(1), 3), S(R(-3, 2), I(1), 3),
           Nil}

=============================================================================
