SPECIFICATION ObsSpec
CHECK_DEADLOCK FALSE
POSTCONDITION ObsDone
