//! Instrumented in-memory effect backend: files are in-memory byte vectors, every call is logged.

use crate::E;
use quiver_core::effects::{EffectBackend, EffectError, EffectResult, ResultTupleInfo};
use quiver_core::error::Error;
use quiver_core::process::ProcessId;
use quiver_core::value::{Binary, ResourceId, Value};
use quiver_io::NativeEffect;
use std::collections::{BTreeMap, VecDeque};
use std::sync::{Arc, Mutex};

#[derive(Debug, Clone)]
pub enum BackendCall {
    /// `execute(pid, effect)`; `res` is the resource the effect operates on, `created` the
    /// resource it created, `ok` whether the backend reported success.
    Execute {
        pid: ProcessId,
        op: String,
        res: Option<ResourceId>,
        created: Option<ResourceId>,
        ok: bool,
    },
    Close {
        res: ResourceId,
        was_open: bool,
    },
}

#[derive(Default)]
pub struct BackendState {
    pub log: Vec<BackendCall>,
    pub open: BTreeMap<ResourceId, Vec<u8>>,
    pub next: ResourceId,
    pub file_type: usize,
    pub deferred: bool,
    pub pending: VecDeque<(ProcessId, EffectResult)>,
}

pub struct SimBackend(pub Arc<Mutex<BackendState>>);

impl SimBackend {
    pub fn new(deferred: bool) -> (Self, Arc<Mutex<BackendState>>) {
        let st = Arc::new(Mutex::new(BackendState {
            next: 1,
            deferred,
            ..Default::default()
        }));
        (SimBackend(st.clone()), st)
    }
}

fn op_name(e: &NativeEffect) -> &'static str {
    match e {
        NativeEffect::FileOpen { .. } => "open",
        NativeEffect::FileRead { .. } => "use",
        NativeEffect::FileWrite { .. } => "write",
        NativeEffect::FileFlush { .. } => "flush",
        NativeEffect::FileClose { .. } => "close",
        _ => "other",
    }
}

impl EffectBackend for SimBackend {
    type E = E;

    fn execute(
        &mut self,
        process_id: ProcessId,
        effect: Self::E,
    ) -> Result<Option<EffectResult>, Error> {
        use quiver_core::effects::Effect;
        let mut st = self.0.lock().unwrap();
        let res = effect.resource_id();
        let mut created = None;
        let result: EffectResult = match &effect {
            NativeEffect::FileOpen { path, .. } => {
                if path.first() == Some(&b'!') {
                    // paths starting with '!' do not exist: an effect error
                    Err(EffectError::NotFound(String::from_utf8_lossy(path).into()))
                } else {
                    let id = st.next;
                    st.next += 1;
                    st.open.insert(id, path.clone());
                    created = Some(id);
                    Ok((Value::Resource(id, st.file_type), vec![]))
                }
            }
            NativeEffect::FileRead {
                resource_id,
                length,
                ..
            } => match st.open.get(resource_id) {
                Some(content) => {
                    let n = (*length).min(content.len());
                    Ok((Value::Binary(Binary::Heap(0)), vec![content[..n].to_vec()]))
                }
                None => Err(EffectError::InvalidArgument("closed".into())),
            },
            NativeEffect::FileWrite {
                resource_id, data, ..
            } => match st.open.get_mut(resource_id) {
                Some(content) => {
                    content.extend_from_slice(data);
                    Ok((Value::Integer(data.len().into()), vec![]))
                }
                None => Err(EffectError::InvalidArgument("closed".into())),
            },
            NativeEffect::FileFlush { resource_id } => {
                if st.open.contains_key(resource_id) {
                    Ok((Value::ok(), vec![]))
                } else {
                    Err(EffectError::InvalidArgument("closed".into()))
                }
            }
            NativeEffect::FileClose { resource_id } => {
                if st.open.remove(resource_id).is_some() {
                    Ok((Value::ok(), vec![]))
                } else {
                    Err(EffectError::InvalidArgument("closed".into()))
                }
            }
            _ => Err(EffectError::Other("unsupported in simulation".into())),
        };
        let ok = result.is_ok();
        st.log.push(BackendCall::Execute {
            pid: process_id,
            op: op_name(&effect).to_string(),
            res,
            created,
            ok,
        });
        if st.deferred {
            st.pending.push_back((process_id, result));
            Ok(None)
        } else {
            Ok(Some(result))
        }
    }

    fn process_completions(&mut self) -> Vec<(ProcessId, EffectResult)> {
        let mut st = self.0.lock().unwrap();
        st.pending.drain(..).collect()
    }

    fn close_resource(&mut self, resource_id: ResourceId) {
        let mut st = self.0.lock().unwrap();
        let was_open = st.open.remove(&resource_id).is_some();
        st.log.push(BackendCall::Close {
            res: resource_id,
            was_open,
        });
    }

    fn set_type_ids(&mut self, resources: &[String], _results: &[(String, ResultTupleInfo)]) {
        let mut st = self.0.lock().unwrap();
        if let Some(i) = resources.iter().position(|r| r == "File") {
            st.file_type = i;
        }
    }
}
