//! qsim: a deterministic, single-threaded simulator of the real quiver runtime
//! (real `Environment`, real `Worker`s, real `Repl`) over in-memory channels whose visibility
//! is controlled by the schedule.  Every atomic step is recorded as one JSON trace record.

pub mod backend;
pub mod chan;
pub mod project;
pub mod rng;
pub mod sim;

pub type E = quiver_io::NativeEffect;
