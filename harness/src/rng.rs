//! Small deterministic PRNG (splitmix64) so that every random choice is a function of VERIF_SEED.

#[derive(Clone)]
pub struct Rng(pub u64);

impl Rng {
    pub fn new(seed: u64) -> Self {
        Rng(seed.wrapping_mul(0x9E37_79B9_7F4A_7C15).wrapping_add(0x1234_5678_9ABC_DEF1))
    }
    pub fn next(&mut self) -> u64 {
        self.0 = self.0.wrapping_add(0x9E37_79B9_7F4A_7C15);
        let mut z = self.0;
        z = (z ^ (z >> 30)).wrapping_mul(0xBF58_476D_1CE4_E5B9);
        z = (z ^ (z >> 27)).wrapping_mul(0x94D0_49BB_1331_11EB);
        z ^ (z >> 31)
    }
    /// Uniform in 0..n (n > 0).
    pub fn below(&mut self, n: usize) -> usize {
        (self.next() % (n as u64)) as usize
    }
    pub fn chance(&mut self, num: usize, den: usize) -> bool {
        self.below(den) < num
    }
    pub fn pick<'a, T>(&mut self, xs: &'a [T]) -> &'a T {
        &xs[self.below(xs.len())]
    }
}
