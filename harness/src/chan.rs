//! In-memory channels with a visibility budget: `try_recv` hands out at most `budget` *modelled*
//! items; bookkeeping items the model does not describe (program updates, inspector requests)
//! pass for free, in order.

use crate::E;
use quiver_environment::{
    Command, CommandReceiver, EnvironmentError, Event, EventSender, WorkerHandle,
};
use std::collections::VecDeque;
use std::sync::{Arc, Mutex};

pub fn cmd_modelled(c: &Command<E>) -> bool {
    matches!(
        c,
        Command::SpawnProcess { .. }
            | Command::ResumeProcess { .. }
            | Command::QueryAndAwait { .. }
            | Command::UpdateAwaitResults { .. }
            | Command::DeliverMessage { .. }
            | Command::NotifySpawn { .. }
            | Command::GetResult { .. }
            | Command::EffectCompletion { .. }
    )
}

pub fn evt_modelled(e: &Event<E>) -> bool {
    matches!(
        e,
        Event::SpawnAction { .. }
            | Event::DeliverAction { .. }
            | Event::AwaitAction { .. }
            | Event::ProcessResults { .. }
            | Event::ResultResponse { .. }
            | Event::EffectRequest { .. }
    )
}

#[derive(Default)]
pub struct CmdChan {
    pub q: VecDeque<Command<E>>,
    pub budget: usize,
    /// Commands handed to the worker since the log was last taken.
    pub taken: Vec<Command<E>>,
}

#[derive(Default)]
pub struct EvtChan {
    pub q: VecDeque<Event<E>>,
    pub budget: usize,
    pub taken: Vec<Event<E>>,
}

pub type SharedCmd = Arc<Mutex<CmdChan>>;
pub type SharedEvt = Arc<Mutex<EvtChan>>;

pub struct SimReceiver(pub SharedCmd);

impl CommandReceiver<E> for SimReceiver {
    fn try_recv(&mut self) -> Result<Option<Command<E>>, EnvironmentError> {
        let mut ch = self.0.lock().unwrap();
        let Some(head) = ch.q.front() else {
            return Ok(None);
        };
        if cmd_modelled(head) {
            if ch.budget == 0 {
                return Ok(None);
            }
            ch.budget -= 1;
        }
        let c = ch.q.pop_front().unwrap();
        ch.taken.push(c.clone());
        Ok(Some(c))
    }
}

pub struct SimSender(pub SharedEvt);

impl EventSender<E> for SimSender {
    fn send(&mut self, event: Event<E>) -> Result<(), EnvironmentError> {
        self.0.lock().unwrap().q.push_back(event);
        Ok(())
    }
}

pub struct SimHandle {
    pub cmd: SharedCmd,
    pub evt: SharedEvt,
}

impl WorkerHandle<E> for SimHandle {
    fn send(&mut self, command: Command<E>) -> Result<(), EnvironmentError> {
        self.cmd.lock().unwrap().q.push_back(command);
        Ok(())
    }
    fn try_recv(&mut self) -> Result<Option<Event<E>>, EnvironmentError> {
        let mut ch = self.evt.lock().unwrap();
        let Some(head) = ch.q.front() else {
            return Ok(None);
        };
        if evt_modelled(head) {
            if ch.budget == 0 {
                return Ok(None);
            }
            ch.budget -= 1;
        }
        let e = ch.q.pop_front().unwrap();
        ch.taken.push(e.clone());
        Ok(Some(e))
    }
}
