//! Projection of real runtime values and state to the abstract JSON alphabet shared with the
//! TLA+ specifications.  Every value is a record with a kind field `k`, so that TLC can compare
//! any two values without a type error.

use num_traits::ToPrimitive;
use quiver_core::bytecode::Constant;
use quiver_core::program::Program;
use quiver_core::value::{Binary, Value};
use serde_json::{Value as J, json};

/// Where `Binary::Heap(i)` points: an executor heap or the heap vector that travels with a message.
pub trait HeapSrc {
    fn bytes(&self, idx: usize) -> Option<Vec<u8>>;
}

impl HeapSrc for Vec<Vec<u8>> {
    fn bytes(&self, idx: usize) -> Option<Vec<u8>> {
        self.get(idx).cloned()
    }
}
impl HeapSrc for [Vec<u8>] {
    fn bytes(&self, idx: usize) -> Option<Vec<u8>> {
        self.get(idx).cloned()
    }
}

pub struct NoHeap;
impl HeapSrc for NoHeap {
    fn bytes(&self, _idx: usize) -> Option<Vec<u8>> {
        None
    }
}

/// Where tuple names and constants come from: the merged `Program` of an environment, or a
/// (tree-shaken, re-read, ...) `Bytecode`.
pub trait Tables {
    fn tuple(&self, id: usize) -> Option<&quiver_core::types::TupleTypeInfo>;
    fn constant(&self, id: usize) -> Option<&Constant>;
}
impl Tables for Program {
    fn tuple(&self, id: usize) -> Option<&quiver_core::types::TupleTypeInfo> {
        self.get_tuples().get(id)
    }
    fn constant(&self, id: usize) -> Option<&Constant> {
        self.get_constants().get(id)
    }
}
impl Tables for quiver_core::bytecode::Bytecode {
    fn tuple(&self, id: usize) -> Option<&quiver_core::types::TupleTypeInfo> {
        self.tuples.get(id)
    }
    fn constant(&self, id: usize) -> Option<&Constant> {
        self.constants.get(id)
    }
}

pub fn tuple_name<T: Tables + ?Sized>(program: &T, id: usize) -> String {
    match program.tuple(id) {
        Some(info) => {
            let mut s = info.name.clone().unwrap_or_default();
            let labels: Vec<String> = info
                .fields
                .iter()
                .map(|(l, _)| l.clone().unwrap_or_default())
                .collect();
            if labels.iter().any(|l| !l.is_empty()) {
                s.push('(');
                s.push_str(&labels.join(","));
                s.push(')');
            }
            s
        }
        None => format!("?{id}"),
    }
}

pub fn pv<T: Tables + ?Sized, H: HeapSrc + ?Sized>(program: &T, heap: &H, v: &Value) -> J {
    match v {
        Value::Integer(n) => match n.to_i32() {
            Some(i) => json!({"k": "int", "n": i}),
            None => json!({"k": "bigint", "s": n.to_string()}),
        },
        Value::Binary(Binary::Heap(i)) => match heap.bytes(*i) {
            Some(b) => json!({"k": "bin", "b": b}),
            None => json!({"k": "bin", "b": [], "dangling": i}),
        },
        Value::Binary(Binary::Constant(i)) => match program.constant(*i) {
            Some(Constant::Binary(b)) => json!({"k": "bin", "b": b}),
            _ => json!({"k": "bin", "b": [], "dangling": i}),
        },
        Value::Reference(r) => json!({"k": "ref", "w": (r >> 48) as u32, "c": (r & 0xFFFF_FFFF) as u32}),
        Value::Tuple(id, fs) => {
            if v.is_nil() {
                json!({"k": "nil"})
            } else {
                let fields: Vec<J> = fs.iter().map(|f| pv(program, heap, f)).collect();
                json!({"k": "tup", "name": tuple_name(program, *id), "fs": fields})
            }
        }
        Value::Function(f, caps) => {
            let caps: Vec<J> = caps.iter().map(|c| pv(program, heap, c)).collect();
            json!({"k": "fn", "f": f, "caps": caps})
        }
        Value::Builtin(i) => json!({"k": "builtin", "i": i}),
        Value::Process(p, _) => json!({"k": "pid", "p": p}),
        Value::Resource(r, _) => json!({"k": "res", "r": r}),
    }
}

/// Heap slots referenced by a value (the harness's own walk; not `reachable_heap_indices`).
pub fn heap_refs(v: &Value, out: &mut Vec<usize>) {
    match v {
        Value::Binary(Binary::Heap(i)) => out.push(*i),
        Value::Tuple(_, fs) | Value::Function(_, fs) => {
            for f in fs.iter() {
                heap_refs(f, out);
            }
        }
        _ => {}
    }
}

pub fn opt(v: Option<J>) -> J {
    match v {
        Some(x) => J::Array(vec![x]),
        None => J::Array(vec![]),
    }
}

pub fn err_class(e: &quiver_core::error::Error) -> String {
    use quiver_core::error::Error as X;
    match e {
        X::StackUnderflow => "StackUnderflow".into(),
        X::CallInvalid => "CallInvalid".into(),
        X::FunctionUndefined(_) => "FunctionUndefined".into(),
        X::BuiltinUndefined(_) => "BuiltinUndefined".into(),
        X::FrameUnderflow => "FrameUnderflow".into(),
        X::VariableUndefined(_) => "VariableUndefined".into(),
        X::ConstantUndefined(_) => "ConstantUndefined".into(),
        X::FieldAccessInvalid(_) => "FieldAccessInvalid".into(),
        X::TypeMismatch { .. } => "TypeMismatch".into(),
        X::ArityMismatch { .. } => "ArityMismatch".into(),
        X::InvalidArgument(m) => format!("InvalidArgument:{m}"),
        X::TupleEmpty => "TupleEmpty".into(),
        X::OperationNotAllowed { operation, .. } => format!("OperationNotAllowed:{operation}"),
        X::ScopeCountInvalid { .. } => "ScopeCountInvalid".into(),
        X::ScopeUnderflow => "ScopeUnderflow".into(),
    }
}
