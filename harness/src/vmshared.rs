//! Shared by `bcdump` and `vmtrace` (included with `#[path]`, not part of the library):
//! a compile-only replica of `Repl::evaluate` (parse, compact the binding indices, compile
//! against the accumulated program, wrap the instructions in an entry function) and the JSON
//! encoding of bytecode tables and instructions.
#![allow(dead_code)]

use qharness::E;
use quiver_compiler::compiler::{Binding, ModuleCache};
use quiver_compiler::{Compiler, PackageResolver};
use quiver_core::builtins::BuiltinRegistry;
use quiver_core::bytecode::{Bytecode, Function, Instruction};
use quiver_core::program::Program;
use quiver_core::types::{Type, TypeLookup};
use serde_json::{Value as J, json};
use std::collections::HashMap;
use std::panic::{AssertUnwindSafe, catch_unwind};

pub fn registry(io: bool) -> BuiltinRegistry<E> {
    let mut b = BuiltinRegistry::<E>::with_modules(&quiver_core::builtins::core_modules());
    if io {
        quiver_io::attach_file_builtins(&mut b);
        quiver_io::attach_network_builtins(&mut b);
    }
    b
}

pub fn modules_of(j: &J) -> HashMap<Vec<String>, String> {
    let mut modules = HashMap::new();
    if let Some(J::Object(m)) = j.get("modules") {
        for (name, src) in m {
            let path: Vec<String> = name.split('/').map(|s| s.to_string()).collect();
            modules.insert(path, src.as_str().unwrap_or("").to_string());
        }
    }
    modules
}

pub fn lines_of(j: &J) -> Vec<String> {
    match j.get("lines") {
        Some(J::Array(a)) => a
            .iter()
            .map(|x| x.as_str().unwrap_or("").to_string())
            .collect(),
        _ => vec![j["src"].as_str().unwrap_or("").to_string()],
    }
}

pub fn panic_msg(p: Box<dyn std::any::Any + Send>) -> String {
    if let Some(s) = p.downcast_ref::<&str>() {
        s.to_string()
    } else if let Some(s) = p.downcast_ref::<String>() {
        s.clone()
    } else {
        "panic".to_string()
    }
}

pub fn instr_json(i: &Instruction) -> J {
    use Instruction as I;
    match i {
        I::Constant(a) => json!({"op": "Constant", "a": a}),
        I::Pop => json!({"op": "Pop", "a": 0}),
        I::Duplicate => json!({"op": "Duplicate", "a": 0}),
        I::Pick(a) => json!({"op": "Pick", "a": a}),
        I::Rotate(a) => json!({"op": "Rotate", "a": a}),
        I::Reset(a) => json!({"op": "Reset", "a": a}),
        I::Load(a) => json!({"op": "Load", "a": a}),
        I::Store => json!({"op": "Store", "a": 0}),
        I::Tuple(a) => json!({"op": "Tuple", "a": a}),
        I::Get(a) => json!({"op": "Get", "a": a}),
        I::IsType(a) => json!({"op": "IsType", "a": a}),
        I::Jump(a) => json!({"op": "Jump", "a": a}),
        I::JumpIf(a) => json!({"op": "JumpIf", "a": a}),
        I::Call => json!({"op": "Call", "a": 0}),
        I::TailCall(r) => json!({"op": "TailCall", "a": if *r { 1 } else { 0 }}),
        I::Function(a) => json!({"op": "Function", "a": a}),
        I::Builtin(a) => json!({"op": "Builtin", "a": a}),
        I::Equal(a) => json!({"op": "Equal", "a": a}),
        I::Not => json!({"op": "Not", "a": 0}),
        I::Spawn => json!({"op": "Spawn", "a": 0}),
        I::Send => json!({"op": "Send", "a": 0}),
        I::Self_ => json!({"op": "Self", "a": 0}),
        I::Select => json!({"op": "Select", "a": 0}),
        I::Process(p, f) => json!({"op": "Process", "a": p, "b": f}),
    }
}

pub fn code_json(f: &Function) -> J {
    J::Array(f.instructions.iter().map(instr_json).collect())
}

/// Table sizes of a bytecode image: constants, tuple arities, types, captures per function,
/// the callable type id of each function, builtins.
pub fn tables_json(
    nconst: usize,
    arity: Vec<usize>,
    ntypes: usize,
    functions: &[Function],
    nbuiltins: usize,
) -> J {
    json!({
        "nconst": nconst,
        "arity": arity,
        "ntypes": ntypes,
        "caps": functions.iter().map(|f| f.captures).collect::<Vec<_>>(),
        "tids": functions.iter().map(|f| f.type_id).collect::<Vec<_>>(),
        "nbuiltins": nbuiltins,
    })
}

pub fn bytecode_tables(bc: &Bytecode) -> J {
    tables_json(
        bc.constants.len(),
        bc.tuples.iter().map(|t| t.fields.len()).collect(),
        bc.types.len(),
        &bc.functions,
        bc.builtins.len(),
    )
}

pub fn program_tables(p: &Program) -> J {
    tables_json(
        p.get_constants().len(),
        p.get_tuples().iter().map(|t| t.fields.len()).collect(),
        p.get_types().len(),
        p.get_functions(),
        p.get_builtins().len(),
    )
}

pub fn fns_json(functions: &[Function]) -> J {
    J::Array(
        functions
            .iter()
            .enumerate()
            .map(|(i, f)| json!({"fi": i, "code": code_json(f)}))
            .collect(),
    )
}

/// One compiled REPL line.
pub struct Line {
    /// index of the wrapper function in `Session::program`
    pub fi: usize,
    /// locals present when the wrapper starts (the variables bound by earlier lines)
    pub l0: usize,
    /// locals the next line will rely on (highest binding index + 1 after this line)
    pub keep: usize,
}

pub enum LineResult {
    Code(Line),
    NoCode,
    Rejected(String),
    Panic(String),
}

/// Compile-only replica of `quiver_environment::Repl` (nothing is executed except what the
/// compiler itself runs: imported modules).
pub struct Session {
    pub program: Program,
    pub bindings: HashMap<String, Binding>,
    pub module_cache: ModuleCache,
    pub last_result_type: Type,
    pub resolver: PackageResolver,
    pub builtins: BuiltinRegistry<E>,
    /// every wrapper function created so far: (function index, entry locals, keep)
    pub entries: Vec<(usize, usize, usize)>,
}

impl Session {
    pub fn new(modules: HashMap<Vec<String>, String>, io: bool) -> Self {
        Session {
            program: Program::new(),
            bindings: HashMap::new(),
            module_cache: ModuleCache::new(),
            last_result_type: Type::nil(),
            resolver: PackageResolver::memory(modules),
            builtins: registry(io),
            entries: Vec::new(),
        }
    }

    fn compact(&mut self) {
        let mut keep: Vec<usize> = self
            .bindings
            .values()
            .filter_map(|b| match b {
                Binding::Variable { index, .. } => Some(*index),
                _ => None,
            })
            .collect();
        keep.sort();
        let map: HashMap<usize, usize> = keep.iter().enumerate().map(|(n, o)| (*o, n)).collect();
        for b in self.bindings.values_mut() {
            if let Binding::Variable { index, .. } = b {
                *index = map[index];
            }
        }
    }

    pub fn compile_line(&mut self, source: &str) -> LineResult {
        let r = catch_unwind(AssertUnwindSafe(|| self.compile_line_inner(source)));
        match r {
            Ok(x) => x,
            Err(p) => LineResult::Panic(panic_msg(p)),
        }
    }

    fn compile_line_inner(&mut self, source: &str) -> LineResult {
        let parsed = match quiver_compiler::parse(source) {
            Ok(p) => p,
            Err(e) => return LineResult::Rejected(format!("parse: {e}")),
        };
        self.compact();
        let mut program = self.program.clone();
        let mut module_cache = self.module_cache.clone();
        let last_id = program.register_type(self.last_result_type.clone());
        let l0 = self
            .bindings
            .values()
            .filter_map(|b| match b {
                Binding::Variable { index, .. } => Some(*index + 1),
                _ => None,
            })
            .max()
            .unwrap_or(0);
        let no_process_types = HashMap::new();
        let result = match Compiler::compile(
            parsed,
            &self.bindings,
            &mut module_cache,
            &self.resolver,
            &mut program,
            last_id,
            &no_process_types,
            &self.builtins,
            None,
        ) {
            Ok(r) => r,
            Err(e) => return LineResult::Rejected(format!("compile: {:?}", e.error)),
        };
        let result_type = program
            .lookup_type(result.result_type)
            .cloned()
            .unwrap_or_else(Type::nil);
        self.bindings = result.bindings;
        self.module_cache = module_cache;
        self.last_result_type = result_type;
        let keep = self
            .bindings
            .values()
            .filter_map(|b| match b {
                Binding::Variable { index, .. } => Some(*index + 1),
                _ => None,
            })
            .max()
            .unwrap_or(0);
        let out = if !result.instructions.is_empty() {
            let callable = program.register_type(Type::Callable {
                parameter: last_id,
                result: result.result_type,
                receive: result.receive_type,
            });
            let fi = program.register_function(Function {
                instructions: result.instructions,
                captures: 0,
                type_id: callable,
            });
            self.entries.push((fi, l0, keep));
            LineResult::Code(Line { fi, l0, keep })
        } else {
            LineResult::NoCode
        };
        self.program = program;
        out
    }
}

/// `quiver_core::execute::execute_bytecode_sync` up to (not including) its run loop: a fresh
/// executor loaded with the whole image and one non-persistent process 0 at the entry function.
pub fn setup_executor(
    bytecode: Bytecode,
    builtins: &BuiltinRegistry<E>,
) -> Result<quiver_core::Executor<E>, String> {
    use quiver_core::compatibility::{
        CompatibilityInput, compute_canonical_tuples, compute_param_compatibility,
        compute_type_compatibility,
    };
    use quiver_core::executor::ProgramUpdate;
    let entry = bytecode.entry.ok_or("no entry")?;
    let mut executor = quiver_core::Executor::new(builtins.clone(), false, 0);
    if bytecode.tuples.len() < 2 {
        return Err("bytecode lacks NIL/OK tuples".into());
    }
    let input = CompatibilityInput {
        types: &bytecode.types,
        tuples: &bytecode.tuples,
        functions: &bytecode.functions,
        builtins: &bytecode.builtins,
        resource_names: &bytecode.resources,
    };
    let type_compatibility = compute_type_compatibility(&input);
    let canonical_tuples = compute_canonical_tuples(&bytecode.tuples);
    let (function_param_compatibility, builtin_param_compatibility) =
        compute_param_compatibility(&input);
    let update = ProgramUpdate {
        constants: bytecode.constants,
        functions: bytecode.functions,
        tuples: bytecode.tuples[2..].to_vec(),
        types: bytecode.types,
        builtins: bytecode.builtins,
        resources: bytecode.resources,
        type_compatibility,
        function_param_compatibility,
        builtin_param_compatibility,
        canonical_tuples,
    };
    executor.update_program(update);
    executor
        .spawn_process(
            0,
            Some(entry),
            vec![],
            quiver_core::value::Value::nil(),
            vec![],
            false,
        )
        .map_err(|e| format!("spawn: {e:?}"))?;
    Ok(executor)
}
