//! The simulator: real Environment + N real Workers + real Repl, stepped one atomic step at a time.

use crate::backend::{BackendCall, BackendState, SimBackend};
use crate::chan::{
    CmdChan, EvtChan, SharedCmd, SharedEvt, SimHandle, SimReceiver, SimSender, cmd_modelled,
    evt_modelled,
};
use crate::project::{HeapSrc, err_class, heap_refs, opt, pv};
use crate::rng::Rng;
use crate::E;
use quiver_compiler::PackageResolver;
use quiver_core::builtins::BuiltinRegistry;
use quiver_core::program::Program;
use quiver_core::value::Value;
use quiver_core::verif as hook;
use quiver_environment::{
    Command, Environment, Event, Repl, ReplError, RequestResult, Worker, WorkerHandle,
};
use serde_json::{Value as J, json};
use std::collections::HashMap;
use std::panic::{AssertUnwindSafe, catch_unwind};
use std::sync::{Arc, Mutex};

pub const ALL: usize = usize::MAX;

#[derive(Debug, Clone, PartialEq)]
pub enum Step {
    /// Environment handles up to `n` queued events of worker `w` (ALL = every queued event of
    /// every worker, i.e. the real `Environment::step`).
    Env { w: usize, n: usize },
    /// Worker `w` sees the first `k` queued commands, runs one slice of at most `q` units.
    Worker { w: usize, k: usize, q: usize },
    Tick { d: u64 },
    /// marker in a stored schedule: the host submitted the next line of the session here
    Line,
}

#[derive(Debug, Clone)]
pub enum Outcome {
    Value(J),
    RuntimeError(String),
    /// parse / compile error, or no executable code
    Rejected(String),
    NoCode,
}

pub struct ExecHeap<'a>(pub &'a [Vec<u8>]);
impl HeapSrc for ExecHeap<'_> {
    fn bytes(&self, idx: usize) -> Option<Vec<u8>> {
        self.0.get(idx).cloned()
    }
}

pub struct SimConfig {
    pub workers: usize,
    pub io: bool,
    pub deferred_io: bool,
    pub record: bool,
    pub modules: HashMap<Vec<String>, String>,
}

impl Default for SimConfig {
    fn default() -> Self {
        SimConfig {
            workers: 2,
            io: false,
            deferred_io: false,
            record: true,
            modules: HashMap::new(),
        }
    }
}

pub struct Sim {
    pub env: Environment<E>,
    pub repl: Repl<E>,
    pub workers: Vec<Worker<E, SimReceiver, SimSender>>,
    pub dead: Vec<bool>,
    pub cmds: Vec<SharedCmd>,
    pub evts: Vec<SharedEvt>,
    pub now: u64,
    pub backend: Option<Arc<Mutex<BackendState>>>,
    backend_seen: usize,
    pub trace: Vec<J>,
    pub record: bool,
    /// Panics and `Err`s returned by `Worker::step` / `Environment::step`.
    pub crashes: Vec<String>,
    pub request: Option<u64>,
    pub outcome: Option<Outcome>,
    /// the raw value (with its heap) behind `outcome`, when it is a value
    pub raw_outcome: Option<(Value, Vec<Vec<u8>>)>,
    pub schedule: Vec<Step>,
    pub steps_done: usize,
    /// session lines: the run loops may stop as soon as the host has the line's result (the next
    /// line is then submitted while other processes are still running)
    pub stop_on_outcome: bool,
}

fn res_json(program: &Program, r: &Result<(Value, Vec<Vec<u8>>), quiver_core::error::Error>) -> J {
    match r {
        Ok((v, heap)) => json!({"ok": true, "v": pv(program, heap, v)}),
        Err(e) => json!({"ok": false, "e": err_class(e)}),
    }
}

fn results_json(
    program: &Program,
    results: &HashMap<usize, Option<Result<(Value, Vec<Vec<u8>>), quiver_core::error::Error>>>,
) -> J {
    let mut keys: Vec<&usize> = results.keys().collect();
    keys.sort();
    J::Array(
        keys.into_iter()
            .map(|t| json!([t, opt(results[t].as_ref().map(|r| res_json(program, r)))]))
            .collect(),
    )
}

pub fn cmd_json(program: &Program, c: &Command<E>) -> J {
    match c {
        Command::SpawnProcess {
            id,
            function_index,
            captures,
            argument,
            heap_data,
        } => json!({"t": "SpawnProcess", "id": id, "f": function_index,
            "arg": pv(program, heap_data, argument),
            "caps": captures.iter().map(|c| pv(program, heap_data, c)).collect::<Vec<_>>()}),
        Command::ResumeProcess { id, .. } => json!({"t": "ResumeProcess", "id": id}),
        Command::QueryAndAwait { awaiter, targets } => {
            json!({"t": "QueryAndAwait", "a": awaiter, "ts": targets})
        }
        Command::UpdateAwaitResults { awaiter, results } => {
            json!({"t": "UpdateAwaitResults", "a": awaiter, "rs": results_json(program, results)})
        }
        Command::DeliverMessage {
            target,
            message,
            heap,
        } => json!({"t": "DeliverMessage", "to": target, "m": pv(program, heap, message)}),
        Command::NotifySpawn {
            process_id,
            spawned_pid,
            ..
        } => json!({"t": "NotifySpawn", "p": process_id, "pid": spawned_pid}),
        Command::GetResult { process_id, .. } => json!({"t": "GetResult", "p": process_id}),
        Command::EffectCompletion {
            process_id,
            result,
            heap,
        } => match result {
            Ok(v) => json!({"t": "EffectCompletion", "p": process_id, "ok": true,
                "v": pv(program, heap, v)}),
            Err(m) => json!({"t": "EffectCompletion", "p": process_id, "ok": false, "e": m}),
        },
        Command::UpdateProgram(_) => json!({"t": "UpdateProgram"}),
        Command::StartProcess { id, .. } => json!({"t": "StartProcess", "id": id}),
        Command::CompactLocals {
            process_id,
            keep_indices,
        } => json!({"t": "CompactLocals", "p": process_id, "keep": keep_indices}),
        _ => json!({"t": "Other"}),
    }
}

pub fn evt_json(program: &Program, e: &Event<E>) -> J {
    use quiver_core::effects::Effect;
    match e {
        Event::SpawnAction {
            caller,
            function_index,
            captures,
            argument,
            heap,
        } => json!({"t": "SpawnAction", "c": caller, "f": function_index,
            "arg": pv(program, heap, argument),
            "caps": captures.iter().map(|c| pv(program, heap, c)).collect::<Vec<_>>()}),
        Event::DeliverAction {
            target,
            message,
            heap,
        } => json!({"t": "DeliverAction", "to": target, "m": pv(program, heap, message)}),
        Event::AwaitAction { awaiter, targets } => {
            json!({"t": "AwaitAction", "a": awaiter, "ts": targets})
        }
        Event::ProcessResults { awaiter, results } => {
            json!({"t": "ProcessResults", "a": awaiter, "rs": results_json(program, results)})
        }
        Event::ResultResponse { result, .. } => {
            json!({"t": "ResultResponse", "r": res_json(program, result)})
        }
        Event::EffectRequest { process_id, effect } => {
            json!({"t": "EffectRequest", "p": process_id, "op": format!("{:?}", effect).split([' ', '{']).next().unwrap_or(""),
                "res": opt(effect.resource_id().map(|r| json!(r)))})
        }
        Event::WorkerError { error } => json!({"t": "WorkerError", "e": format!("{error}")}),
        _ => json!({"t": "Other"}),
    }
}

fn hook_json(program: &Program, heap: &ExecHeap, ev: &hook::Event) -> J {
    match ev {
        hook::Event::Run { pid } => json!({"op": "run", "p": pid}),
        hook::Event::Units { pid, units } => json!({"op": "units", "p": pid, "n": units}),
        hook::Event::Expired { pids } => json!({"op": "expired", "ps": pids}),
        hook::Event::SelectInit {
            pid,
            sources,
            targets,
            now,
        } => json!({"op": "select_init", "p": pid, "recv": sources, "ts": targets, "now": now}),
        hook::Event::SelectComplete { pid, source, value } => {
            json!({"op": "select_complete", "p": pid, "src": source + 1, "v": pv(program, heap, value)})
        }
        hook::Event::FilterCall {
            pid,
            receive,
            message,
        } => json!({"op": "filter_call", "p": pid, "recv": receive + 1, "msg": message + 1}),
        hook::Event::FilterVerdict {
            pid,
            receive,
            accepted,
        } => json!({"op": "filter_verdict", "p": pid, "recv": receive + 1, "acc": accepted}),
        hook::Event::SelectPark { pid } => json!({"op": "select_park", "p": pid}),
        hook::Event::Failed { pid } => json!({"op": "failed", "p": pid}),
    }
}

fn fnv30(bytes: &[u8]) -> u32 {
    let mut h: u32 = 0x811c9dc5;
    for b in bytes {
        h ^= *b as u32;
        h = h.wrapping_mul(0x01000193);
    }
    h & 0x3FFF_FFFF
}

fn panic_msg(p: Box<dyn std::any::Any + Send>) -> String {
    if let Some(s) = p.downcast_ref::<&str>() {
        s.to_string()
    } else if let Some(s) = p.downcast_ref::<String>() {
        s.clone()
    } else {
        "panic".to_string()
    }
}

impl Sim {
    pub fn new(cfg: SimConfig) -> Self {
        let mut builtins =
            BuiltinRegistry::<E>::with_modules(&quiver_core::builtins::core_modules());
        if cfg.io {
            quiver_io::attach_file_builtins(&mut builtins);
            quiver_io::attach_network_builtins(&mut builtins);
        }
        let mut cmds = Vec::new();
        let mut evts = Vec::new();
        let mut workers = Vec::new();
        let mut handles: Vec<Box<dyn WorkerHandle<E>>> = Vec::new();
        for i in 0..cfg.workers {
            let c: SharedCmd = Arc::new(Mutex::new(CmdChan::default()));
            let e: SharedEvt = Arc::new(Mutex::new(EvtChan::default()));
            workers.push(Worker::new(
                SimReceiver(c.clone()),
                SimSender(e.clone()),
                builtins.clone(),
                false,
                i as u16,
            ));
            handles.push(Box::new(SimHandle {
                cmd: c.clone(),
                evt: e.clone(),
            }));
            cmds.push(c);
            evts.push(e);
        }
        let mut env = Environment::<E>::new(handles);
        let mut backend = None;
        if cfg.io {
            let (b, st) = SimBackend::new(cfg.deferred_io);
            env.set_effect_backend(Box::new(b));
            backend = Some(st);
        }
        let resolver = Box::new(PackageResolver::memory(cfg.modules));
        let repl = Repl::new(&mut env, resolver, builtins).expect("repl");
        hook::set_recording(true);
        hook::take_events();
        Sim {
            env,
            repl,
            dead: vec![false; cfg.workers],
            workers,
            cmds,
            evts,
            now: 0,
            backend,
            backend_seen: 0,
            trace: Vec::new(),
            record: cfg.record,
            crashes: Vec::new(),
            request: None,
            outcome: None,
            raw_outcome: None,
            schedule: Vec::new(),
            steps_done: 0,
            stop_on_outcome: false,
        }
    }

    pub fn nworkers(&self) -> usize {
        self.workers.len()
    }

    /// Compile and submit a line to the REPL process.  Returns false if nothing will run.
    pub fn submit(&mut self, source: &str) -> bool {
        self.outcome = None;
        self.raw_outcome = None;
        self.request = None;
        let r = catch_unwind(AssertUnwindSafe(|| {
            self.repl.evaluate(&mut self.env, source, HashMap::new())
        }));
        match r {
            Ok(Ok(Some(id))) => {
                self.request = Some(id);
                true
            }
            Ok(Ok(None)) => {
                self.outcome = Some(Outcome::NoCode);
                false
            }
            Ok(Err(e)) => {
                let m = match e {
                    ReplError::Parser(e) => format!("parse: {e}"),
                    ReplError::Compiler(e) => format!("compile: {e:?}"),
                    ReplError::Runtime(e) => format!("runtime: {e:?}"),
                    ReplError::Environment(e) => format!("environment: {e}"),
                };
                self.outcome = Some(Outcome::Rejected(m));
                false
            }
            Err(p) => {
                let m = panic_msg(p);
                self.crashes.push(format!("compiler panic: {m}"));
                self.outcome = Some(Outcome::Rejected(format!("panic: {m}")));
                false
            }
        }
    }

    pub fn program(&self) -> &Program {
        self.env.get_program()
    }

    fn backend_new(&mut self) -> Vec<J> {
        let Some(b) = &self.backend else {
            return vec![];
        };
        let st = b.lock().unwrap();
        let out = st.log[self.backend_seen..]
            .iter()
            .map(|c| match c {
                BackendCall::Execute {
                    pid,
                    op,
                    res,
                    created,
                    ok,
                } => json!({"call": "execute", "p": pid, "op": op, "res": opt(res.map(|r| json!(r))),
                    "created": opt(created.map(|r| json!(r))), "ok": ok}),
                BackendCall::Close { res, was_open } => {
                    json!({"call": "close", "res": res, "was_open": was_open})
                }
            })
            .collect();
        self.backend_seen = st.log.len();
        out
    }

    pub fn worker_snapshot(&self, w: usize) -> J {
        let program = self.env.get_program();
        let ex = self.workers[w].verif_executor();
        let view = ex.verif_view();
        let heap = ExecHeap(&view.contents);
        let mut reach: Vec<usize> = view.constant_slots.clone();
        let mut procs = Vec::new();
        for pid in &view.process_ids {
            let Some(p) = ex.get_process(*pid) else {
                continue;
            };
            for v in p.stack.iter().chain(p.locals.iter()).chain(p.mailbox.iter()) {
                heap_refs(v, &mut reach);
            }
            if let Some(Ok(v)) = &p.result {
                heap_refs(v, &mut reach);
            }
            let sel = p.select_state.as_ref().map(|s| {
                for v in &s.sources {
                    heap_refs(v, &mut reach);
                }
                if let Some((_, v)) = &s.receiving {
                    heap_refs(v, &mut reach);
                }
                let srcs: Vec<J> = s
                    .sources
                    .iter()
                    .map(|v| match v {
                        Value::Integer(n) => {
                            use num_traits::ToPrimitive;
                            json!({"k": "timeout", "d": n.to_i32().unwrap_or(i32::MAX)})
                        }
                        Value::Process(t, _) => json!({"k": "await", "t": t}),
                        Value::Function(f, _) => json!({"k": "recv", "f": f}),
                        Value::Builtin(b) => json!({"k": "recv", "f": -1 - (*b as i64)}),
                        _ => json!({"k": "bad"}),
                    })
                    .collect();
                json!({"srcs": srcs, "cursors": s.cursors,
                    "start": opt(s.start_time.map(|t| json!(t))),
                    "receiving": opt(s.receiving.as_ref().map(|(i, v)| json!([i + 1, pv(program, &heap, v)])))})
            });
            let mut aw: Vec<(&usize, &Option<Value>)> = p.awaiting.iter().collect();
            aw.sort_by_key(|(k, _)| **k);
            for (_, v) in &aw {
                if let Some(v) = v {
                    heap_refs(v, &mut reach);
                }
            }
            let result = p.result.as_ref().map(|r| match r {
                Ok(v) => json!({"ok": true, "v": pv(program, &heap, v)}),
                Err(e) => json!({"ok": false, "e": err_class(e)}),
            });
            procs.push(json!({
                "p": pid,
                "mailbox": p.mailbox.iter().map(|v| pv(program, &heap, v)).collect::<Vec<_>>(),
                "result": opt(result),
                "sel": opt(sel),
                "awaiting": aw.iter().map(|(t, v)| json!([t, opt(v.as_ref().map(|v| pv(program, &heap, v)))])).collect::<Vec<_>>(),
                "frames": p.frames.len(),
                "stack": p.stack.len(),
                "locals": p.locals.len(),
                "persistent": p.persistent,
            }));
        }
        reach.sort_unstable();
        reach.dedup();
        let (awaited, awaiters) = self.workers[w].verif_awaited();
        json!({
            "runq": view.queue, "spawning": view.spawning, "selecting": view.selecting,
            "effecting": view.effecting,
            "awaited": awaited,
            "awaiters": awaiters.iter().map(|(t, l)| json!([t, l])).collect::<Vec<_>>(),
            "procs": procs,
            "heap": {"rc": view.refcounts, "freed": view.freed, "free": view.free,
                     "pending": view.pending_free, "reach": reach, "const": view.constant_slots,
                     "hash": view.contents.iter().map(|b| fnv30(b)).collect::<Vec<_>>(),
                     "len": view.contents.iter().map(|b| b.len()).collect::<Vec<_>>()},
            "nextref": view.next_ref,
        })
    }

    pub fn env_snapshot(&self) -> J {
        let v = self.env.verif_view();
        json!({
            "nextpid": v.next_process_id,
            "router": v.router.iter().map(|(p, w)| json!([p, w])).collect::<Vec<_>>(),
            "pending": v.pending_awaits.iter().map(|(a, exp, resp)| json!([a, exp,
                resp.iter().map(|(w, fin)| json!([w, fin])).collect::<Vec<_>>()])).collect::<Vec<_>>(),
            "owner": v.resource_ownership.iter().map(|(r, p)| json!([r, p])).collect::<Vec<_>>(),
        })
    }

    pub fn worker_step(&mut self, w: usize, k: usize, q: usize) {
        if self.dead[w] {
            return;
        }
        self.schedule.push(Step::Worker { w, k, q });
        self.steps_done += 1;
        {
            let mut c = self.cmds[w].lock().unwrap();
            c.budget = k;
            c.taken.clear();
        }
        let evt_before = self.evts[w].lock().unwrap().q.len();
        hook::take_events();
        hook::set_quantum(Some(q));
        let now = self.now;
        let worker = &mut self.workers[w];
        let r = catch_unwind(AssertUnwindSafe(|| worker.step(now)));
        hook::set_quantum(None);
        let ops = hook::take_events();
        let mut crash = None;
        match r {
            Ok(Ok(_)) => {}
            Ok(Err(e)) => {
                crash = Some(format!("worker {w} step returned Err: {e}"));
            }
            Err(p) => {
                crash = Some(format!("worker {w} panicked: {}", panic_msg(p)));
            }
        }
        if let Some(c) = &crash {
            self.crashes.push(c.clone());
            self.dead[w] = true;
        }
        if self.record {
            let program = self.env.get_program();
            let taken: Vec<Command<E>> = self.cmds[w].lock().unwrap().taken.drain(..).collect();
            let consumed: Vec<J> = taken
                .iter()
                .filter(|c| cmd_modelled(c))
                .map(|c| cmd_json(program, c))
                .collect();
            let free: Vec<J> = taken
                .iter()
                .filter(|c| !cmd_modelled(c))
                .map(|c| cmd_json(program, c))
                .collect();
            let emitted: Vec<J> = {
                let ch = self.evts[w].lock().unwrap();
                ch.q.iter()
                    .skip(evt_before)
                    .filter(|e| evt_modelled(e) || matches!(e, Event::WorkerError { .. }))
                    .map(|e| evt_json(program, e))
                    .collect()
            };
            let post = if r_is_panic(&crash) {
                json!({"crashed": true})
            } else {
                self.worker_snapshot(w)
            };
            let ops_json: Vec<J> = {
                let view = self.workers[w].verif_executor().verif_view();
                let heap = ExecHeap(&view.contents);
                ops.iter().map(|o| hook_json(program, &heap, o)).collect()
            };
            let mut rec = json!({"k": "worker", "w": w, "now": now, "q": q.min(1_000_000),
                "consumed": consumed, "free": free,
                "ops": ops_json,
                "emitted": emitted, "post": post});
            if let Some(c) = crash {
                rec["crash"] = json!(c);
            }
            self.trace.push(rec);
        }
    }

    pub fn env_step(&mut self, w: usize, n: usize) {
        // `Environment::step` first handles the completions the backend has ready; record that as a
        // step of its own so that every record is either "completions" or "one event"
        if n > 0 && self.backend_pending() {
            self.env_step(w, 0);
        }
        self.schedule.push(Step::Env { w, n });
        self.steps_done += 1;
        let nw = self.nworkers();
        for i in 0..nw {
            let mut e = self.evts[i].lock().unwrap();
            e.budget = if w == ALL || i == w { n } else { 0 };
            e.taken.clear();
        }
        let cmd_before: Vec<usize> = self.cmds.iter().map(|c| c.lock().unwrap().q.len()).collect();
        let env = &mut self.env;
        let r = catch_unwind(AssertUnwindSafe(|| env.step()));
        let mut crash = None;
        match r {
            Ok(Ok(_)) => {}
            Ok(Err(e)) => crash = Some(format!("environment step returned Err: {e}")),
            Err(p) => crash = Some(format!("environment panicked: {}", panic_msg(p))),
        }
        if let Some(c) = &crash {
            self.crashes.push(c.clone());
        }
        // poll for the REPL result
        if let Some(id) = self.request {
            let program = self.env.get_program().clone();
            if let Ok(Some(RequestResult::Result(r, _))) = self.env.poll_request(id) {
                self.raw_outcome = r.as_ref().ok().cloned();
                self.outcome = Some(match r {
                    Ok((v, heap)) => Outcome::Value(pv(&program, &heap, &v)),
                    Err(e) => Outcome::RuntimeError(err_class(&e)),
                });
                self.request = None;
            }
        }
        let backend = self.backend_new();
        if self.record {
            let program = self.env.get_program();
            let mut consumed = Vec::new();
            for i in 0..nw {
                let taken: Vec<Event<E>> = self.evts[i].lock().unwrap().taken.drain(..).collect();
                for e in taken.iter().filter(|e| evt_modelled(e)) {
                    consumed.push(json!({"w": i, "e": evt_json(program, e)}));
                }
            }
            let mut cmds = Vec::new();
            for i in 0..nw {
                let ch = self.cmds[i].lock().unwrap();
                for c in ch.q.iter().skip(cmd_before[i]).filter(|c| cmd_modelled(c)) {
                    cmds.push(json!({"w": i, "c": cmd_json(program, c)}));
                }
            }
            let mut rec = json!({"k": "env", "w": if w == ALL { -1 } else { w as i64 },
                "consumed": consumed, "cmds": cmds, "backend": backend, "post": self.env_snapshot()});
            if let Some(c) = crash {
                rec["crash"] = json!(c);
            }
            self.trace.push(rec);
        }
    }

    pub fn tick(&mut self, d: u64) {
        self.schedule.push(Step::Tick { d });
        self.steps_done += 1;
        self.now += d;
        if self.record {
            self.trace.push(json!({"k": "tick", "d": d, "now": self.now}));
        }
    }

    pub fn apply(&mut self, s: &Step) {
        match s {
            Step::Env { w, n } => self.env_step(*w, *n),
            Step::Worker { w, k, q } => self.worker_step(*w, *k, *q),
            Step::Tick { d } => self.tick(*d),
            Step::Line => {}
        }
    }

    pub fn cmd_len(&self, w: usize) -> usize {
        self.cmds[w].lock().unwrap().q.iter().filter(|c| cmd_modelled(c)).count()
    }
    pub fn cmd_len_raw(&self, w: usize) -> usize {
        self.cmds[w].lock().unwrap().q.len()
    }
    pub fn evt_len(&self, w: usize) -> usize {
        self.evts[w].lock().unwrap().q.len()
    }
    pub fn runnable(&self, w: usize) -> bool {
        !self.dead[w] && self.workers[w].has_runnable()
    }
    pub fn backend_pending(&self) -> bool {
        self.backend
            .as_ref()
            .map(|b| !b.lock().unwrap().pending.is_empty())
            .unwrap_or(false)
    }
    /// Earliest pending select deadline over all live workers.
    pub fn next_timeout(&self) -> Option<u64> {
        // a deadline further away than 2^30 ms is a "never" sentinel (`! [100000000000000000000000, p]`):
        // the virtual clock does not jump there (it would leave the 32-bit range of the traces), the
        // process simply stays blocked
        (0..self.nworkers())
            .filter(|w| !self.dead[*w])
            .filter_map(|w| self.workers[w].next_timeout_ms())
            .filter(|t| *t <= self.now + (1u64 << 30))
            .min()
    }
    /// Nothing can happen without a clock advance.
    pub fn idle(&self) -> bool {
        (0..self.nworkers()).all(|w| {
            self.evt_len(w) == 0 && (self.dead[w] || (self.cmd_len_raw(w) == 0 && !self.runnable(w)))
        }) && !self.backend_pending()
    }
    /// Idle, and no timeout is pending either (after the clock has passed every deadline).
    pub fn quiescent(&self) -> bool {
        self.idle() && self.next_timeout().map(|t| t > self.now + 1_000_000).unwrap_or(true)
    }

    /// All per-process results, for the end-of-run record.
    pub fn results(&self) -> J {
        let program = self.env.get_program();
        let mut out = Vec::new();
        for w in 0..self.nworkers() {
            let ex = self.workers[w].verif_executor();
            let view = ex.verif_view();
            let heap = ExecHeap(&view.contents);
            for pid in &view.process_ids {
                if let Some(p) = ex.get_process(*pid) {
                    let r = p.result.as_ref().map(|r| match r {
                        Ok(v) => json!({"ok": true, "v": pv(program, &heap, v)}),
                        Err(e) => json!({"ok": false, "e": err_class(e)}),
                    });
                    out.push((*pid, json!([pid, w, opt(r)])));
                }
            }
        }
        out.sort_by_key(|(p, _)| *p);
        J::Array(out.into_iter().map(|(_, j)| j).collect())
    }

    pub fn outcome_json(&self) -> J {
        match &self.outcome {
            Some(Outcome::Value(v)) => json!({"t": "value", "v": v}),
            Some(Outcome::RuntimeError(e)) => json!({"t": "error", "e": e}),
            Some(Outcome::Rejected(m)) => json!({"t": "rejected", "m": m}),
            Some(Outcome::NoCode) => json!({"t": "nocode"}),
            None => json!({"t": "none"}),
        }
    }

    pub fn end_record(&mut self) {
        let q = self.quiescent();
        let rec = json!({"k": "end", "quiescent": q, "now": self.now, "outcome": self.outcome_json(),
            "results": self.results(), "crashes": self.crashes});
        self.trace.push(rec);
    }

    /// The plain round-robin schedule (what a fair native run approximates).
    pub fn run_default(&mut self, q: usize, max_steps: usize) {
        let nw = self.nworkers();
        let mut steps = 0;
        while steps < max_steps {
            if self.stop_on_outcome && self.outcome.is_some() {
                break;
            }
            if self.outcome.is_some() && self.idle() && self.next_timeout().is_none() {
                break;
            }
            if self.idle() {
                match self.next_timeout() {
                    Some(t) if t > self.now => self.tick(t - self.now),
                    Some(_) => {}
                    None => break,
                }
            }
            self.env_step_all();
            for w in 0..nw {
                self.worker_step(w, ALL, q);
            }
            steps += 1 + nw;
        }
    }

    /// `Environment::step` with everything visible, decomposed into its single-event steps
    /// (worker 0's events first, as the real loop collects them).
    pub fn env_step_all(&mut self) {
        let nw = self.nworkers();
        let mut any = false;
        for w in 0..nw {
            let n = self.evt_len(w);
            for _ in 0..n {
                self.env_step(w, 1);
                any = true;
            }
        }
        if !any && self.backend_pending() {
            self.env_step(0, 0);
        }
    }

    /// A seeded random schedule with partial visibility and random tick placement.
    pub fn run_random(&mut self, rng: &mut Rng, quanta: &[usize], max_steps: usize) {
        let nw = self.nworkers();
        let mut steps = 0;
        while steps < max_steps {
            steps += 1;
            if self.stop_on_outcome && self.outcome.is_some() && rng.chance(1, 3) {
                break;
            }
            if self.idle() {
                match self.next_timeout() {
                    Some(t) if t > self.now => {
                        let d = t - self.now;
                        // sometimes stop short of the deadline, sometimes overshoot
                        let d = match rng.below(4) {
                            0 if d > 1 => 1 + rng.below((d - 1) as usize) as u64,
                            1 => d + rng.below(3) as u64,
                            _ => d,
                        };
                        self.tick(d);
                        continue;
                    }
                    Some(_) => {}
                    None => break,
                }
            }
            // enabled moves
            let mut moves: Vec<Step> = Vec::new();
            for w in 0..nw {
                let ev = self.evt_len(w);
                if ev > 0 {
                    moves.push(Step::Env { w, n: 1 });
                }
                if self.dead[w] {
                    continue;
                }
                let cl = self.cmd_len(w);
                let expirable = self
                    .workers[w]
                    .next_timeout_ms()
                    .map(|t| t <= self.now)
                    .unwrap_or(false);
                if cl > 0 || self.cmd_len_raw(w) > 0 || self.runnable(w) || expirable {
                    let q = *rng.pick(quanta);
                    let k = if cl == 0 {
                        0
                    } else if rng.chance(1, 2) {
                        ALL
                    } else {
                        rng.below(cl + 1)
                    };
                    if k == 0 && !self.runnable(w) && !expirable && self.cmd_len_raw(w) == cl {
                        moves.push(Step::Worker { w, k: 1, q });
                    } else {
                        moves.push(Step::Worker { w, k, q });
                    }
                }
            }
            if self.backend_pending() {
                moves.push(Step::Env { w: 0, n: 0 });
            }
            if moves.is_empty() {
                break;
            }
            if rng.chance(1, 12) && self.next_timeout().is_some() {
                self.tick(1 + rng.below(3) as u64);
                continue;
            }
            let m = rng.pick(&moves).clone();
            self.apply(&m);
        }
    }
}

impl Sim {
    /// Priority-based schedule (PCT style): every component (the environment's view of each
    /// worker, and each worker) gets a random priority; the enabled move of highest priority is
    /// taken; at `changes` random points the current leader is demoted.  Produces the long
    /// "one side runs far ahead" schedules that uniform random choice almost never does.
    pub fn run_pct(&mut self, rng: &mut Rng, quanta: &[usize], max_steps: usize, changes: usize) {
        let nw = self.nworkers();
        let ncomp = 2 * nw;
        let mut prio: Vec<i64> = (0..ncomp as i64).collect();
        for i in (1..ncomp).rev() {
            prio.swap(i, rng.below(i + 1));
        }
        let horizon = 120usize;
        let mut change_at: Vec<usize> = (0..changes).map(|_| rng.below(horizon)).collect();
        change_at.sort_unstable();
        let q_run = *rng.pick(quanta);
        let mut low: i64 = -1;
        let mut steps = 0;
        while steps < max_steps {
            steps += 1;
            if self.stop_on_outcome && self.outcome.is_some() && rng.chance(1, 3) {
                break;
            }
            if self.idle() {
                match self.next_timeout() {
                    Some(t) if t > self.now => {
                        self.tick(t - self.now);
                        continue;
                    }
                    Some(_) => {}
                    None => break,
                }
            }
            // enabled components: index w = environment handles worker w's oldest event; nw + w = worker w steps
            let mut best: Option<usize> = None;
            for c in 0..ncomp {
                let enabled = if c < nw {
                    self.evt_len(c) > 0
                } else {
                    let w = c - nw;
                    !self.dead[w]
                        && (self.cmd_len_raw(w) > 0
                            || self.runnable(w)
                            || self.workers[w].next_timeout_ms().map(|t| t <= self.now).unwrap_or(false))
                };
                if enabled && best.map(|b| prio[c] > prio[b]).unwrap_or(true) {
                    best = Some(c);
                }
            }
            let Some(c) = best else {
                if self.backend_pending() {
                    self.env_step(0, 0);
                    continue;
                }
                break;
            };
            if change_at.first().map(|&x| x <= steps).unwrap_or(false) {
                change_at.remove(0);
                // demote the leader below everybody else
                prio[c] = low;
                low -= 1;
            }
            if c < nw {
                self.env_step(c, 1);
            } else {
                let w = c - nw;
                let cl = self.cmd_len(w);
                // mostly everything visible, sometimes a strict prefix
                let k = if cl > 1 && rng.chance(1, 4) { rng.below(cl) } else { ALL };
                let q = if rng.chance(1, 3) { *rng.pick(quanta) } else { q_run };
                self.worker_step(w, k, q);
            }
        }
    }
}

fn r_is_panic(crash: &Option<String>) -> bool {
    crash.as_ref().map(|c| c.contains("panicked")).unwrap_or(false)
}

pub fn step_json(s: &Step) -> J {
    let enc = |x: usize| if x == ALL { -1 } else { x as i64 };
    match s {
        Step::Env { w, n } => json!({"s": "env", "w": enc(*w), "n": enc(*n)}),
        Step::Worker { w, k, q } => json!({"s": "worker", "w": w, "k": enc(*k), "q": q}),
        Step::Tick { d } => json!({"s": "tick", "d": d}),
        Step::Line => json!({"s": "line"}),
    }
}

pub fn step_from_json(j: &J) -> Option<Step> {
    let dec = |x: &J| -> usize {
        let v = x.as_i64().unwrap_or(-1);
        if v < 0 { ALL } else { v as usize }
    };
    match j["s"].as_str()? {
        "env" => Some(Step::Env {
            w: dec(&j["w"]),
            n: dec(&j["n"]),
        }),
        "worker" => Some(Step::Worker {
            w: j["w"].as_u64()? as usize,
            k: dec(&j["k"]),
            q: j["q"].as_u64().unwrap_or(1000) as usize,
        }),
        "line" => Some(Step::Line),
        "tick" => Some(Step::Tick {
            d: j["d"].as_u64()?,
        }),
        _ => None,
    }
}
