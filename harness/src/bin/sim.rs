//! sim: run programs on the simulator under chosen schedules and record traces.
//! stdin: ndjson run requests
//!   {"id":..,"src":"..","nw":2,"driver":"random"|"default"|"replay","seed":1,"quanta":[1,2,1000],
//!    "schedule":[..],"io":false,"deferred_io":false,"max_steps":4000,"meta":{..},"trace":true}
//! argv[1]: path of the trace file (ndjson, all runs concatenated, each starting with an init record)
//! stdout: one summary record per run.
use qharness::rng::Rng;
use qharness::sim::{Sim, SimConfig, step_from_json, step_json};
use serde_json::{Value as J, json};
use std::io::{BufRead, Write};

fn main() {
    let args: Vec<String> = std::env::args().collect();
    let mut tracefile = args.get(1).map(|p| std::io::BufWriter::new(std::fs::File::create(p).expect("trace file")));
    let stdin = std::io::stdin();
    let stdout = std::io::stdout();
    let mut out = stdout.lock();
    // panics of the code under test are data; keep stderr quiet
    std::panic::set_hook(Box::new(|_| {}));
    // runs of one group are buffered; at the end of the group the first `keep` traces and up
    // to `rare_max` traces whose end state is rare within the group are written out
    let mut group: Option<String> = None;
    let mut buffered: Vec<(J, Vec<J>, String, usize, usize)> = Vec::new();
    let flush = |buffered: &mut Vec<(J, Vec<J>, String, usize, usize)>,
                     out: &mut std::io::StdoutLock,
                     tracefile: &mut Option<std::io::BufWriter<std::fs::File>>| {
        let n = buffered.len();
        let mut counts: std::collections::HashMap<String, usize> = std::collections::HashMap::new();
        for b in buffered.iter() {
            *counts.entry(b.2.clone()).or_insert(0) += 1;
        }
        // coverage-guided by end state: the first `keep` runs, plus the first two runs of every
        // distinct end state (at most `rare_max` extra traces per group)
        let mut extra_kept = 0;
        let mut seen: std::collections::HashMap<String, usize> = std::collections::HashMap::new();
        for (i, (mut summary, trace, fp, keep, rare_max)) in buffered.drain(..).enumerate() {
            let s = seen.entry(fp.clone()).or_insert(0);
            let novel = *s < 2;
            *s += 1;
            let kept = i < keep || (novel && extra_kept < rare_max);
            if kept && i >= keep {
                extra_kept += 1;
            }
            let _ = n;
            summary["kept"] = json!(kept);
            summary["fp_count"] = json!(counts[&fp]);
            writeln!(out, "{}", summary).unwrap();
            if kept {
                if let Some(f) = tracefile.as_mut() {
                    for r in &trace {
                        writeln!(f, "{}", r).unwrap();
                    }
                }
            }
        }
    };
    for line in stdin.lock().lines() {
        let line = line.unwrap();
        if line.trim().is_empty() {
            continue;
        }
        let j: J = serde_json::from_str(&line).expect("json");
        let g = j["group"].as_str().map(|s| s.to_string());
        if g != group {
            flush(&mut buffered, &mut out, &mut tracefile);
            group = g.clone();
        }
        let nw = j["nw"].as_u64().unwrap_or(2) as usize;
        let io = j["io"].as_bool().unwrap_or(false);
        let record = j["trace"].as_bool().unwrap_or(true);
        let mut sim = Sim::new(SimConfig {
            workers: nw,
            io,
            deferred_io: j["deferred_io"].as_bool().unwrap_or(false),
            record,
            ..Default::default()
        });
        let max_steps = j["max_steps"].as_u64().unwrap_or(5000) as usize;
        let quanta: Vec<usize> = match j.get("quanta") {
            Some(J::Array(a)) => a.iter().map(|x| x.as_u64().unwrap_or(1000) as usize).collect(),
            _ => vec![1000],
        };
        let lines: Vec<String> = match j.get("lines") {
            Some(J::Array(a)) => a.iter().map(|x| x.as_str().unwrap().to_string()).collect(),
            _ => vec![j["src"].as_str().unwrap_or("").to_string()],
        };
        let early_lines = j["early_lines"].as_bool().unwrap_or(false);
        let seed = j["seed"].as_u64().unwrap_or(1);
        let mut rng = Rng::new(seed);
        let mut outcomes = Vec::new();
        if record {
            sim.trace.push(json!({"k": "init", "id": j["id"], "nw": nw, "meta": j["meta"]}));
        }
        let mut replay_at = 0usize;
        for (li, src) in lines.iter().enumerate() {
            if sim.submit(src) {
                if li > 0 {
                    sim.schedule.push(qharness::sim::Step::Line);
                }
                if record && li > 0 {
                    // (no JSON null: TLC cannot read it) scripted sessions carry the line's entry script
                    match j["meta"]["lines"][li].as_u64() {
                        Some(e) => sim.trace.push(json!({"k": "line", "n": li + 1, "entry": e})),
                        None => sim.trace.push(json!({"k": "line", "n": li + 1})),
                    }
                }
                // a session line that is not the last one: the host may submit the next line as soon
                // as this line's result has reached it (other processes may still be running)
                sim.stop_on_outcome = early_lines && li + 1 < lines.len();
                match j["driver"].as_str().unwrap_or("default") {
                    "random" => sim.run_random(&mut rng, &quanta, max_steps),
                    "pct" => {
                        let d = j["pct_changes"].as_u64().unwrap_or(2) as usize;
                        sim.run_pct(&mut rng, &quanta, max_steps, d);
                        // whatever is left (starved components) is finished fairly
                        sim.run_default(quanta[0], max_steps);
                    }
                    "replay" => {
                        // the stored schedule, up to the marker of the next line's submission
                        let mut hit_line = false;
                        if let Some(J::Array(s)) = j.get("schedule") {
                            while replay_at < s.len() {
                                let st = step_from_json(&s[replay_at]);
                                replay_at += 1;
                                match st {
                                    Some(qharness::sim::Step::Line) => {
                                        hit_line = true;
                                        break;
                                    }
                                    Some(st) => sim.apply(&st),
                                    None => {}
                                }
                            }
                        }
                        if !hit_line {
                            // finish fairly so that the end state is comparable
                            sim.stop_on_outcome = false;
                            sim.run_default(quanta[0], max_steps);
                        }
                    }
                    _ => sim.run_default(quanta[0], max_steps),
                }
            }
            outcomes.push(sim.outcome_json());
            if !sim.crashes.is_empty() {
                break;
            }
        }
        if record {
            sim.end_record();
        }
        let summary = json!({"id": j["id"], "outcomes": outcomes, "crashes": sim.crashes,
            "quiescent": sim.quiescent(), "steps": sim.steps_done, "results": sim.results(),
            "schedule": sim.schedule.iter().map(step_json).collect::<Vec<_>>(),
            "records": sim.trace.len()});
        if group.is_some() {
            // end-state fingerprint without pid / worker identity
            let mut rs: Vec<String> = summary["results"]
                .as_array()
                .map(|a| a.iter().map(|x| x[2].to_string()).collect())
                .unwrap_or_default();
            rs.sort();
            let fp = format!("{}|{}|{}|{}", summary["outcomes"], summary["crashes"], summary["quiescent"], rs.join(";"));
            let keep = j["keep"].as_u64().unwrap_or(u64::MAX) as usize;
            let rare_max = j["rare_max"].as_u64().unwrap_or(0) as usize;
            buffered.push((summary, std::mem::take(&mut sim.trace), fp, keep, rare_max));
        } else {
            writeln!(out, "{}", summary).unwrap();
            if let Some(f) = tracefile.as_mut() {
                for r in &sim.trace {
                    writeln!(f, "{}", r).unwrap();
                }
            }
        }
    }
    flush(&mut buffered, &mut out, &mut tracefile);
    if let Some(f) = tracefile.as_mut() {
        f.flush().unwrap();
    }
}
