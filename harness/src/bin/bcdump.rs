//! bcdump: compile Quiver programs with the real compiler and dump the bytecode tables and
//! every function's instruction list as JSON, in the forms C07 quantifies over.
//!
//! stdin (ndjson):
//!   {"id":.., "src":".."}                       one program
//!   {"id":.., "lines":["..",".."]}              a REPL session (compiled line by line)
//!   {"id":.., "group":[{"id":..,"src"|"lines":..}, ..]}   programs merged into ONE environment
//! optional per program: "modules": {"name": "source"}, "io": true, "run": false (shaken_fn).
//!
//! stdout (ndjson), one record per program (line) and form:
//!   {"id","line","form":"compiled"|"shaken"|"shaken_fn"|"merged","status":"ok",
//!    "nconst","arity":[..],"ntypes","caps":[..],"tids":[..],"nbuiltins",
//!    "entries":[{"fi","l0","keep"}],            wrapper functions, the locals they start with and
//!                                               the locals a LATER line of the session relies on
//!    "fns":[{"fi","code":[{"op":"Constant","a":3},..]},..]}
//!   or {"id","line","form":"-","status":"rejected"|"nocode"|"panic","msg"} (not a violation).
#[path = "../vmshared.rs"]
mod vmshared;

use qharness::sim::{Sim, SimConfig};
use quiver_compiler::PackageResolver;
use quiver_core::bytecode::Bytecode;
use quiver_core::value::Value;
use quiver_environment::{Command, Repl};
use serde_json::{Value as J, json};
use std::io::{BufRead, Write};
use std::panic::{AssertUnwindSafe, catch_unwind};
use vmshared::*;

fn image(id: &J, line: usize, form: &str, bc: &Bytecode, entries: &[(usize, usize, usize)]) -> J {
    let mut rec = bytecode_tables(bc);
    rec["id"] = id.clone();
    rec["line"] = json!(line);
    rec["form"] = json!(form);
    rec["status"] = json!("ok");
    rec["entries"] = J::Array(
        entries
            .iter()
            .map(|(fi, l0, keep)| json!({"fi": fi, "l0": l0, "keep": keep}))
            .collect(),
    );
    rec["fns"] = fns_json(&bc.functions);
    rec
}

/// The CLI's `compile` path: run the program; if it evaluates to a function, that function
/// (with its captures injected) is the entry of the tree-shaken image.
fn shaken_fn(sess: &Session, fi: usize, max_steps: usize) -> Option<Bytecode> {
    let bc = sess.program.to_bytecode(Some(fi));
    let mut ex = setup_executor(bc, &sess.builtins).ok()?;
    let mut steps = 0;
    loop {
        let (did, action) = ex.step(1000, 0);
        steps += 1000;
        if action.is_some() || !did || steps > max_steps {
            return None;
        }
        let p = ex.get_process(0)?;
        match &p.result {
            Some(Ok(Value::Function(f, caps))) => {
                let mut program = sess.program.clone();
                let entry = if caps.is_empty() {
                    *f
                } else {
                    program.inject_function_captures(*f, (**caps).clone(), &ex)
                };
                return Some(program.to_bytecode_optimized(entry));
            }
            Some(_) => return None,
            None => {}
        }
    }
}

fn dump_program(j: &J, out: &mut impl Write) {
    let id = &j["id"];
    let io = j["io"].as_bool().unwrap_or(false);
    let run = j["run"].as_bool().unwrap_or(true);
    let mut sess = Session::new(modules_of(j), io);
    let lines = lines_of(j);
    let single = lines.len() == 1;
    for (k, src) in lines.iter().enumerate() {
        let line = k + 1;
        match sess.compile_line(src) {
            LineResult::Code(mut l) => {
                // nothing relies on the locals the LAST line of a session leaves behind
                if line == lines.len() {
                    l.keep = 0;
                    if let Some(e) = sess.entries.last_mut() {
                        e.2 = 0;
                    }
                }
                let bc = sess.program.to_bytecode(Some(l.fi));
                writeln!(out, "{}", image(id, line, "compiled", &bc, &sess.entries)).unwrap();
                let r = catch_unwind(AssertUnwindSafe(|| sess.program.to_bytecode_optimized(l.fi)));
                match r {
                    Ok(sh) => {
                        let e = sh.entry.unwrap_or(0);
                        writeln!(out, "{}", image(id, line, "shaken", &sh, &[(e, l.l0, l.keep)]))
                            .unwrap();
                    }
                    Err(p) => {
                        writeln!(out, "{}", json!({"id": id, "line": line, "form": "shaken",
                            "status": "panic", "msg": panic_msg(p)}))
                        .unwrap();
                    }
                }
                if single && run {
                    let r = catch_unwind(AssertUnwindSafe(|| shaken_fn(&sess, l.fi, 200_000)));
                    if let Ok(Some(sh)) = r {
                        // the entry is an ordinary function here: it starts with its captures
                        writeln!(out, "{}", image(id, line, "shaken_fn", &sh, &[])).unwrap();
                    }
                }
            }
            LineResult::NoCode => {
                writeln!(out, "{}", json!({"id": id, "line": line, "form": "-", "status": "nocode"}))
                    .unwrap();
            }
            LineResult::Rejected(m) => {
                writeln!(out, "{}", json!({"id": id, "line": line, "form": "-",
                    "status": "rejected", "msg": m}))
                .unwrap();
                break;
            }
            LineResult::Panic(m) => {
                writeln!(out, "{}", json!({"id": id, "line": line, "form": "-",
                    "status": "panic", "msg": m}))
                .unwrap();
                break;
            }
        }
    }
}

/// Several programs evaluated one after the other by the real REPL against ONE real
/// environment (a fresh `Repl`, i.e. a fresh persistent process, per program; one `Repl` for all
/// lines of a session); afterwards the environment's merged program is dumped.
fn dump_group(j: &J, out: &mut impl Write) {
    let id = &j["id"];
    let members = j["group"].as_array().cloned().unwrap_or_default();
    let steps = j["steps"].as_u64().unwrap_or(400) as usize;
    let mut sim = Sim::new(SimConfig {
        workers: 2,
        io: false,
        record: false,
        ..Default::default()
    });
    let mut entries: Vec<J> = Vec::new();
    let mut members_out: Vec<J> = Vec::new();
    for m in &members {
        let resolver = Box::new(PackageResolver::memory(modules_of(m)));
        match Repl::new(&mut sim.env, resolver, registry(false)) {
            Ok(r) => sim.repl = r,
            Err(_) => continue,
        }
        let pid = sim.repl.process_id();
        for (k, src) in lines_of(m).iter().enumerate() {
            let l0 = sim.repl.get_variables().len();
            let submitted = sim.submit(src);
            if submitted {
                // the remapped entry index travels in the ResumeProcess command
                let mut fi = None;
                for c in &sim.cmds {
                    for cmd in c.lock().unwrap().q.iter() {
                        if let Command::ResumeProcess { id, function_index } = cmd {
                            if *id == pid {
                                fi = Some(*function_index);
                            }
                        }
                    }
                }
                if let Some(fi) = fi {
                    entries.push(json!({"fi": fi, "l0": l0, "keep": 0, "of": m["id"], "line": k + 1}));
                }
                sim.run_default(1000, steps);
            }
            members_out.push(json!({"id": m["id"], "line": k + 1, "outcome": sim.outcome_json()}));
            if !submitted && matches!(sim.outcome_json()["t"].as_str(), Some("rejected")) {
                break;
            }
        }
    }
    let p = sim.program();
    let mut rec = program_tables(p);
    rec["id"] = id.clone();
    rec["line"] = json!(0);
    rec["form"] = json!("merged");
    rec["status"] = json!("ok");
    rec["entries"] = J::Array(entries);
    rec["members"] = J::Array(members_out);
    rec["crashes"] = json!(sim.crashes);
    rec["fns"] = fns_json(p.get_functions());
    writeln!(out, "{}", rec).unwrap();
}

fn main() {
    // compile-time panics are data; keep stderr quiet
    std::panic::set_hook(Box::new(|_| {}));
    let stdin = std::io::stdin();
    let stdout = std::io::stdout();
    let mut out = std::io::BufWriter::new(stdout.lock());
    for line in stdin.lock().lines() {
        let line = line.unwrap();
        if line.trim().is_empty() {
            continue;
        }
        let j: J = match serde_json::from_str(&line) {
            Ok(j) => j,
            Err(_) => continue,
        };
        if j.get("group").is_some() {
            let r = catch_unwind(AssertUnwindSafe(|| dump_group(&j, &mut out)));
            if let Err(p) = r {
                writeln!(out, "{}", json!({"id": j["id"], "line": 0, "form": "merged",
                    "status": "panic", "msg": panic_msg(p)}))
                .unwrap();
            }
        } else {
            dump_program(&j, &mut out);
        }
        out.flush().unwrap();
    }
}
