//! pkgrun: run one program through every PACKAGING path (C10).
//! stdin: ndjson {"id":..,"src":"<expression evaluating to a nilary function>", "modules":{..},
//!                "history":["<other programs merged into the environment first>", ..]}
//! stdout: per program {"id", "configs": {"compiled":O, "shaken":O, "serde":O, "serde_identical":bool,
//!                      "merged":O, "cli":O?}, "sizes":{...}} with O an outcome record as in qrun.
use qharness::project::{err_class, pv};
use qharness::sim::{Sim, SimConfig};
use qharness::E;
use quiver_compiler::compiler::ModuleCache;
use quiver_compiler::{Compiler, PackageResolver, parse};
use quiver_core::builtins::BuiltinRegistry;
use quiver_core::bytecode::Bytecode;
use quiver_core::program::Program;
use quiver_core::types::Type;
use quiver_core::value::Value;
use quiver_environment::RequestResult;
use serde_json::{Value as J, json};
use std::collections::HashMap;
use std::io::{BufRead, Write};
use std::panic::{AssertUnwindSafe, catch_unwind};

fn modules_of(j: &J) -> HashMap<Vec<String>, String> {
    let mut modules = HashMap::new();
    if let Some(J::Object(m)) = j.get("modules") {
        for (name, src) in m {
            modules.insert(
                name.split('/').map(|s| s.to_string()).collect(),
                src.as_str().unwrap_or("").to_string(),
            );
        }
    }
    modules
}

/// Compile `source` (top level), run it synchronously, require a function value and return the
/// program together with the entry function (captures injected) - what `quiv compile` does.
fn compile_entry(
    source: &str,
    resolver: &PackageResolver,
    builtins: &BuiltinRegistry<E>,
) -> Result<(Program, usize), String> {
    let ast = parse(source).map_err(|e| format!("parse: {e}"))?;
    let mut program = Program::new();
    let mut cache = ModuleCache::new();
    let res = Compiler::compile(
        ast,
        &HashMap::new(),
        &mut cache,
        resolver,
        &mut program,
        quiver_core::types::NIL,
        &HashMap::new(),
        builtins,
        None,
    )
    .map_err(|e| format!("compile: {:?}", e.error))?;
    let nil = program.register_type(Type::nil());
    let callable = program.register_type(Type::Callable {
        parameter: nil,
        result: res.result_type,
        receive: res.receive_type,
    });
    let f = program.register_function(quiver_core::bytecode::Function {
        instructions: res.instructions,
        captures: 0,
        type_id: callable,
    });
    let bc = program.to_bytecode(Some(f));
    let (value, executor) = sync_exec(bc, builtins).map_err(|e| format!("toplevel: {e}"))?;
    match value {
        Value::Function(idx, caps) => {
            if caps.is_empty() {
                Ok((program, idx))
            } else {
                let e = program.inject_function_captures(idx, (*caps).clone(), &executor);
                Ok((program, e))
            }
        }
        _ => Err("not a function".to_string()),
    }
}

/// `execute_bytecode_sync` with a step bound; a program that needs the runtime (spawn, send,
/// select, effects) is reported as such instead of spinning.
fn sync_exec(
    bytecode: Bytecode,
    builtins: &BuiltinRegistry<E>,
) -> Result<(Value, quiver_core::executor::Executor<E>), String> {
    use quiver_core::compatibility::{
        CompatibilityInput, compute_canonical_tuples, compute_param_compatibility, compute_type_compatibility,
    };
    let entry = bytecode.entry.ok_or("no entry")?;
    let mut executor = quiver_core::executor::Executor::new(builtins.clone(), false, 0);
    let input = CompatibilityInput {
        types: &bytecode.types,
        tuples: &bytecode.tuples,
        functions: &bytecode.functions,
        builtins: &bytecode.builtins,
        resource_names: &bytecode.resources,
    };
    let type_compatibility = compute_type_compatibility(&input);
    let canonical_tuples = compute_canonical_tuples(&bytecode.tuples);
    let (function_param_compatibility, builtin_param_compatibility) = compute_param_compatibility(&input);
    executor.update_program(quiver_core::executor::ProgramUpdate {
        constants: bytecode.constants,
        functions: bytecode.functions,
        tuples: bytecode.tuples[2..].to_vec(),
        types: bytecode.types,
        builtins: bytecode.builtins,
        resources: bytecode.resources,
        type_compatibility,
        function_param_compatibility,
        builtin_param_compatibility,
        canonical_tuples,
    });
    executor
        .spawn_process(0, Some(entry), vec![], Value::nil(), vec![], false)
        .map_err(|e| err_class(&e))?;
    for _ in 0..200_000 {
        let (_did, action) = executor.step(1000, 0);
        if action.is_some() {
            return Err("needs_runtime".into());
        }
        let process = executor.get_process(0).ok_or("process disappeared")?;
        if let Some(result) = &process.result {
            return match result {
                Ok(v) => {
                    let v = v.clone();
                    if let Err(e) = executor.check_refcounts() {
                        return Err(format!("refcount:{e}"));
                    }
                    Ok((v, executor))
                }
                Err(e) => Err(format!("error:{}", err_class(e))),
            };
        }
    }
    Err("budget".into())
}

fn run_sync(bc: Bytecode, builtins: &BuiltinRegistry<E>) -> J {
    let tables = bc.clone();
    let r = catch_unwind(AssertUnwindSafe(|| sync_exec(bc, builtins)));
    match r {
        Ok(Ok((v, ex))) => match ex.extract_heap_data(&v) {
            Ok((v2, heap)) => json!({"t": "value", "v": pv(&tables, &heap, &v2)}),
            Err(e) => json!({"t": "error", "e": err_class(&e)}),
        },
        Ok(Err(m)) => match m.strip_prefix("error:") {
            Some(e) => json!({"t": "error", "e": e}),
            None => json!({"t": m}),
        },
        Err(_) => json!({"t": "crash"}),
    }
}

fn run_merged(bc: Bytecode, history: &[String], modules: HashMap<Vec<String>, String>) -> J {
    let mut sim = Sim::new(SimConfig {
        workers: 2,
        record: false,
        modules,
        ..Default::default()
    });
    for h in history {
        if sim.submit(h) {
            sim.run_default(1000, 200_000);
        }
    }
    let pid = match sim.env.start_process(Some(bc)) {
        Ok(p) => p,
        Err(e) => return json!({"t": "rejected", "m": format!("{e}")}),
    };
    let req = match sim.env.request_result(pid, None) {
        Ok(r) => r,
        Err(e) => return json!({"t": "rejected", "m": format!("{e}")}),
    };
    for _ in 0..200_000 {
        sim.env_step_all();
        for w in 0..sim.nworkers() {
            sim.worker_step(w, usize::MAX, 1000);
        }
        let program = sim.env.get_program().clone();
        match sim.env.poll_request(req) {
            Ok(Some(RequestResult::Result(Ok((v, heap)), _))) => {
                return json!({"t": "value", "v": pv(&program, &heap, &v),
                    "formatted": sim.env.format_value(&v, &heap)});
            }
            Ok(Some(RequestResult::Result(Err(e), _))) => return json!({"t": "error", "e": err_class(&e)}),
            Ok(Some(_)) => return json!({"t": "crash"}),
            Ok(None) => {}
            Err(e) => return json!({"t": "rejected", "m": format!("{e}")}),
        }
        if !sim.crashes.is_empty() {
            return json!({"t": "crash", "m": sim.crashes});
        }
    }
    json!({"t": "none"})
}

fn main() {
    std::panic::set_hook(Box::new(|_| {}));
    let stdin = std::io::stdin();
    let stdout = std::io::stdout();
    let mut out = stdout.lock();
    let builtins = BuiltinRegistry::<E>::with_modules(&quiver_core::builtins::core_modules());
    for line in stdin.lock().lines() {
        let line = line.unwrap();
        if line.trim().is_empty() {
            continue;
        }
        let j: J = serde_json::from_str(&line).expect("json");
        let src = j["src"].as_str().unwrap_or("");
        let modules = modules_of(&j);
        let resolver = PackageResolver::memory(modules.clone());
        let history: Vec<String> = match j.get("history") {
            Some(J::Array(a)) => a.iter().map(|x| x.as_str().unwrap_or("").to_string()).collect(),
            _ => vec![],
        };
        let compiled = catch_unwind(AssertUnwindSafe(|| compile_entry(src, &resolver, &builtins)));
        let rec = match compiled {
            Ok(Ok((program, entry))) => {
                let full = program.to_bytecode(Some(entry));
                let shaken = program.to_bytecode_optimized(entry);
                let text = serde_json::to_string(&shaken).unwrap();
                let reread: Bytecode = serde_json::from_str(&text).unwrap();
                let identical = serde_json::to_string(&reread).unwrap() == text;
                let sizes = json!({"functions": [full.functions.len(), shaken.functions.len()],
                    "constants": [full.constants.len(), shaken.constants.len()],
                    "tuples": [full.tuples.len(), shaken.tuples.len()],
                    "types": [full.types.len(), shaken.types.len()]});
                let mut configs = serde_json::Map::new();
                configs.insert("compiled".into(), run_sync(full, &builtins));
                configs.insert("shaken".into(), run_sync(shaken.clone(), &builtins));
                configs.insert("serde".into(), run_sync(reread, &builtins));
                configs.insert("merged".into(), run_merged(shaken.clone(), &history, modules.clone()));
                if let Some(dir) = j["bytecode_dir"].as_str() {
                    // leave the serialised bytecode for the real `quiv run` binary
                    let path = format!("{}/{}.qx", dir, j["id"].to_string().replace('"', ""));
                    std::fs::write(&path, &text).ok();
                }
                json!({"id": j["id"], "configs": configs, "serde_identical": identical, "sizes": sizes})
            }
            Ok(Err(m)) => json!({"id": j["id"], "rejected": m}),
            Err(_) => json!({"id": j["id"], "rejected": "compiler panic"}),
        };
        writeln!(out, "{}", rec).unwrap();
    }
}
