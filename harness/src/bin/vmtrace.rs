//! vmtrace: execute compiled programs on the real executor's public sync path ONE INSTRUCTION
//! AT A TIME (`Executor::step(1, now)`) and record, after every step, the top frame's
//! (function, counter), the operand stack height, the locals length and the frame count.
//!
//! stdin (ndjson): {"id":.., "src":".."} (or "lines": only the first line runs here: later
//! lines need the persistent REPL process), optional "modules", "io", "form":"compiled"|"shaken",
//! "max_steps" (default 200000), "keep" (observations emitted, default 4000).
//!
//! stdout (ndjson) per program:
//!   {"id","status":"ok","form","end":"value"|"error"|"async"|"blocked"|"cap"|"panic","err":class,
//!    "steps", "peak":{"frames","locals","stack"}, "heap":{"slots","reachable"}, "refcounts_ok",
//!    "arity":[..], "caps":[..]  (whole tables, original function indices),
//!    "fns":[{"fi","code":[..]},..]   only the functions that were entered, in order of first entry;
//!    "obs":[[f,pc,stack,locals,frames],..]  f = 0-based position in "fns"; the first element is
//!    the state before the first step; a finished process is [-1,-1,stack,locals,0];
//!    "truncated": true when the run was longer than "keep"}
//! A Send's Deliver action is dropped (nobody receives here) unless it is addressed to the program's
//! own process (`42 .`: delivered to its mailbox as the worker would) and a Spawn is answered with a pid at
//! once (`notify_spawn`, no child runs), so both instructions complete and are observed; a program
//! that awaits a process or requests an effect leaves the sync path: the trace ends there
//! ("async"); what was recorded up to that point is still a valid prefix.
#[path = "../vmshared.rs"]
mod vmshared;

use qharness::project::err_class;
use serde_json::{Value as J, json};
use std::collections::HashMap;
use std::io::{BufRead, Write};
use std::panic::{AssertUnwindSafe, catch_unwind};
use vmshared::*;

fn trace_program(j: &J) -> J {
    let id = &j["id"];
    let io = j["io"].as_bool().unwrap_or(false);
    let max_steps = j["max_steps"].as_u64().unwrap_or(200_000) as usize;
    let keep = j["keep"].as_u64().unwrap_or(4000) as usize;
    let form = j["form"].as_str().unwrap_or("compiled").to_string();
    let mut sess = Session::new(modules_of(j), io);
    let lines = lines_of(j);
    let src = lines.first().cloned().unwrap_or_default();
    let fi = match sess.compile_line(&src) {
        LineResult::Code(l) => l.fi,
        LineResult::NoCode => return json!({"id": id, "status": "nocode"}),
        LineResult::Rejected(m) => return json!({"id": id, "status": "rejected", "msg": m}),
        LineResult::Panic(m) => return json!({"id": id, "status": "panic", "msg": m}),
    };
    let bc = if form == "shaken" {
        sess.program.to_bytecode_optimized(fi)
    } else {
        sess.program.to_bytecode(Some(fi))
    };
    let functions = bc.functions.clone();
    let arity: Vec<usize> = bc.tuples.iter().map(|t| t.fields.len()).collect();
    let caps: Vec<usize> = bc.functions.iter().map(|f| f.captures).collect();
    let mut ex = match setup_executor(bc, &sess.builtins) {
        Ok(ex) => ex,
        Err(m) => return json!({"id": id, "status": "rejected", "msg": m}),
    };

    let mut dense: HashMap<usize, usize> = HashMap::new();
    let mut order: Vec<usize> = Vec::new();
    let mut obs: Vec<J> = Vec::new();
    let (mut pf, mut pl, mut ps) = (0usize, 0usize, 0usize);
    let mut steps = 0usize;
    let mut now = 0u64;
    let mut end = "cap".to_string();
    let mut err = J::Null;
    let mut truncated = false;
    let mut fake_pid = 1000usize;

    // observation of the current state; None when the process has a result
    let mut observe = |ex: &quiver_core::Executor<qharness::E>,
                       obs: &mut Vec<J>,
                       truncated: &mut bool|
     -> Option<Result<(), String>> {
        let p = ex.get_process(0)?;
        let (sh, ll, fl) = (p.stack.len(), p.locals.len(), p.frames.len());
        pf = pf.max(fl);
        pl = pl.max(ll);
        ps = ps.max(sh);
        match &p.result {
            Some(Err(e)) => return Some(Err(err_class(e))),
            Some(Ok(_)) => {
                if obs.len() <= keep {
                    obs.push(json!([-1, -1, sh, ll, 0]));
                } else {
                    *truncated = true;
                }
                return Some(Ok(()));
            }
            None => {}
        }
        if let Some(f) = p.frames.last() {
            let n = order.len();
            let d = *dense.entry(f.function_index).or_insert_with(|| {
                order.push(f.function_index);
                n
            });
            if obs.len() <= keep {
                obs.push(json!([d, f.counter, sh, ll, fl]));
            } else {
                *truncated = true;
            }
        }
        None
    };

    observe(&ex, &mut obs, &mut truncated);
    while steps < max_steps {
        let (did, action) = ex.step(1, now);
        match action {
            None => {}
            // the message leaves this executor (nobody receives it here); the sender has already
            // completed its Send and goes on
            // ... unless it is addressed to this very process (`42 .`): then do what the worker and
            // the environment do together (extract, route back, notify_message)
            Some(quiver_core::Action::Deliver { target: 0, value }) => {
                if let Ok((message, heap)) = ex.extract_heap_data(&value) {
                    let _ = ex.notify_message(0, message, heap);
                }
            }
            Some(quiver_core::Action::Deliver { .. }) => {}
            // what the worker does when the environment answers a Spawn: hand the caller a pid
            // (no child runs here); the caller's Spawn instruction completes
            Some(quiver_core::Action::Spawn {
                caller,
                function_index,
                ..
            }) => {
                fake_pid += 1;
                ex.notify_spawn(caller, quiver_core::Value::Process(fake_pid, function_index));
                let exhausted = ex
                    .get_process(0)
                    .and_then(|p| p.frames.last())
                    .map(|f| f.counter >= functions[f.function_index].instructions.len())
                    .unwrap_or(false);
                if exhausted {
                    // a Spawn that was the last instruction of its frame: the next step executes
                    // nothing and pops the exhausted frames
                    ex.step(1, now);
                }
            }
            // await / effect: needs the environment
            Some(_) => {
                end = "async".into();
                break;
            }
        }
        if !did {
            match ex.next_timeout_ms() {
                Some(t) if t > now => {
                    now = t;
                    continue;
                }
                _ => {
                    end = "blocked".into();
                    break;
                }
            }
        }
        steps += 1;
        match observe(&ex, &mut obs, &mut truncated) {
            Some(Ok(())) => {
                end = "value".into();
                break;
            }
            Some(Err(c)) => {
                end = "error".into();
                err = json!(c);
                break;
            }
            None => {}
        }
    }
    let _ = &mut observe;
    let hs = ex.heap_stats();
    let fns: Vec<J> = order
        .iter()
        .map(|fi| json!({"fi": fi, "code": code_json(&functions[*fi])}))
        .collect();
    json!({"id": id, "status": "ok", "form": form, "end": end, "err": err, "steps": steps,
        "peak": {"frames": pf, "locals": pl, "stack": ps},
        "heap": {"slots": hs.slots, "reachable": hs.reachable},
        "refcounts_ok": ex.check_refcounts().is_ok(),
        "arity": arity, "caps": caps, "fns": fns, "obs": obs, "truncated": truncated})
}

fn main() {
    std::panic::set_hook(Box::new(|_| {}));
    let stdin = std::io::stdin();
    let stdout = std::io::stdout();
    let mut out = std::io::BufWriter::new(stdout.lock());
    for line in stdin.lock().lines() {
        let line = line.unwrap();
        if line.trim().is_empty() {
            continue;
        }
        let j: J = match serde_json::from_str(&line) {
            Ok(j) => j,
            Err(_) => continue,
        };
        let rec = match catch_unwind(AssertUnwindSafe(|| trace_program(&j))) {
            Ok(r) => r,
            Err(p) => json!({"id": j["id"], "status": "ok", "end": "panic", "err": panic_msg(p),
                "steps": 0, "obs": [], "fns": [], "arity": [], "caps": [],
                "peak": {"frames": 0, "locals": 0, "stack": 0}, "heap": {"slots": 0, "reachable": 0},
                "truncated": false}),
        };
        writeln!(out, "{}", rec).unwrap();
        out.flush().unwrap();
    }
}
