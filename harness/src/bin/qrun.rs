//! qrun: run Quiver programs through the real REPL/Environment/Workers under the default
//! round-robin schedule.  Input: ndjson {"id":..,"src":"..","workers":2,"io":false,"lines":[..]}
//! on stdin; output: one ndjson record per program with the outcome of every line.
use qharness::sim::{Sim, SimConfig};
use serde_json::{Value as J, json};
use std::io::{BufRead, Write};

fn main() {
    let stdin = std::io::stdin();
    let stdout = std::io::stdout();
    let mut out = stdout.lock();
    for line in stdin.lock().lines() {
        let line = line.unwrap();
        if line.trim().is_empty() {
            continue;
        }
        let j: J = serde_json::from_str(&line).expect("json");
        let workers = j["workers"].as_u64().unwrap_or(2) as usize;
        let q = j["q"].as_u64().unwrap_or(1000) as usize;
        let io = j["io"].as_bool().unwrap_or(false);
        // optional in-memory modules: {"name": "source", "ns/name": "source"}
        let mut modules = std::collections::HashMap::new();
        if let Some(J::Object(m)) = j.get("modules") {
            for (name, src) in m {
                let path: Vec<String> = name.split('/').map(|s| s.to_string()).collect();
                modules.insert(path, src.as_str().unwrap_or("").to_string());
            }
        }
        let mut sim = Sim::new(SimConfig {
            workers,
            io,
            record: false,
            modules,
            ..Default::default()
        });
        let lines: Vec<String> = match j.get("lines") {
            Some(J::Array(a)) => a.iter().map(|x| x.as_str().unwrap().to_string()).collect(),
            _ => vec![j["src"].as_str().unwrap_or("").to_string()],
        };
        let mut outs = Vec::new();
        for src in &lines {
            if sim.submit(src) {
                sim.run_default(q, 2_000_000);
            }
            outs.push(sim.outcome_json());
            if !sim.crashes.is_empty() {
                break;
            }
        }
        let rec = json!({"id": j["id"], "outcomes": outs, "crashes": sim.crashes});
        writeln!(out, "{}", rec).unwrap();
    }
}
