//! astdump: parse Quiver source with the REAL parser and print the abstract syntax that
//! /verif/spec/SeqLang.tla evaluates (see the header of that module for the shape).
//! Input: ndjson {"id":..,"src":".."} on stdin; output: one ndjson record per program,
//! {"id":..,"ast":{..}} for programs inside the sequential core, {"id":..,"skip":"<why>"} for
//! programs that use anything outside it (imports, processes, selects, generics with
//! arguments, ...), {"id":..,"parse_error":".."} when the parser rejects the text.
use quiver_compiler::ast::*;
use serde_json::{Value as J, json};
use std::collections::HashSet;
use std::io::{BufRead, Write};

type R<T> = Result<T, String>;

struct Cx {
    /// names of type variables in scope (`#<'t>'t { .. }`): they stand for any value
    tyvars: Vec<HashSet<String>>,
}

impl Cx {
    fn is_tyvar(&self, n: &str) -> bool {
        self.tyvars.iter().any(|s| s.contains(n))
    }
}

fn opt(x: Option<J>) -> J {
    match x {
        Some(v) => json!([v]),
        None => json!([]),
    }
}

fn bytes(b: &[u8]) -> J {
    J::Array(b.iter().map(|x| json!(*x)).collect())
}

fn int(n: &num_bigint::BigInt) -> R<J> {
    use num_traits::ToPrimitive;
    match n.to_i64() {
        Some(v) if v.abs() <= 100_000_000 => Ok(json!(v)),
        _ => Err("integer beyond the modelled range".into()),
    }
}

fn ty(cx: &mut Cx, t: &Type) -> R<J> {
    Ok(match t {
        Type::Primitive(PrimitiveType::Int) => json!({"y": "int"}),
        Type::Primitive(PrimitiveType::Bin) => json!({"y": "bin"}),
        Type::Primitive(PrimitiveType::Ref) => return Err("type 'ref".into()),
        Type::Tuple(tt) => {
            let mut fields = Vec::new();
            for f in &tt.fields {
                match f {
                    FieldType::Field { name, type_def } => fields.push(json!({
                        "label": name.clone().unwrap_or_default(),
                        "type": ty(cx, type_def)?})),
                    FieldType::Spread { .. } => return Err("type spread".into()),
                }
            }
            json!({"y": "tuple", "name": tt.name.clone().unwrap_or_default(),
                   "partial": tt.is_partial, "fields": fields})
        }
        Type::Function(ft) => {
            json!({"y": "fn", "par": ty(cx, &ft.input)?, "ret": ty(cx, &ft.output)?})
        }
        Type::Union(u) => {
            let mut ts = Vec::new();
            for x in &u.types {
                ts.push(ty(cx, x)?);
            }
            json!({"y": "union", "types": ts})
        }
        Type::Identifier { name, arguments } => {
            if cx.is_tyvar(name) {
                json!({"y": "any"})
            } else if !arguments.is_empty() {
                return Err("parameterised type".into());
            } else {
                json!({"y": "alias", "name": name})
            }
        }
        Type::Cycle(None) => json!({"y": "cycle"}),
        Type::Cycle(Some(_)) => return Err("ancestral cycle type".into()),
        Type::Intersection(_) => return Err("intersection type".into()),
        Type::Process(_) => return Err("process type".into()),
        Type::Resource(_) => return Err("resource type".into()),
        Type::ModuleType { .. } => return Err("module type".into()),
        Type::SelfDefault { .. } => return Err("default type".into()),
    })
}

fn pat(cx: &mut Cx, m: &Match) -> R<J> {
    Ok(match m {
        Match::Identifier(n, _) => json!({"p": "id", "name": n}),
        Match::Literal(Literal::Integer(n)) => json!({"p": "int", "n": int(n)?}),
        Match::Literal(Literal::Binary(b)) => json!({"p": "bin", "b": bytes(b)}),
        Match::String(_, b) => json!({"p": "str", "b": bytes(b)}),
        Match::Tuple(mt) => {
            let mut fields = Vec::new();
            for f in &mt.fields {
                fields.push(json!({"label": f.name.clone().unwrap_or_default(),
                                   "pat": pat(cx, &f.pattern)?}));
            }
            json!({"p": "tuple", "name": mt.name.clone().unwrap_or_default(), "fields": fields})
        }
        Match::Partial(pp) => {
            let mut fields = Vec::new();
            for f in &pp.fields {
                let p = match &f.pattern {
                    Some(p) => Some(pat(cx, p)?),
                    None => None,
                };
                fields.push(json!({"label": f.name, "pat": opt(p)}));
            }
            json!({"p": "partial", "name": pp.name.clone().unwrap_or_default(), "fields": fields})
        }
        Match::Star(n) => json!({"p": "star", "name": n.clone().unwrap_or_default()}),
        Match::Placeholder => json!({"p": "wild"}),
        Match::Reference(n, _) => json!({"p": "pin", "name": n}),
        Match::Type(t) => json!({"p": "type", "type": ty(cx, t)?}),
        Match::Or(alts) => {
            let mut a = Vec::new();
            for x in alts {
                a.push(pat(cx, x)?);
            }
            json!({"p": "or", "alts": a})
        }
        Match::As(t, n, _) => json!({"p": "as", "type": ty(cx, t)?, "name": n}),
    })
}

fn path(acc: &[AccessPath]) -> J {
    J::Array(
        acc.iter()
            .map(|a| match a {
                AccessPath::Field(n) => json!({"k": "f", "name": n}),
                AccessPath::Index(i) => json!({"k": "i", "i": i}),
            })
            .collect(),
    )
}

fn access(a: &Access, kind: &str) -> R<J> {
    let src = match &a.source {
        None => json!({"k": "none"}),
        Some(AccessSource::Identifier(n)) => json!({"k": "id", "name": n}),
        Some(AccessSource::Parameter) => json!({"k": "param"}),
        Some(AccessSource::Ripple) => json!({"k": "ripple"}),
        Some(AccessSource::Builtin(n)) => {
            // the parser strips the double underscores; the specification keeps the written name
            let full = if n.starts_with("__") { n.clone() } else { format!("__{}__", n) };
            json!({"k": "builtin", "name": full})
        }
        Some(AccessSource::TailCall(n)) => {
            json!({"k": "tail", "name": n.clone().unwrap_or_default()})
        }
        Some(AccessSource::TailCallRipple) => json!({"k": "tailripple"}),
        Some(AccessSource::Import(_)) => return Err("import".into()),
        Some(AccessSource::Self_) => return Err("self".into()),
    };
    Ok(json!({"t": kind, "src": src, "path": path(&a.accessors)}))
}

fn chain(cx: &mut Cx, c: &Chain) -> R<J> {
    let p = match &c.match_pattern {
        Some(m) => Some(pat(cx, m)?),
        None => None,
    };
    let mut terms = Vec::new();
    for t in &c.terms {
        terms.push(term(cx, t)?);
    }
    Ok(json!({"pat": opt(p), "terms": terms}))
}

fn seq(cx: &mut Cx, s: &Sequence) -> R<J> {
    let mut v = Vec::new();
    for c in &s.chains {
        v.push(chain(cx, c)?);
    }
    Ok(J::Array(v))
}

fn expr(cx: &mut Cx, e: &Expression) -> R<J> {
    let mut bs = Vec::new();
    for b in &e.branches {
        let cons = match &b.consequence {
            Some(s) => Some(seq(cx, s)?),
            None => None,
        };
        bs.push(json!({"cond": seq(cx, &b.condition)?, "cons": opt(cons)}));
    }
    Ok(json!({"branches": bs}))
}

fn term(cx: &mut Cx, t: &Term) -> R<J> {
    Ok(match t {
        Term::Literal(Literal::Integer(n)) => json!({"t": "int", "n": int(n)?}),
        Term::Literal(Literal::Binary(b)) => json!({"t": "bin", "b": bytes(b)}),
        Term::String(_, segs) => {
            let mut v = Vec::new();
            for s in segs {
                v.push(match s {
                    StrSegment::Text(b) => json!({"s": "text", "b": bytes(b)}),
                    StrSegment::Hole(e) => json!({"s": "hole", "body": expr(cx, e)?}),
                });
            }
            json!({"t": "str", "segs": v})
        }
        Term::Tuple(tp) => {
            let (nk, name) = match &tp.name {
                TupleName::Anonymous => ("anon", String::new()),
                TupleName::Named(n) => ("named", n.clone()),
                TupleName::Inherit => ("inherit", String::new()),
            };
            let mut fields = Vec::new();
            for f in &tp.fields {
                fields.push(match &f.value {
                    FieldValue::Chain(c) => json!({
                        "label": f.name.clone().unwrap_or_default(), "f": "chain",
                        "chain": chain(cx, c)?}),
                    FieldValue::Spread(s) => json!({
                        "label": "", "f": "spread", "src": s.clone().unwrap_or_default()}),
                });
            }
            json!({"t": "tuple", "nk": nk, "name": name, "fields": fields})
        }
        Term::Match(m) => json!({"t": "match", "pat": pat(cx, m)?}),
        Term::Block(e) => json!({"t": "block", "body": expr(cx, e)?}),
        Term::Function(f) => {
            if f.parameter_type.is_none() && f.body.is_none() {
                return Err("function without parameter and body".into());
            }
            cx.tyvars.push(f.type_parameters.iter().cloned().collect());
            let r = (|| -> R<J> {
                let p = match &f.parameter_type {
                    Some(t) => Some(ty(cx, t)?),
                    None => None,
                };
                let b = match &f.body {
                    Some(e) => Some(expr(cx, e)?),
                    None => None,
                };
                Ok(json!({"t": "fn", "param": opt(p), "body": opt(b)}))
            })();
            cx.tyvars.pop();
            r?
        }
        Term::Access(a) => access(a, "access")?,
        Term::Reference(a) => access(a, "ref")?,
        Term::Spawn(..) => return Err("spawn".into()),
        Term::Self_ => return Err("self".into()),
        Term::Select(..) => return Err("select".into()),
        Term::Process(_) => return Err("process".into()),
    })
}

fn program(p: &Program) -> R<J> {
    let mut cx = Cx { tyvars: Vec::new() };
    let mut aliases = Vec::new();
    let mut steps = Vec::new();
    for s in &p.statements {
        match s {
            Statement::TypeAlias {
                name,
                type_parameters,
                type_definition,
                ..
            } => {
                let Some(n) = name else {
                    return Err("default type".into());
                };
                if !type_parameters.is_empty() {
                    return Err("parameterised alias".into());
                }
                aliases.push(json!({"name": n, "type": ty(&mut cx, type_definition)?}));
            }
            Statement::Expression(sq) => {
                for c in &sq.chains {
                    steps.push(chain(&mut cx, c)?);
                }
            }
        }
    }
    Ok(json!({"aliases": aliases, "steps": steps}))
}

fn main() {
    let stdin = std::io::stdin();
    let stdout = std::io::stdout();
    let mut out = stdout.lock();
    for line in stdin.lock().lines() {
        let line = line.unwrap();
        if line.trim().is_empty() {
            continue;
        }
        let j: J = serde_json::from_str(&line).expect("json");
        let src = j["src"].as_str().unwrap_or("");
        let rec = match quiver_compiler::parse(src) {
            Err(e) => json!({"id": j["id"], "parse_error": format!("{:?}", e)}),
            Ok(p) => match program(&p) {
                Ok(a) => json!({"id": j["id"], "ast": a}),
                Err(why) => json!({"id": j["id"], "skip": why}),
            },
        };
        writeln!(out, "{}", rec).unwrap();
    }
}
