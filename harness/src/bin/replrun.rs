//! replrun: REPL sessions (C11).  stdin: ndjson {"id":..,"lines":[..],"modules":{..},"workers":2,"q":1000}
//! stdout: {"id", "lines":[{"outcome":O, "vars":[[name, type, value-or-null-record]..]}..], "crashes":[..]}
//! After every line the session's variables are listed (Repl::get_variables) and each value is read
//! back through Repl::request_variable.
use qharness::project::pv;
use qharness::sim::{Sim, SimConfig};
use quiver_environment::RequestResult;
use serde_json::{Value as J, json};
use std::io::{BufRead, Write};

fn main() {
    std::panic::set_hook(Box::new(|_| {}));
    let stdin = std::io::stdin();
    let stdout = std::io::stdout();
    let mut out = stdout.lock();
    for line in stdin.lock().lines() {
        let line = line.unwrap();
        if line.trim().is_empty() {
            continue;
        }
        let j: J = serde_json::from_str(&line).expect("json");
        let mut modules = std::collections::HashMap::new();
        if let Some(J::Object(m)) = j.get("modules") {
            for (name, src) in m {
                modules.insert(
                    name.split('/').map(|s| s.to_string()).collect::<Vec<_>>(),
                    src.as_str().unwrap_or("").to_string(),
                );
            }
        }
        let q = j["q"].as_u64().unwrap_or(1000) as usize;
        let mut sim = Sim::new(SimConfig {
            workers: j["workers"].as_u64().unwrap_or(2) as usize,
            record: false,
            modules,
            ..Default::default()
        });
        let lines: Vec<String> = match j.get("lines") {
            Some(J::Array(a)) => a.iter().map(|x| x.as_str().unwrap_or("").to_string()).collect(),
            _ => vec![],
        };
        let mut recs = Vec::new();
        for src in &lines {
            if sim.submit(src) {
                sim.run_default(q, 2_000_000);
            }
            let outcome = sim.outcome_json();
            let mut vars = Vec::new();
            if sim.crashes.is_empty() {
                for (name, ty) in sim.repl.get_variables() {
                    let mut val = json!({"k": "unreadable"});
                    if let Ok(req) = sim.repl.request_variable(&mut sim.env, &name) {
                        for _ in 0..10_000 {
                            sim.env_step_all();
                            for w in 0..sim.nworkers() {
                                sim.worker_step(w, usize::MAX, 1000);
                            }
                            let program = sim.env.get_program().clone();
                            match sim.env.poll_request(req) {
                                Ok(Some(RequestResult::Locals(ls))) => {
                                    if let Some((v, heap)) = ls.first() {
                                        val = pv(&program, heap, v);
                                    }
                                    break;
                                }
                                Ok(None) => {}
                                _ => break,
                            }
                            if !sim.crashes.is_empty() {
                                break;
                            }
                        }
                    }
                    vars.push(json!([name, ty, val]));
                }
            }
            recs.push(json!({"outcome": outcome, "vars": vars}));
            if !sim.crashes.is_empty() {
                break;
            }
        }
        writeln!(out, "{}", json!({"id": j["id"], "lines": recs, "crashes": sim.crashes})).unwrap();
    }
}
