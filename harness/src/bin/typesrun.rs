//! typesrun: the TREE-SHAKEN configuration of the C08 cases.  What `quiv compile -e SRC -o f.qx`
//! followed by `quiv run f.qx` does, in-process: compile the program, run it to obtain the
//! function it evaluates to (captures injected), tree-shake the image with that function as the
//! entry (`Program::to_bytecode_optimized`), serialise it to the .qx JSON form and back, and
//! execute the shaken image (`execute_bytecode_sync`: fresh executor, compatibility tables
//! recomputed from the shaken type/tuple tables, entry called with nil).
//!
//! stdin (ndjson): {"id":.., "src": ".."}     the program must evaluate to a nilary function
//! stdout (ndjson): {"id", "out": {"t":"value","name":N,"arity":k} | {"t":"value","other":..}
//!                   | {"t":"rejected","m":..} | {"t":"notfn"} | {"t":"error","e":..}
//!                   | {"t":"panic","m":..}, "ntypes":[full, shaken], "ntuples":[full, shaken]}
use qharness::E;
use quiver_compiler::compiler::ModuleCache;
use quiver_compiler::{Compiler, PackageResolver};
use quiver_core::builtins::BuiltinRegistry;
use quiver_core::bytecode::{Bytecode, Function};
use quiver_core::program::Program;
use quiver_core::types::Type;
use quiver_core::value::Value;
use serde_json::{Value as J, json};
use std::collections::HashMap;
use std::io::{BufRead, Write};
use std::panic::{AssertUnwindSafe, catch_unwind};

fn run_case(src: &str, builtins: &BuiltinRegistry<E>, resolver: &PackageResolver) -> J {
    let ast = match quiver_compiler::parse(src) {
        Ok(a) => a,
        Err(e) => return json!({"out": {"t": "rejected", "m": format!("parse: {e}")}}),
    };
    let mut program = Program::new();
    let mut cache = ModuleCache::new();
    let none = HashMap::new();
    let compiled = match Compiler::compile(
        ast,
        &HashMap::new(),
        &mut cache,
        resolver,
        &mut program,
        quiver_core::types::NIL,
        &none,
        builtins,
        None,
    ) {
        Ok(c) => c,
        Err(e) => return json!({"out": {"t": "rejected", "m": format!("compile: {:?}", e.error)}}),
    };
    let nil_type_id = program.register_type(Type::nil());
    let callable = program.register_type(Type::Callable {
        parameter: nil_type_id,
        result: compiled.result_type,
        receive: compiled.receive_type,
    });
    let wrapper = program.register_function(Function {
        instructions: compiled.instructions,
        captures: 0,
        type_id: callable,
    });
    let full = program.to_bytecode(Some(wrapper));
    let (result, executor) = match quiver_core::execute_bytecode_sync(full, builtins, false) {
        Ok(x) => x,
        Err(e) => return json!({"out": {"t": "error", "e": format!("{e:?}"), "phase": "extract"}}),
    };
    let entry = match result {
        Value::Function(f, captures) => {
            if captures.is_empty() {
                f
            } else {
                program.inject_function_captures(f, (*captures).clone(), &executor)
            }
        }
        _ => return json!({"out": {"t": "notfn"}}),
    };
    let shaken = program.to_bytecode_optimized(entry);
    // the .qx round trip
    let text = serde_json::to_string(&shaken).expect("serialise");
    let shaken: Bytecode = match serde_json::from_str(&text) {
        Ok(b) => b,
        Err(e) => return json!({"out": {"t": "error", "e": format!("qx round trip: {e}")}}),
    };
    let sizes = json!({"ntypes": [program.get_types().len(), shaken.types.len()],
                       "ntuples": [program.get_tuples().len(), shaken.tuples.len()]});
    let tuples = shaken.tuples.clone();
    let out = match quiver_core::execute_bytecode_sync(shaken, builtins, false) {
        Ok((Value::Tuple(t, elems), _)) => match tuples.get(t) {
            Some(info) => json!({"t": "value", "name": info.name.clone().unwrap_or_default(),
                                 "arity": elems.len()}),
            None => json!({"t": "value", "other": format!("tuple id {t} outside the shaken table")}),
        },
        Ok((v, _)) => json!({"t": "value", "other": format!("{v:?}")}),
        Err(e) => json!({"t": "error", "e": format!("{e:?}")}),
    };
    json!({"out": out, "sizes": sizes})
}

fn main() {
    let builtins = BuiltinRegistry::<E>::with_modules(&quiver_core::builtins::core_modules());
    let resolver = PackageResolver::memory(HashMap::new());
    std::panic::set_hook(Box::new(|_| {}));
    let stdin = std::io::stdin();
    let stdout = std::io::stdout();
    let mut out = std::io::BufWriter::new(stdout.lock());
    for line in stdin.lock().lines() {
        let line = line.unwrap();
        if line.trim().is_empty() {
            continue;
        }
        let j: J = serde_json::from_str(&line).expect("json");
        let src = j["src"].as_str().unwrap_or("").to_string();
        let mut rec = match catch_unwind(AssertUnwindSafe(|| run_case(&src, &builtins, &resolver))) {
            Ok(r) => r,
            Err(p) => {
                let m = if let Some(s) = p.downcast_ref::<&str>() {
                    s.to_string()
                } else if let Some(s) = p.downcast_ref::<String>() {
                    s.clone()
                } else {
                    "panic".into()
                };
                json!({"out": {"t": "panic", "m": m}})
            }
        };
        rec["id"] = j["id"].clone();
        writeln!(out, "{}", rec).unwrap();
        out.flush().unwrap();
    }
}
